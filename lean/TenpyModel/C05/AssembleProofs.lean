import TenpyModel.C05.Fact
import Mathlib.Algebra.BigOperators.Group.Finset.Basic
import Mathlib.Algebra.BigOperators.Ring.Finset
import Mathlib.Algebra.BigOperators.Intervals
import Mathlib.Algebra.Star.Basic
import Mathlib.Tactic.Ring
import Mathlib.Data.List.Perm.Basic
/-!
Dense algebra of block matrices, in block-structured indices `(block, offset)`.

`bsum B qi r qj s` is the entry `(r, s)` of the charge block `(qi, qj)` of the matrix whose stored blocks are `B`
(`BMat.bentry a = bsum a.blocks`); `bmul3 B₁ S B₂ sz` is the product `B₁ · diag(S) · B₂` over an inner leg whose
blocks have the sizes `sz` (`S k c` = weight of the `c`-th index of inner block `k`; `S = 1` for a plain product).
-/
namespace TenpyModel.C05
open Finset TenpyModel.Core

variable {α : Type} [CommRing α]

def bsum (B : List (Blk α)) (qi r qj s : Nat) : α :=
  (B.map (fun b => if b.qi = qi ∧ b.qj = qj then b.m.entry r s else 0)).sum

theorem bentry_eq_bsum (a : BMat α) : a.bentry = bsum a.blocks := rfl

@[simp] theorem bsum_nil (qi r qj s : Nat) : bsum ([] : List (Blk α)) qi r qj s = 0 := rfl

theorem bsum_cons (b : Blk α) (B : List (Blk α)) (qi r qj s : Nat) :
    bsum (b :: B) qi r qj s = (if b.qi = qi ∧ b.qj = qj then b.m.entry r s else 0) + bsum B qi r qj s := by
  simp [bsum]

/-- no stored block in row sector `k`: the whole block row vanishes -/
theorem bsum_eq_zero_of_qi (B : List (Blk α)) (k : Nat) (h : ∀ b ∈ B, b.qi ≠ k) (c qj s : Nat) :
    bsum B k c qj s = 0 := by
  induction B with
  | nil => rfl
  | cons b B ih =>
    rw [bsum_cons, ih (fun x hx => h x (List.mem_cons_of_mem _ hx))]
    simp [h b List.mem_cons_self]

theorem bsum_eq_zero_of_qj (B : List (Blk α)) (k : Nat) (h : ∀ b ∈ B, b.qj ≠ k) (qi r c : Nat) :
    bsum B qi r k c = 0 := by
  induction B with
  | nil => rfl
  | cons b B ih =>
    rw [bsum_cons, ih (fun x hx => h x (List.mem_cons_of_mem _ hx))]
    simp [h b List.mem_cons_self]

/-- `B₁ · diag(S) · B₂` in block indices -/
def bmul3 (B1 : List (Blk α)) (S : Nat → Nat → α) (B2 : List (Blk α)) (sz : List Nat) (qi r qj s : Nat) : α :=
  ∑ k ∈ range sz.length, ∑ c ∈ range (sz.getD k 0), bsum B1 qi r k c * S k c * bsum B2 k c qj s

theorem bmul3_cons_left (x : Blk α) (B1 : List (Blk α)) (S : Nat → Nat → α) (B2 : List (Blk α)) (sz : List Nat)
    (qi r qj s : Nat) :
    bmul3 (x :: B1) S B2 sz qi r qj s = bmul3 [x] S B2 sz qi r qj s + bmul3 B1 S B2 sz qi r qj s := by
  simp only [bmul3, ← Finset.sum_add_distrib]
  refine Finset.sum_congr rfl (fun k _ => Finset.sum_congr rfl (fun c _ => ?_))
  rw [bsum_cons, bsum_cons, bsum_nil]; ring

theorem bmul3_cons_right (B1 : List (Blk α)) (S : Nat → Nat → α) (y : Blk α) (B2 : List (Blk α)) (sz : List Nat)
    (qi r qj s : Nat) :
    bmul3 B1 S (y :: B2) sz qi r qj s = bmul3 B1 S [y] sz qi r qj s + bmul3 B1 S B2 sz qi r qj s := by
  simp only [bmul3, ← Finset.sum_add_distrib]
  refine Finset.sum_congr rfl (fun k _ => Finset.sum_congr rfl (fun c _ => ?_))
  rw [bsum_cons, bsum_cons, bsum_nil]; ring

@[simp] theorem bmul3_nil_left (S : Nat → Nat → α) (B2 : List (Blk α)) (sz : List Nat) (qi r qj s : Nat) :
    bmul3 [] S B2 sz qi r qj s = 0 := by simp [bmul3]

@[simp] theorem bmul3_nil_right (B1 : List (Blk α)) (S : Nat → Nat → α) (sz : List Nat) (qi r qj s : Nat) :
    bmul3 B1 S [] sz qi r qj s = 0 := by simp [bmul3]

/-- a block of the left factor meets no block of the right factor on the inner leg: no contribution -/
theorem bmul3_single_left_zero (x : Blk α) (S : Nat → Nat → α) (B2 : List (Blk α)) (sz : List Nat)
    (h : ∀ y ∈ B2, y.qi ≠ x.qj) (qi r qj s : Nat) : bmul3 [x] S B2 sz qi r qj s = 0 := by
  simp only [bmul3]
  refine Finset.sum_eq_zero (fun k _ => Finset.sum_eq_zero (fun c _ => ?_))
  by_cases hk : x.qj = k
  · subst hk; rw [bsum_eq_zero_of_qi B2 _ h]; ring
  · rw [bsum_cons, bsum_nil]; simp [hk]

theorem bmul3_single_right_zero (B1 : List (Blk α)) (S : Nat → Nat → α) (y : Blk α) (sz : List Nat)
    (h : ∀ x ∈ B1, x.qj ≠ y.qi) (qi r qj s : Nat) : bmul3 B1 S [y] sz qi r qj s = 0 := by
  simp only [bmul3]
  refine Finset.sum_eq_zero (fun k _ => Finset.sum_eq_zero (fun c _ => ?_))
  by_cases hk : y.qi = k
  · subst hk; rw [bsum_eq_zero_of_qj B1 _ h]; ring
  · rw [bsum_cons (B := []), bsum_nil]; simp [hk]

/-- one block times one block over the same inner block `κ` -/
theorem bmul3_single_single (x y : Blk α) (S : Nat → Nat → α) (sz : List Nat) (κ : Nat)
    (hx : x.qj = κ) (hy : y.qi = κ) (hκ : κ < sz.length) (qi r qj s : Nat) :
    bmul3 [x] S [y] sz qi r qj s
      = if x.qi = qi ∧ y.qj = qj then ∑ c ∈ range (sz.getD κ 0), x.m.entry r c * S κ c * y.m.entry c s else 0 := by
  simp only [bmul3]
  rw [Finset.sum_eq_single κ]
  · simp only [bsum_cons, bsum_nil, add_zero, hx, hy, and_true, true_and]
    by_cases h1 : x.qi = qi <;> by_cases h2 : y.qj = qj <;> simp [h1, h2]
  · intro k _ hk
    refine Finset.sum_eq_zero (fun c _ => ?_)
    simp only [bsum_cons, bsum_nil, add_zero, hx]
    simp [Ne.symm hk]
  · intro h; exact absurd (Finset.mem_range.mpr hκ) h

/-- **General assembly lemma.** The left factor has one block `(qi_e, κ_e)` and the right factor one block
`(κ_e, qj_e)` per element `e` of a list, the inner block indices `κ_e` being pairwise different. Then the product is,
block by block, the sum of the per-element products: nothing is mixed between different `e`. -/
theorem bmul3_assemble {E : Type} (L : List E) (fX fY : E → Blk α) (κ : E → Nat) (S : Nat → Nat → α) (sz : List Nat)
    (hX : ∀ e ∈ L, (fX e).qj = κ e) (hY : ∀ e ∈ L, (fY e).qi = κ e)
    (hinj : L.Pairwise (fun e e' => κ e ≠ κ e')) (hlt : ∀ e ∈ L, κ e < sz.length) (qi r qj s : Nat) :
    bmul3 (L.map fX) S (L.map fY) sz qi r qj s
      = (L.map (fun e => if (fX e).qi = qi ∧ (fY e).qj = qj then
            ∑ c ∈ range (sz.getD (κ e) 0), (fX e).m.entry r c * S (κ e) c * (fY e).m.entry c s else 0)).sum := by
  induction L with
  | nil => simp
  | cons e L ih =>
    have hp := List.pairwise_cons.mp hinj
    simp only [List.map_cons, List.sum_cons]
    rw [bmul3_cons_left, bmul3_cons_right, bmul3_cons_right (B1 := L.map fX)]
    rw [bmul3_single_left_zero (fX e) S (L.map fY) sz, bmul3_single_right_zero (L.map fX) S (fY e) sz,
      ih (fun x hx => hX x (List.mem_cons_of_mem _ hx)) (fun x hx => hY x (List.mem_cons_of_mem _ hx)) hp.2
        (fun x hx => hlt x (List.mem_cons_of_mem _ hx)),
      bmul3_single_single (fX e) (fY e) S sz (κ e) (hX e List.mem_cons_self) (hY e List.mem_cons_self)
        (hlt e List.mem_cons_self)]
    · ring
    · intro x hx
      obtain ⟨e', he', rfl⟩ := List.mem_map.mp hx
      rw [hX e' (List.mem_cons_of_mem _ he'), hY e List.mem_cons_self]
      exact Ne.symm (hp.1 e' he')
    · intro y hy
      obtain ⟨e', he', rfl⟩ := List.mem_map.mp hy
      rw [hY e' (List.mem_cons_of_mem _ he'), hX e List.mem_cons_self]
      exact Ne.symm (hp.1 e' he')

/-! ### list-sum helpers -/

theorem sum_map_filter {β : Type} (l : List β) (p : β → Bool) (g : β → α) (h : ∀ x ∈ l, p x = false → g x = 0) :
    ((l.filter p).map g).sum = (l.map g).sum := by
  induction l with
  | nil => rfl
  | cons x l ih =>
    have ih' := ih (fun y hy => h y (List.mem_cons_of_mem _ hy))
    by_cases hp : p x
    · simp [hp, ih']
    · simp [hp, ih', h x List.mem_cons_self (by simpa using hp)]

theorem map_fst_zipIdx_sum {β : Type} (l : List β) (n : Nat) (g : β → α) :
    ((l.zipIdx n).map (fun e => g e.1)).sum = (l.map g).sum := by
  have : (l.zipIdx n).map (fun e => g e.1) = ((l.zipIdx n).map Prod.fst).map g := by
    rw [List.map_map]; rfl
  rw [this, List.zipIdx_map_fst]

theorem pairwise_snd_zipIdx {β : Type} (l : List β) (n : Nat) :
    (l.zipIdx n).Pairwise (fun e e' => e.2 ≠ e'.2) := by
  induction l generalizing n with
  | nil => simp
  | cons x l ih =>
    simp only [List.zipIdx_cons, List.pairwise_cons]
    refine ⟨?_, ih (n + 1)⟩
    intro e he
    have := (List.mem_zipIdx_iff_le_and_getElem?_sub.mp he).1
    omega

theorem pairwise_eq_of_mem {E : Type} {L : List E} {κ : E → Nat} (hinj : L.Pairwise (fun e e' => κ e ≠ κ e'))
    {e e' : E} (he : e ∈ L) (he' : e' ∈ L) (h : κ e = κ e') : e = e' := by
  induction L with
  | nil => cases he
  | cons x L ih =>
    have hp := List.pairwise_cons.mp hinj
    rcases List.mem_cons.mp he with rfl | he1 <;> rcases List.mem_cons.mp he' with rfl | he2
    · rfl
    · exact absurd h (hp.1 _ he2)
    · exact absurd h.symm (hp.1 _ he1)
    · exact ih hp.2 he1 he2

/-- with pairwise different inner indices, the block column `κ e` of the assembled factor is the block of `e` alone -/
theorem bsum_unique {E : Type} (L : List E) (f : E → Blk α) (κ : E → Nat) (hκ : ∀ e ∈ L, (f e).qj = κ e)
    (hinj : L.Pairwise (fun e e' => κ e ≠ κ e')) (e : E) (he : e ∈ L) (qi r c : Nat) :
    bsum (L.map f) qi r (κ e) c = if (f e).qi = qi then (f e).m.entry r c else 0 := by
  induction L with
  | nil => cases he
  | cons x L ih =>
    have hp := List.pairwise_cons.mp hinj
    simp only [List.map_cons, bsum_cons]
    rcases List.mem_cons.mp he with rfl | he1
    · rw [bsum_eq_zero_of_qj]
      · simp [hκ e List.mem_cons_self]
      · intro b hb
        obtain ⟨e', he', rfl⟩ := List.mem_map.mp hb
        rw [hκ e' (List.mem_cons_of_mem _ he')]
        exact Ne.symm (hp.1 e' he')
    · rw [ih (fun y hy => hκ y (List.mem_cons_of_mem _ hy)) hp.2 he1]
      have : (f x).qj ≠ κ e := by rw [hκ x List.mem_cons_self]; exact hp.1 e he1
      simp [this]

/-- same for block rows -/
theorem bsum_unique_row {E : Type} (L : List E) (f : E → Blk α) (κ : E → Nat) (hκ : ∀ e ∈ L, (f e).qi = κ e)
    (hinj : L.Pairwise (fun e e' => κ e ≠ κ e')) (e : E) (he : e ∈ L) (c qj s : Nat) :
    bsum (L.map f) (κ e) c qj s = if (f e).qj = qj then (f e).m.entry c s else 0 := by
  induction L with
  | nil => cases he
  | cons x L ih =>
    have hp := List.pairwise_cons.mp hinj
    simp only [List.map_cons, bsum_cons]
    rcases List.mem_cons.mp he with rfl | he1
    · rw [bsum_eq_zero_of_qi]
      · simp [hκ e List.mem_cons_self]
      · intro b hb
        obtain ⟨e', he', rfl⟩ := List.mem_map.mp hb
        rw [hκ e' (List.mem_cons_of_mem _ he')]
        exact Ne.symm (hp.1 e' he')
    · rw [ih (fun y hy => hκ y (List.mem_cons_of_mem _ hy)) hp.2 he1]
      have : (f x).qi ≠ κ e := by rw [hκ x List.mem_cons_self]; exact hp.1 e he1
      simp [this]

variable [StarRing α]

/-- **General isometry lemma** (`Xᴴ X = 1` on the inner leg): every inner block `κ e` belongs to exactly one element
`e`, different elements sit in different row sectors, and every block is an isometry. `sz0` are the block sizes of the
row leg, `n0` its number of blocks. -/
theorem biso_assemble {E : Type} (L : List E) (f : E → Blk α) (κ : E → Nat) (sz0 sz : List Nat) (n0 : Nat)
    (hκ : ∀ e ∈ L, (f e).qj = κ e) (hinj : L.Pairwise (fun e e' => κ e ≠ κ e'))
    (hqi : ∀ e ∈ L, (f e).qi < n0)
    (hrow : ∀ e ∈ L, ∀ e' ∈ L, (f e).qi = (f e').qi → κ e = κ e')
    (hiso : ∀ e ∈ L, ∀ c < sz.getD (κ e) 0, ∀ c' < sz.getD (κ e) 0,
      ∑ r ∈ range (sz0.getD (f e).qi 0), star ((f e).m.entry r c) * (f e).m.entry r c' = if c = c' then 1 else 0)
    (e e' : E) (he : e ∈ L) (he' : e' ∈ L) (c c' : Nat) (hc : c < sz.getD (κ e) 0) (hc' : c' < sz.getD (κ e') 0) :
    ∑ qi ∈ range n0, ∑ r ∈ range (sz0.getD qi 0),
        star (bsum (L.map f) qi r (κ e) c) * bsum (L.map f) qi r (κ e') c'
      = if κ e = κ e' ∧ c = c' then 1 else 0 := by
  simp only [bsum_unique L f κ hκ hinj e he, bsum_unique L f κ hκ hinj e' he']
  by_cases hk : κ e = κ e'
  · have hee : e = e' := pairwise_eq_of_mem hinj he he' hk
    subst hee
    rw [Finset.sum_eq_single (f e).qi]
    · simp only [↓reduceIte, true_and]
      exact hiso e he c hc c' hc'
    · intro q _ hq
      refine Finset.sum_eq_zero (fun r _ => ?_)
      simp [Ne.symm hq]
    · intro h; exact absurd (Finset.mem_range.mpr (hqi e he)) h
  · simp only [hk, false_and, ↓reduceIte]
    refine Finset.sum_eq_zero (fun q _ => Finset.sum_eq_zero (fun r _ => ?_))
    by_cases h1 : (f e).qi = q
    · have : (f e').qi ≠ q := by
        intro h2; exact hk (hrow e he e' he' (h1.trans h2.symm))
      simp [this]
    · simp [h1]

/-- row version (`Y Yᴴ = 1` on the inner leg, which is the ROW leg of `Y`) -/
theorem biso_assemble_row {E : Type} (L : List E) (f : E → Blk α) (κ : E → Nat) (sz1 sz : List Nat) (n1 : Nat)
    (hκ : ∀ e ∈ L, (f e).qi = κ e) (hinj : L.Pairwise (fun e e' => κ e ≠ κ e'))
    (hqj : ∀ e ∈ L, (f e).qj < n1)
    (hcol : ∀ e ∈ L, ∀ e' ∈ L, (f e).qj = (f e').qj → κ e = κ e')
    (hiso : ∀ e ∈ L, ∀ c < sz.getD (κ e) 0, ∀ c' < sz.getD (κ e) 0,
      ∑ s ∈ range (sz1.getD (f e).qj 0), (f e).m.entry c s * star ((f e).m.entry c' s) = if c = c' then 1 else 0)
    (e e' : E) (he : e ∈ L) (he' : e' ∈ L) (c c' : Nat) (hc : c < sz.getD (κ e) 0) (hc' : c' < sz.getD (κ e') 0) :
    ∑ qj ∈ range n1, ∑ s ∈ range (sz1.getD qj 0),
        bsum (L.map f) (κ e) c qj s * star (bsum (L.map f) (κ e') c' qj s)
      = if κ e = κ e' ∧ c = c' then 1 else 0 := by
  simp only [bsum_unique_row L f κ hκ hinj e he, bsum_unique_row L f κ hκ hinj e' he']
  by_cases hk : κ e = κ e'
  · have hee : e = e' := pairwise_eq_of_mem hinj he he' hk
    subst hee
    rw [Finset.sum_eq_single (f e).qj]
    · simp only [↓reduceIte, true_and]
      exact hiso e he c hc c' hc'
    · intro q _ hq
      refine Finset.sum_eq_zero (fun r _ => ?_)
      simp [Ne.symm hq]
    · intro h; exact absurd (Finset.mem_range.mpr (hqj e he)) h
  · simp only [hk, false_and, ↓reduceIte]
    refine Finset.sum_eq_zero (fun q _ => Finset.sum_eq_zero (fun r _ => ?_))
    by_cases h1 : (f e).qj = q
    · have : (f e').qj ≠ q := by
        intro h2; exact hk (hcol e he e' he' (h1.trans h2.symm))
      simp [this]
    · simp [h1]

/-- elements of `l.zipIdx` with the same key are at the same position, if the keys of `l` are pairwise different -/
theorem zipIdx_snd_eq_of_pairwise {β : Type} {l : List β} (key : β → Nat)
    (h : l.Pairwise (fun x y => key x ≠ key y)) {e e' : β × Nat} (he : e ∈ l.zipIdx) (he' : e' ∈ l.zipIdx)
    (hk : key e.1 = key e'.1) : e.2 = e'.2 := by
  have hp : (l.zipIdx).Pairwise (fun x y => key x.1 ≠ key y.1) := by
    have := (List.zipIdx_map_fst 0 l).symm
    rw [this] at h
    exact (List.pairwise_map (f := Prod.fst) (R := fun x y => key x ≠ key y)).mp h
  have := pairwise_eq_of_mem (κ := fun x : β × Nat => key x.1) hp he he' hk
  rw [this]

omit [StarRing α] in
/-- one left block against an arbitrary right factor -/
theorem bmul3_single_left (x : Blk α) (S : Nat → Nat → α) (Y : List (Blk α)) (sz : List Nat)
    (hκ : x.qj < sz.length) (qi r qj s : Nat) :
    bmul3 [x] S Y sz qi r qj s
      = if x.qi = qi then ∑ c ∈ range (sz.getD x.qj 0), x.m.entry r c * S x.qj c * bsum Y x.qj c qj s else 0 := by
  simp only [bmul3]
  rw [Finset.sum_eq_single x.qj]
  · by_cases h : x.qi = qi <;> simp [bsum_cons, h]
  · intro k _ hk
    refine Finset.sum_eq_zero (fun c _ => ?_)
    simp [bsum_cons, Ne.symm hk]
  · intro h; exact absurd (Finset.mem_range.mpr hκ) h

omit [StarRing α] in
/-- the product is linear in the blocks of the left factor (no hypothesis on the right factor) -/
theorem bmul3_left_linear (X : List (Blk α)) (S : Nat → Nat → α) (Y : List (Blk α)) (sz : List Nat)
    (h : ∀ x ∈ X, x.qj < sz.length) (qi r qj s : Nat) :
    bmul3 X S Y sz qi r qj s
      = (X.map (fun x => if x.qi = qi then
          ∑ c ∈ range (sz.getD x.qj 0), x.m.entry r c * S x.qj c * bsum Y x.qj c qj s else 0)).sum := by
  induction X with
  | nil => simp
  | cons x X ih =>
    rw [bmul3_cons_left, bmul3_single_left x S Y sz (h x List.mem_cons_self),
      ih (fun y hy => h y (List.mem_cons_of_mem _ hy))]
    simp

omit [StarRing α] in
/-- a factor with exactly the diagonal blocks `g 0, …, g (n-1)` (as built by `diag(1.0, leg)`) -/
theorem bsum_range_diag (n : Nat) (g : Nat → Mat α) (k c qj s : Nat) :
    bsum ((List.range n).map (fun i => (⟨i, i, g i⟩ : Blk α))) k c qj s
      = if k < n ∧ qj = k then (g k).entry c s else 0 := by
  by_cases hk : k < n
  · have := bsum_unique_row (List.range n) (fun i => (⟨i, i, g i⟩ : Blk α)) id (fun _ _ => rfl)
      (by
        have := List.pairwise_lt_range (n := n)
        exact this.imp (fun h => Nat.ne_of_lt h))
      k (List.mem_range.mpr hk) c qj s
    simp only [id] at this
    rw [this]
    by_cases hq : qj = k
    · simp [hk, hq]
    · simp [hk, hq, Ne.symm hq]
  · rw [bsum_eq_zero_of_qi]
    · simp [hk]
    · intro b hb
      obtain ⟨i, hi, rfl⟩ := List.mem_map.mp hb
      have := List.mem_range.mp hi
      simp only; omega

omit [StarRing α] [CommRing α] in
/-- with pairwise different keys, `lastWithQi` returns the entry of the key -/
theorem lastWithQi_of_mem {β : Type} (l : List (Nat × β)) (h : l.Pairwise (fun x y => x.1 ≠ y.1))
    (x : Nat × β) (hx : x ∈ l) : lastWithQi l x.1 = some x.2 := by
  unfold lastWithQi
  have hp : l.reverse.Pairwise (fun x y => x.1 ≠ y.1) := by
    rw [List.pairwise_reverse]; exact h.imp (fun h => Ne.symm h)
  have hm : x ∈ l.reverse := List.mem_reverse.mpr hx
  generalize l.reverse = r at hp hm
  induction r with
  | nil => cases hm
  | cons y r ih =>
    have hp' := List.pairwise_cons.mp hp
    rcases List.mem_cons.mp hm with rfl | hm'
    · simp
    · have : (y.1 == x.1) = false := by
        simpa using hp'.1 x hm'
      simp only [List.find?_cons, this]
      exact ih hp'.2 hm'

omit [StarRing α] [CommRing α] in
theorem lastWithQi_none {β : Type} (l : List (Nat × β)) (k : Nat) (h : ∀ x ∈ l, x.1 ≠ k) : lastWithQi l k = none := by
  unfold lastWithQi
  simp only [Option.map_eq_none_iff, List.find?_eq_none, List.mem_reverse]
  intro x hx
  simpa using h x hx

omit [StarRing α] in
theorem entry_ofFn (r c : Nat) (f : Nat → Nat → α) (i j : Nat) :
    (Mat.ofFn r c f).entry i j = if i < r ∧ j < c then f i j else 0 := by
  unfold Mat.entry Mat.ofFn
  by_cases hi : i < r
  · by_cases hj : j < c
    · simp [List.getD_eq_getElem?_getD, hi, hj]
    · simp [List.getD_eq_getElem?_getD, hi, hj]
  · simp [List.getD_eq_getElem?_getD, hi]

omit [StarRing α] in
theorem entry_eye (n i j : Nat) : (Mat.eye n : Mat α).entry i j = if i < n ∧ j < n ∧ i = j then 1 else 0 := by
  unfold Mat.eye
  rw [entry_ofFn]
  by_cases h : i = j <;> by_cases hi : i < n <;> simp [h, hi]

omit [StarRing α] in
/-- sum over a list with pairwise different keys of the terms of one key: at most one term survives -/
theorem sum_unique_key {β : Type} (l : List β) (key : β → Nat) (h : l.Pairwise (fun x y => key x ≠ key y))
    (g : β → α) (k : Nat) :
    (l.map (fun b => if key b = k then g b else 0)).sum
      = match l.find? (fun b => key b == k) with
        | some b => g b
        | none => 0 := by
  induction l with
  | nil => rfl
  | cons x l ih =>
    have hp := List.pairwise_cons.mp h
    simp only [List.map_cons, List.sum_cons, List.find?_cons]
    by_cases hx : key x = k
    · have hz : (l.map (fun b => if key b = k then g b else 0)).sum = 0 := by
        apply List.sum_eq_zero
        intro y hy
        obtain ⟨b, hb, rfl⟩ := List.mem_map.mp hy
        have := hp.1 b hb
        have hne : key b ≠ k := fun h' => this (hx.trans h'.symm)
        simp [hne]
      simp [hx, hz]
    · have : (key x == k) = false := by simpa using hx
      simp [hx, this, ih hp.2]

/-! ### the `have_q_qinds` walk of `qr(mode='complete')` and the sort it relies on -/

omit [StarRing α] [CommRing α] in

/-- `missingQinds bn have`, for an ascending list `have` of pairwise different qindices: exactly the `q < bn` that are
not in `have`. Generalised statement about the pointer walk. -/
theorem missingQinds_go_spec (bn : Nat) (haveQ : List Nat) (hs : haveQ.Pairwise (· < ·)) :
    ∀ (fuel qi x : Nat), qi + fuel = bn → (∀ y ∈ haveQ.drop x, qi ≤ y) → (∀ y ∈ haveQ.take x, y < qi) →
      ∀ q, q ∈ missingQinds.go bn haveQ fuel qi x ↔ (qi ≤ q ∧ q < bn ∧ q ∉ haveQ) := by
  intro fuel
  induction fuel with
  | zero =>
    intro qi x hq _ _ q
    simp only [missingQinds.go, List.not_mem_nil, false_iff]
    omega
  | succ fuel ih =>
    intro qi x hq hdrop htake q
    simp only [missingQinds.go]
    by_cases hx : haveQ.getD x bn = qi
    · simp only [hx, ↓reduceIte]
      have hxl : x < haveQ.length := by
        by_contra hc
        have : haveQ.getD x bn = bn := by
          simp [List.getD_eq_getElem?_getD, List.getElem?_eq_none (by omega : haveQ.length ≤ x)]
        omega
      have hxe : haveQ[x] = qi := by
        simpa [List.getD_eq_getElem?_getD, List.getElem?_eq_getElem hxl] using hx
      have hmem : qi ∈ haveQ := hxe ▸ List.getElem_mem hxl
      rw [ih (qi + 1) (x + 1) (by omega) ?_ ?_ q]
      · constructor
        · rintro ⟨h1, h2, h3⟩; exact ⟨by omega, h2, h3⟩
        · rintro ⟨h1, h2, h3⟩
          refine ⟨?_, h2, h3⟩
          by_contra hc
          have : q = qi := by omega
          exact h3 (this ▸ hmem)
      · -- everything after position x is > haveQ[x] = qi
        intro y hy
        obtain ⟨j, hj, rfl⟩ := List.mem_iff_getElem.mp hy
        simp only [List.getElem_drop]
        have := List.pairwise_iff_getElem.mp hs x (x + 1 + j) hxl (by simp at hj; omega) (by omega)
        omega
      · intro y hy
        rw [List.take_add_one, List.mem_append] at hy
        rcases hy with hy | hy
        · have := htake y hy; omega
        · simp only [List.getElem?_eq_getElem hxl, Option.toList_some, List.mem_singleton] at hy
          omega
    · simp only [hx, ↓reduceIte, List.mem_cons]
      have hnot : qi ∉ haveQ := by
        intro hm
        rw [← List.take_append_drop x haveQ, List.mem_append] at hm
        rcases hm with hm | hm
        · have := htake qi hm; omega
        · -- qi ∈ drop x: the head of drop x is ≥ qi and ≠ qi, everything later is larger
          obtain ⟨j, hj, hjq⟩ := List.mem_iff_getElem.mp hm
          simp only [List.getElem_drop] at hjq
          simp only [List.length_drop] at hj
          have hxl : x < haveQ.length := by omega
          have hhead : qi ≤ haveQ[x] := hdrop _ (by
            rw [List.mem_iff_getElem]; exact ⟨0, by simp; omega, by simp⟩)
          have hne : haveQ[x] ≠ qi := by
            intro h; apply hx
            simp [List.getD_eq_getElem?_getD, List.getElem?_eq_getElem hxl, h]
          rcases Nat.eq_zero_or_pos j with rfl | hjpos
          · simp at hjq; exact hne hjq
          · have := List.pairwise_iff_getElem.mp hs x (x + j) hxl (by omega) (by omega)
            omega
      rw [ih (qi + 1) x (by omega) ?_ ?_ q]
      · constructor
        · rintro (rfl | ⟨h1, h2, h3⟩)
          · exact ⟨le_refl _, by omega, hnot⟩
          · exact ⟨by omega, h2, h3⟩
        · rintro ⟨h1, h2, h3⟩
          by_cases hq' : q = qi
          · left; exact hq'
          · right; exact ⟨by omega, h2, h3⟩
      · intro y hy
        have h1 := hdrop y hy
        have : y ≠ qi := fun h => hnot (h ▸ List.mem_of_mem_drop hy)
        omega
      · intro y hy; have := htake y hy; omega

omit [StarRing α] [CommRing α] in
theorem missingQinds_spec (bn : Nat) (haveQ : List Nat) (hs : haveQ.Pairwise (· < ·)) (q : Nat) :
    q ∈ missingQinds bn haveQ ↔ (q < bn ∧ q ∉ haveQ) := by
  unfold missingQinds
  rw [missingQinds_go_spec bn haveQ hs bn 0 0 (by omega) (by intro y _; omega) (by simp) q]
  simp



omit [StarRing α] [CommRing α] in
theorem insertLE_perm (x : Nat) (l : List Nat) :
    (insertLE (fun a b => decide (a ≤ b)) x l).Perm (x :: l) := by
  induction l with
  | nil => exact List.Perm.refl _
  | cons y ys ih =>
    simp only [insertLE]
    split
    · exact List.Perm.refl _
    · exact (List.Perm.cons y ih).trans (List.Perm.swap x y ys)

omit [StarRing α] [CommRing α] in
theorem insertLE_sorted (x : Nat) (l : List Nat) (h : l.Pairwise (· ≤ ·)) :
    (insertLE (fun a b => decide (a ≤ b)) x l).Pairwise (· ≤ ·) := by
  induction l with
  | nil => simp [insertLE]
  | cons y ys ih =>
    have hp := List.pairwise_cons.mp h
    simp only [insertLE]
    split
    · rename_i hxy
      have hxy : x ≤ y := by simpa using hxy
      refine List.pairwise_cons.mpr ⟨?_, h⟩
      intro z hz
      rcases List.mem_cons.mp hz with rfl | hz
      · exact hxy
      · exact le_trans hxy (hp.1 z hz)
    · rename_i hxy
      have hyx : y ≤ x := by
        have : ¬ x ≤ y := by simpa using hxy
        omega
      refine List.pairwise_cons.mpr ⟨?_, ih hp.2⟩
      intro z hz
      have := (insertLE_perm x ys).mem_iff.mp hz
      rcases List.mem_cons.mp this with rfl | hz'
      · exact hyx
      · exact hp.1 z hz'

omit [StarRing α] [CommRing α] in
theorem stableSort_perm (l : List Nat) : (stableSort (fun a b => decide (a ≤ b)) l).Perm l := by
  induction l with
  | nil => exact List.Perm.refl _
  | cons x xs ih => exact (insertLE_perm x _).trans (List.Perm.cons x ih)

omit [StarRing α] [CommRing α] in
theorem stableSort_sorted (l : List Nat) : (stableSort (fun a b => decide (a ≤ b)) l).Pairwise (· ≤ ·) := by
  induction l with
  | nil => simp [stableSort]
  | cons x xs ih => exact insertLE_sorted x _ ih

omit [StarRing α] [CommRing α] in
theorem stableSort_strict (l : List Nat) (h : l.Nodup) :
    (stableSort (fun a b => decide (a ≤ b)) l).Pairwise (· < ·) := by
  have hs := stableSort_sorted l
  have hn : (stableSort (fun a b => decide (a ≤ b)) l).Nodup := (stableSort_perm l).nodup_iff.mpr h
  exact (List.Pairwise.and hs hn).imp (fun ⟨h1, h2⟩ => lt_of_le_of_ne h1 h2)


end TenpyModel.C05
