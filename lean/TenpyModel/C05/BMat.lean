import TenpyModel.Core.Pipe
/-
C05 model, part 1 (import-free apart from the Core leg/pipe model): charge-blocked matrices.

`BMat α` is the rank-2 case of `tenpy.linalg.np_conserved.Array`: two legs (Core `Leg`, for a `LegPipe` its
outgoing `LegCharge` view), `qtotal`, and the list of stored blocks in storage order
(`_qdata[k] = (qi, qj)`, `_data[k]` = dense block, rows first).

`toDense` is the semantics (`Array.to_ndarray`); `asCompletelyBlocked`, `splitLegs` mirror
`Array.as_completely_blocked` (= `combine_legs([[ax]])` with one single-leg `LegPipe` per non-blocked leg,
`_combine_legs_worker`) and `Array.split_legs` / `_split_legs_worker` restricted to rank 2.
-/
namespace TenpyModel.C05
open TenpyModel.Core

/-- dense block: list of rows -/
abbrev Mat (α : Type) := List (List α)

namespace Mat
variable {α : Type}

def entry [Zero α] (m : Mat α) (r c : Nat) : α := (m.getD r []).getD c 0
def nrows (m : Mat α) : Nat := m.length
def ncols (m : Mat α) : Nat := (m.headD []).length
/-- `r × c` matrix from an entry function -/
def ofFn (r c : Nat) (f : Nat → Nat → α) : Mat α := (List.range r).map (fun i => (List.range c).map (f i))
def zeros [Zero α] (r c : Nat) : Mat α := ofFn r c (fun _ _ => 0)
def eye [Zero α] [One α] (n : Nat) : Mat α := ofFn n n (fun i j => if i = j then 1 else 0)
/-- transpose of an `r × c` matrix (`c` given: a matrix with zero rows has no recoverable width) -/
def transpose [Zero α] (m : Mat α) (c : Nat) : Mat α := ofFn c m.length (fun j i => m.entry i j)
/-- `m[r0:r1, c0:c1]` -/
def sub [Zero α] (m : Mat α) (r0 r1 c0 c1 : Nat) : Mat α := ofFn (r1 - r0) (c1 - c0) (fun i j => m.entry (r0 + i) (c0 + j))
/-- `z[r0:r0+b.rows, c0:c0+b.cols] = b` for a block of shape `br × bc` -/
def place [Zero α] (z : Mat α) (zr zc : Nat) (r0 c0 : Nat) (b : Mat α) (br bc : Nat) : Mat α :=
  ofFn zr zc (fun i j => if r0 ≤ i ∧ i < r0 + br ∧ c0 ≤ j ∧ j < c0 + bc then b.entry (i - r0) (j - c0) else z.entry i j)
/-- `m[:, idx]` -/
def takeCols [Zero α] (m : Mat α) (idx : List Nat) : Mat α := List.map (fun row => idx.map (fun j => row.getD j 0)) m
/-- `m[idx, :]` -/
def takeRows (m : Mat α) (idx : List Nat) : Mat α := idx.map (fun i => m.getD i [])
def map {β : Type} (f : α → β) (m : Mat α) : Mat β := List.map (List.map f) m
/-- plain matrix product of an `r × k` with a `k × c` matrix -/
def mul [Zero α] [Add α] [Mul α] (a : Mat α) (k : Nat) (b : Mat α) (c : Nat) : Mat α :=
  ofFn a.length c (fun i j => ((List.range k).map (fun x => a.entry i x * b.entry x j)).sum)
/-- `m * diag(s)` (`iscale_axis(s, axis=-1)`) -/
def scaleCols [Zero α] [Mul α] (m : Mat α) (s : List α) : Mat α :=
  List.map (fun row => List.zipWith (· * ·) row s) m
/-- `diag(s) * m` -/
def scaleRows [Mul α] (m : Mat α) (s : List α) : Mat α :=
  List.zipWith (fun x row => row.map (fun y => x * y)) s m
end Mat

structure Blk (α : Type) where
  qi : Nat
  qj : Nat
  m  : Mat α
deriving Repr, DecidableEq

structure BMat (α : Type) where
  leg0   : Leg
  leg1   : Leg
  qtotal : Charge
  blocks : List (Blk α)
deriving Repr, DecidableEq

/-- `(block, offset within block)` of a flat index, from the block sizes; indices past the end are mapped to
`(number of blocks, rest)` -/
def locate : List Nat → Nat → Nat × Nat
  | [], i => (0, i)
  | s :: ss, i => if i < s then (0, i) else let p := locate ss (i - s); (p.1 + 1, p.2)

namespace BMat
variable {α : Type}

def qdata (a : BMat α) : List (Nat × Nat) := a.blocks.map (fun b => (b.qi, b.qj))

/-- entry `(r, s)` of the charge block `(qi, qj)`: sum over the stored blocks with these qindices
(at most one in a valid array; `0` if the block is not stored) -/
def bentry [Zero α] [Add α] (a : BMat α) (qi r qj s : Nat) : α :=
  (a.blocks.map (fun b => if b.qi = qi ∧ b.qj = qj then b.m.entry r s else 0)).sum

/-- dense entry at flat indices -/
def dentry [Zero α] [Add α] (a : BMat α) (i j : Nat) : α :=
  let p := locate a.leg0.blockSizes i
  let q := locate a.leg1.blockSizes j
  a.bentry p.1 p.2 q.1 q.2

/-- `Array.to_ndarray` -/
def toDense [Zero α] [Add α] (a : BMat α) : Mat α := Mat.ofFn a.leg0.indLen a.leg1.indLen a.dentry

/-- charge of a block, `Array._get_block_charge`: `make_valid(Σ leg.get_charge(qi))` -/
def blockCharge (a : BMat α) (qi qj : Nat) : Charge :=
  makeValid a.leg0.mods (cadd (a.leg0.getCharge qi) (a.leg1.getCharge qj))

/-- the part of `Array.test_sanity` that matters here: qindices in range, block shapes as given by the legs,
charge rule for every stored block, `qtotal` valid -/
def sane (a : BMat α) : Bool :=
  a.leg0.sane && a.leg1.sane && a.leg0.mods == a.leg1.mods && checkValid a.leg0.mods a.qtotal
  && a.blocks.all (fun b =>
      decide (b.qi < a.leg0.blockNumber) && decide (b.qj < a.leg1.blockNumber)
      && b.m.length == a.leg0.blockSizes.getD b.qi 0
      && b.m.all (fun row => row.length == a.leg1.blockSizes.getD b.qj 0)
      && a.blockCharge b.qi b.qj == a.qtotal)

/-- `Array.transpose()` of a matrix -/
def transpose [Zero α] (a : BMat α) : BMat α :=
  { leg0 := a.leg1, leg1 := a.leg0, qtotal := a.qtotal,
    blocks := a.blocks.map (fun b => ⟨b.qj, b.qi, b.m.transpose (a.leg1.blockSizes.getD b.qj 0)⟩) }

end BMat

/-! ### `as_completely_blocked` -/

/-- a matrix whose legs may be single-leg pipes introduced by `as_completely_blocked` -/
structure Piped (α : Type) where
  pipe0 : Option Pipe
  pipe1 : Option Pipe
  mat   : BMat α
deriving Repr, DecidableEq

/-- per old block and axis: `(new qindex, start inside the new block)`; `p = none`: axis not combined -/
def combineAxis (p : Option Pipe) (q : Nat) : Nat × Nat :=
  match p with
  | none => (q, 0)
  | some p =>
    let row := p.qMap.getD (p.mapIncomingQind [q]) []
    (row.getD 2 0, row.getD 0 0)

/-- consecutive groups of equal keys -/
def groupRuns {β : Type} [DecidableEq β] {γ : Type} (key : γ → β) : List γ → List (List γ)
  | [] => []
  | x :: xs =>
    match groupRuns key xs with
    | [] => [[x]]
    | g :: gs => if (g.head?.map key) = some (key x) then (x :: g) :: gs else [x] :: g :: gs

/-- `combine_legs([[ax] for ax in enc], pipes)` of a matrix: `_combine_legs_worker` (the `stored_blocks == 1`
branch of `combine_legs` computes the same single block). -/
def combineSingle [Zero α] (a : BMat α) (p0 p1 : Option Pipe) : BMat α :=
  let l0 := match p0 with | some p => p.leg | none => a.leg0
  let l1 := match p1 with | some p => p.leg | none => a.leg1
  -- (new qi, new qj, start0, start1, old block)
  let rows := a.blocks.map (fun b =>
    let x := combineAxis p0 b.qi
    let y := combineAxis p1 b.qj
    (x.1, y.1, x.2, y.2, b))
  -- `np.lexsort(qdata.T)`: last column is the primary key, stable
  let perm := lexsort (rows.map (fun t => [(t.1 : Int), (t.2.1 : Int)]))
  let sorted := perm.filterMap (fun i => rows[i]?)
  let groups := groupRuns (fun t => (t.1, t.2.1)) sorted
  let blocks := groups.filterMap (fun g =>
    match g with
    | [] => none
    | t :: _ =>
      let zr := l0.blockSizes.getD t.1 0
      let zc := l1.blockSizes.getD t.2.1 0
      some ⟨t.1, t.2.1,
        g.foldl (fun z u =>
          let ob : Blk α := u.2.2.2.2
          z.place zr zc u.2.2.1 u.2.2.2.1 ob.m (a.leg0.blockSizes.getD ob.qi 0) (a.leg1.blockSizes.getD ob.qj 0))
          (Mat.zeros zr zc)⟩)
  { leg0 := l0, leg1 := l1, qtotal := a.qtotal, blocks := blocks }

/-- `Array.as_completely_blocked`: every leg that is not blocked by charge is wrapped into a single-leg
`LegPipe(qconj = leg.qconj)` (sorted and bunched). Returns the pipes (= `encapsulated_axes`). -/
def asCompletelyBlocked [Zero α] (a : BMat α) : Piped α :=
  let p0 := if a.leg0.isBlocked then none else some (Pipe.init [a.leg0] a.leg0.qconj true true)
  let p1 := if a.leg1.isBlocked then none else some (Pipe.init [a.leg1] a.leg1.qconj true true)
  if p0.isNone && p1.isNone then ⟨none, none, a⟩
  else ⟨p0, p1, combineSingle a p0 p1⟩

def pipedAxes (p : Piped α) : List Nat :=
  (if p.pipe0.isSome then [0] else []) ++ (if p.pipe1.isSome then [1] else [])

/-- rows of `pipe.q_map` belonging to outgoing block `q`: `(start, stop, incoming qindex)`;
`none` (axis not split) gives the whole block -/
def splitAxis (p : Option Pipe) (size : Nat) (q : Nat) : List (Nat × Nat × Nat) :=
  match p with
  | none => [(0, size, q)]
  | some p =>
    let b := p.qMapSlices.getD q 0
    let e := p.qMapSlices.getD (q + 1) 0
    (List.range (e - b)).map (fun t =>
      let row := p.qMap.getD (b + t) []
      (row.getD 0 0, row.getD 1 0, row.getD 3 0))

/-- `Array.split_legs(axes)` of a matrix whose split legs are single-leg pipes: `_split_legs_worker`
(new blocks in the order: old block, then C-order over the `q_map` rows of the split axes; nothing is dropped). -/
def splitLegs [Zero α] (x : BMat α) (p0 p1 : Option Pipe) : BMat α :=
  let l0 := match p0 with | some p => p.legs.headD x.leg0 | none => x.leg0
  let l1 := match p1 with | some p => p.legs.headD x.leg1 | none => x.leg1
  let blocks := x.blocks.flatMap (fun b =>
    let r0 := splitAxis p0 (x.leg0.blockSizes.getD b.qi 0) b.qi
    let r1 := splitAxis p1 (x.leg1.blockSizes.getD b.qj 0) b.qj
    r0.flatMap (fun u => r1.map (fun v => (⟨u.2.2, v.2.2, b.m.sub u.1 u.2.1 v.1 v.2.1⟩ : Blk α))))
  { leg0 := l0, leg1 := l1, qtotal := x.qtotal, blocks := blocks }

end TenpyModel.C05
