import TenpyModel.C07.ExtGlue
import TenpyModel.MPS.FormProofs
/-!
Lemmas for `ExtGlue.lean`: the loop of `convert_form` site by site equals the one-shot
`MPSM.convertForm` of the base model.
-/
namespace TenpyModel.C07Ext
open TenpyModel.MPS TenpyModel.MPS.MPSM

universe u
variable {α : Type u}

theorem validAll_length : ∀ (es : List FormEntry) (fs : List (Option Form)),
    validAll es = .ok fs → fs.length = es.length := by
  intro es
  induction es with
  | nil => intro fs h; simp [validAll] at h; subst h; rfl
  | cons e es ih =>
    intro fs h
    simp only [validAll] at h
    cases he : toValidForm e with
    | error err => simp [he] at h
    | ok f =>
      cases hes : validAll es with
      | error err => simp [he, hes] at h
      | ok fs' =>
        simp [he, hes] at h
        subst h
        simp [ih fs' hes]

theorem validAll_replicate (e : FormEntry) (f : Option Form) (h : toValidForm e = .ok f) (L : Nat) :
    validAll (List.replicate L e) = .ok (List.replicate L f) := by
  induction L with
  | zero => rfl
  | succ L ih => simp [List.replicate_succ, validAll, h, ih]

theorem validAll_replicate_err (e : FormEntry) (err : FormErr) (h : toValidForm e = .error err) (L : Nat) :
    validAll (List.replicate (L + 1) e) = .error err := by
  simp [List.replicate_succ, validAll, h]

section ring
variable [Zero α] [One α] [Add α] [Mul α]

omit [Zero α] [One α] [Add α] [Mul α] in
theorem siteIdx_nat (M : MPSM α) (k : Nat) (hk : k < M.L) : M.siteIdx (k : Int) = k := by
  have hL : M.L ≠ 0 := by omega
  unfold siteIdx siteIdx?
  simp only [hL, if_false]
  by_cases hf : M.finiteBC = true
  · have : (0 : Int) ≤ k ∧ (k : Int) < M.L := ⟨by omega, by omega⟩
    simp [hf, this]
  · simp only [hf]
    have : ((k : Int) % (M.L : Int)) = k := Int.emod_eq_of_lt (by omega) (by omega)
    simp [this]

/-- two MPS that agree on everything `get_B(k, …)` looks at -/
structure AgreeAt (M M' : MPSM α) (k : Nat) : Prop where
  L : M'.L = M.L
  bc : M'.bc = M.bc
  bond : M'.bond = M.bond
  site : M'.site k = M.site k

theorem getB_agree (M M' : MPSM α) (k : Nat) (hk : k < M.L) (h : AgreeAt M M' k)
    (nf : Option (Option Int × Option Int)) : M'.getB (k : Int) nf = M.getB (k : Int) nf := by
  have hk' : k < M'.L := by rw [h.L]; exact hk
  have hfin : M'.finiteBC = M.finiteBC := by simp [finiteBC, h.bc]
  have hs : ∀ j : Int, M'.siteIdx j = M.siteIdx j := by
    intro j; simp [siteIdx, siteIdx?, h.L, hfin]
  have hb : ∀ (j : Int) (b : Bool), M'.bondIdx j b = M.bondIdx j b := by
    intro j b; simp [bondIdx, hfin, hs]
  have e1 : M'.siteAt (k : Int) = M.siteAt (k : Int) := by
    simp only [siteAt, hs, siteIdx_nat M k hk, h.site]
  have e2 : M'.getSL (k : Int) = M.getSL (k : Int) := by simp [getSL, hb, h.bond]
  have e3 : M'.getSR (k : Int) = M.getSR (k : Int) := by simp [getSR, hb, h.bond]
  simp only [getB, formAt, e1, e2, e3]

/-- the site `convert_form` stores at position `k` for the requested form -/
def convSiteVal (M : MPSM α) (k : Nat) : Option Form → Site α
  | none => { M.site k with form := none }
  | some f => { M.site k with B := M.getB (k : Int) (some (some f.1, some f.2)), form := some f }

theorem convertSite_eq (M : MPSM α) (k : Nat) (hk : k < M.L) (nf : Option Form)
    (hok : ∀ f, nf = some f → (M.site k).form ≠ none) :
    ∃ M', convertSite M k nf = some M' ∧ M'.L = M.L ∧ M'.bc = M.bc ∧ M'.bond = M.bond ∧ M'.norm = M.norm ∧
      ∀ j, M'.site j = if j = k then convSiteVal M k nf else M.site j := by
  cases nf with
  | none =>
    refine ⟨_, rfl, rfl, rfl, rfl, rfl, fun j => ?_⟩
    by_cases hj : j = k <;> simp [hj, convSiteVal]
  | some f =>
    have hne := hok f rfl
    simp only [convertSite]
    by_cases hsame : (M.site k).form = some f
    · refine ⟨M, by simp [hsame], rfl, rfl, rfl, rfl, fun j => ?_⟩
      by_cases hj : j = k
      · subst hj
        simp only [if_true, convSiteVal]
        have hB : M.getB (j : Int) (some (some f.1, some f.2)) = (M.site j).B := by
          simp [getB, formAt, siteAt, siteIdx_nat M j hk, hsame, scaleL, scaleR]
        rw [hB, ← hsame]
      · simp [hj]
    · have hnn : (M.site k).form.isNone = false := by
        cases hf : (M.site k).form with
        | none => exact absurd hf hne
        | some _ => rfl
      refine ⟨{ M with site := fun j => if j = k then
          { M.site k with B := M.getB (k : Int) (some (some f.1, some f.2)), form := some f } else M.site j },
        by simp [hsame, hnn], rfl, rfl, rfl, rfl, fun j => ?_⟩
      by_cases hj : j = k <;> simp [hj, convSiteVal]

/-- **the loop of `convert_form`**: if no site raises, sites `i … i+len-1` are replaced by the
converted ones (each computed from the ORIGINAL tensors — earlier conversions do not interfere),
everything else is untouched. -/
theorem convertLoop_spec : ∀ (fs : List (Option Form)) (M : MPSM α) (i : Nat),
    i + fs.length ≤ M.L →
    (∀ j (hj : j < fs.length), ∀ f, fs[j] = some f → (M.site (i + j)).form ≠ none) →
    (convertLoop M i fs).2 = none ∧ (convertLoop M i fs).1.L = M.L ∧ (convertLoop M i fs).1.bc = M.bc ∧
      (convertLoop M i fs).1.bond = M.bond ∧ (convertLoop M i fs).1.norm = M.norm ∧
      ∀ k, (convertLoop M i fs).1.site k
        = if h : i ≤ k ∧ k < i + fs.length then convSiteVal M k (fs[k - i]'(by omega)) else M.site k := by
  intro fs
  induction fs with
  | nil => intro M i _ _; simp [convertLoop]
  | cons nf rest ih =>
    intro M i hlen hok
    have hi : i < M.L := by simp at hlen; omega
    obtain ⟨M', hM', hL, hbc, hbond, hnorm, hsite⟩ :=
      convertSite_eq M i hi nf (fun f hf => by simpa using hok 0 (by simp) f (by simpa using hf))
    simp only [convertLoop, hM']
    have hlen' : (i + 1) + rest.length ≤ M'.L := by rw [hL]; simp at hlen; omega
    obtain ⟨r1, r2, r3, r4, r5, r6⟩ := ih M' (i + 1) hlen' (fun j hj f hf => by
      have := hok (j + 1) (by simp; omega) f (by simpa using hf)
      rw [hsite]
      have hne : i + 1 + j ≠ i := by omega
      simp only [hne, if_false]
      have e : i + (j + 1) = i + 1 + j := by omega
      rwa [e] at this)
    refine ⟨r1, r2.trans hL, r3.trans hbc, r4.trans hbond, r5.trans hnorm, fun k => ?_⟩
    rw [r6 k]
    by_cases hk1 : i + 1 ≤ k ∧ k < i + 1 + rest.length
    · have hk : i ≤ k ∧ k < i + (nf :: rest).length := by simp; omega
      rw [dif_pos hk1, dif_pos hk]
      have hki : k ≠ i := by omega
      have hidx : (nf :: rest)[k - i]'(by simp; omega) = rest[k - (i + 1)]'(by omega) := by
        have e : k - i = (k - (i + 1)) + 1 := by omega
        simp [e]
      rw [hidx]
      have hkL : k < M.L := by simp at hlen; omega
      have hag : AgreeAt M M' k := ⟨hL, hbc, hbond, by rw [hsite]; simp [hki]⟩
      cases hr : rest[k - (i + 1)]'(by omega) with
      | none => simp only [convSiteVal, hag.site]
      | some f =>
        simp only [convSiteVal, hag.site]
        rw [getB_agree M M' k hkL hag]
    · rw [dif_neg hk1, hsite]
      by_cases hki : k = i
      · subst hki
        have hk : k ≤ k ∧ k < k + (nf :: rest).length := by simp
        rw [dif_pos hk]
        simp
      · have hk : ¬ (i ≤ k ∧ k < i + (nf :: rest).length) := by simp; omega
        rw [dif_neg hk]
        simp [hki]

theorem MPSM_ext (A B : MPSM α) (h1 : A.L = B.L) (h2 : ∀ k, A.site k = B.site k) (h3 : A.bond = B.bond)
    (h4 : A.norm = B.norm) (h5 : A.bc = B.bc) : A = B := by
  obtain ⟨L1, s1, b1, n1, c1⟩ := A
  obtain ⟨L2, s2, b2, n2, c2⟩ := B
  simp only at h1 h2 h3 h4 h5
  have hs : s1 = s2 := funext h2
  subst h1 h3 h4 h5 hs
  rfl


theorem thetaGuard_go_ok (M : MPSM α) (js : List Int)
    (h : ∀ j ∈ js, ∃ k, M.siteIdx? j = some k ∧ (M.site k).form ≠ none) :
    thetaGuard.go M js = none := by
  induction js with
  | nil => rfl
  | cons j rest ih =>
    obtain ⟨k, hk, hf⟩ := h j (by simp)
    simp only [thetaGuard.go, hk]
    have : (M.site k).form.isNone = false := by
      cases hx : (M.site k).form with
      | none => exact absurd hx hf
      | some _ => rfl
    simp only [this, Bool.false_eq_true, if_false]
    exact ih (fun j' hj' => h j' (by simp [hj']))


end ring
end TenpyModel.C07Ext
