import TenpyModel.C07.ExtCharge
import TenpyModel.MPS.Lemmas
import Mathlib.Tactic.Abel
/-!
Lemmas for the charge bookkeeping model (`ExtCharge.lean`): congruence modulo `make_valid`,
the charge of a gauged leg, the loop of `MPS.gauge_total_charge`.
-/
namespace TenpyModel.C07Ext
open TenpyModel.MPS

universe u v
variable {G : Type v} {α : Type u} [AddCommGroup G]

/-- what the model needs of `ChargeInfo.make_valid` (true of component-wise `mod`, `x % 1 := x`) and
of `np.any(x != 0)` -/
structure Lawful (ci : ChInfo G) : Prop where
  add : ∀ x y, ci.mv (x + ci.mv y) = ci.mv (x + y)
  neg : ∀ y, ci.mv (-(ci.mv y)) = ci.mv (-y)
  zero : ∀ x, ci.isZero x = true ↔ x = 0

/-- congruence modulo `make_valid` -/
def Cg (ci : ChInfo G) (x y : G) : Prop := ci.mv x = ci.mv y

variable {ci : ChInfo G}

omit [AddCommGroup G] in
theorem Cg.rfl' (x : G) : Cg ci x x := rfl
omit [AddCommGroup G] in
theorem Cg.symm' {x y : G} (h : Cg ci x y) : Cg ci y x := Eq.symm h
omit [AddCommGroup G] in
theorem Cg.trans' {x y z : G} (h1 : Cg ci x y) (h2 : Cg ci y z) : Cg ci x z := Eq.trans h1 h2

theorem cg_mv (h : Lawful ci) (x : G) : Cg ci (ci.mv x) x := by
  have := h.add 0 x
  simpa [Cg] using this

theorem cg_add_right (h : Lawful ci) {x x' : G} (y : G) (hx : Cg ci x x') : Cg ci (x + y) (x' + y) := by
  unfold Cg at *
  rw [add_comm x y, add_comm x' y, ← h.add y x, ← h.add y x', hx]

theorem cg_add (h : Lawful ci) {x x' y y' : G} (hx : Cg ci x x') (hy : Cg ci y y') :
    Cg ci (x + y) (x' + y') := by
  have h1 := cg_add_right h y hx
  have h2 := cg_add_right h x' hy
  rw [add_comm y x', add_comm y' x'] at h2
  exact h1.trans h2

theorem cg_neg (h : Lawful ci) {x x' : G} (hx : Cg ci x x') : Cg ci (-x) (-x') := by
  unfold Cg at *
  rw [← h.neg x, ← h.neg x', hx]

theorem sgn_sgn (p : Bool) (x : G) : sgn p (sgn p x) = x := by cases p <;> simp [sgn]
theorem sgn_add (p : Bool) (x y : G) : sgn p (x + y) = sgn p x + sgn p y := by
  cases p <;> simp [sgn]; abel
theorem sgn_not (p : Bool) (x : G) : sgn (!p) x = -(sgn p x) := by cases p <;> simp [sgn]

theorem cg_sgn (h : Lawful ci) (p : Bool) {x x' : G} (hx : Cg ci x x') : Cg ci (sgn p x) (sgn p x') := by
  cases p
  · simpa [sgn] using cg_neg h hx
  · simpa [sgn] using hx

/-- the effective charge of a gauged leg is the old one plus the change of `qtotal` -/
theorem gaugeLeg_charge (h : Lawful ci) (l : VLeg G) (cd : G) (newPos : Bool) (a : Nat) :
    Cg ci ((gaugeLeg ci l cd newPos).charge a) (l.charge a + cd) := by
  simp only [gaugeLeg, VLeg.charge]
  by_cases hp : l.pos = newPos
  · subst hp
    simp only [beq_self_eq_true, if_true]
    refine (cg_sgn h l.pos (cg_mv h _)).trans' ?_
    rw [sgn_add, sgn_sgn]
    exact Cg.rfl' _
  · have hnp : newPos = !l.pos := by cases hl : l.pos <;> cases hn : newPos <;> simp_all
    have hbeq : (l.pos == newPos) = false := by cases hl : l.pos <;> cases hn : newPos <;> simp_all
    simp only [hbeq]
    refine (cg_sgn h newPos (cg_mv h _)).trans' ?_
    rw [hnp, sgn_not]
    have : -(sgn l.pos (-(l.q a + sgn l.pos cd))) = sgn l.pos (l.q a) + cd := by
      have e : sgn l.pos (-(l.q a + sgn l.pos cd)) = -(sgn l.pos (l.q a + sgn l.pos cd)) := by
        cases l.pos <;> simp [sgn]
      rw [e, sgn_add, sgn_sgn]; abel
    simp only [Bool.false_eq_true, if_false]
    rw [this]
    exact Cg.rfl' _

/-! ### the charge rule and what it says about the support of the state -/

/-- charge rule of one tensor: a non-zero entry sits in a block whose leg charges add up to
`qtotal` (what `Array.test_sanity` guarantees). -/
def RuleP (ci : ChInfo G) [Zero α] (s : QSite G α) : Prop :=
  ∀ a p b, a < s.vL.dim → p < s.d → b < s.vR.dim → s.M a p b ≠ 0 →
    Cg ci (s.vL.charge a + s.qp p + s.vR.charge b) s.qtot

/-- `vR` of `s` is contractible with `vL` of `t` (`test_contractible`) -/
def Compat (ci : ChInfo G) (s t : QSite G α) : Prop :=
  s.vR.dim = t.vL.dim ∧ ∀ b, b < s.vR.dim → Cg ci (s.vR.charge b + t.vL.charge b) 0

def QChainOK (ci : ChInfo G) : List (QSite G α) → Prop
  | [] => True
  | [_] => True
  | s :: t :: rest => Compat ci s t ∧ QChainOK ci (t :: rest)

/-- configuration inside the physical dimensions -/
def CfgOK : List (QSite G α) → List Nat → Prop
  | [], [] => True
  | s :: ss, p :: ps => p < s.d ∧ CfgOK ss ps
  | _, _ => False

/-- sum of the physical charges of a configuration -/
def physCharge : List (QSite G α) → List Nat → G
  | s :: ss, p :: ps => s.qp p + physCharge ss ps
  | _, _ => 0

section semiring
variable [CommSemiring α]

theorem sumN_ne_zero {n : Nat} {f : Nat → α} (h : sumN n f ≠ 0) : ∃ i, i < n ∧ f i ≠ 0 := by
  by_contra hne
  apply h
  exact sumN_eq_zero (fun i hi => by
    by_contra hf
    exact hne ⟨i, hi, hf⟩)

omit [CommSemiring α] in
theorem lastVR_dim (s : QSite G α) (ss : List (QSite G α)) (h : QChainOK ci (s :: ss)) :
    ChainOK s.vL.dim ((s :: ss).map QSite.toRSite) := by
  induction ss generalizing s with
  | nil => exact ⟨rfl, trivial⟩
  | cons t ts ih =>
    refine ⟨rfl, ?_⟩
    have := ih t h.2
    simp only [List.map_cons, QSite.toRSite] at this ⊢
    rw [h.1.1]
    exact this

/-- **a non-vanishing amplitude fixes the charges**: along a chain of tensors obeying the charge
rule with contractible bonds, `contract v … σ b ≠ 0` forces, for some entry `a` of the start vector,
`q_vL(a) + Σ_i q_p(σ_i) + q_vR(b) ≡ Σ_i qtotal_i`. -/
theorem support_charge (h : Lawful ci) (s : QSite G α) (ss : List (QSite G α)) :
    ∀ (v : Vec α) (σ : List Nat) (b : Nat),
      (∀ x ∈ s :: ss, RuleP ci x) → QChainOK ci (s :: ss) → CfgOK (s :: ss) σ →
      b < ((s :: ss).getLast (by simp)).vR.dim →
      contract v ((s :: ss).map QSite.toRSite) σ b ≠ 0 →
      ∃ a, a < s.vL.dim ∧ v a ≠ 0 ∧
        Cg ci (s.vL.charge a + physCharge (s :: ss) σ + ((s :: ss).getLast (by simp)).vR.charge b)
          (sumG ((s :: ss).map (·.qtot))) := by
  induction ss generalizing s with
  | nil =>
    intro v σ b hr _ hcfg hb hne
    cases σ with
    | nil => simp [CfgOK] at hcfg
    | cons p ps =>
      cases ps with
      | cons _ _ => simp [CfgOK] at hcfg
      | nil =>
        simp only [List.map_cons, List.map_nil, contract, vstep, QSite.toRSite] at hne
        obtain ⟨a, ha, hterm⟩ := sumN_ne_zero hne
        have hv : v a ≠ 0 := left_ne_zero_of_mul hterm
        have hM : s.M a p b ≠ 0 := right_ne_zero_of_mul hterm
        refine ⟨a, ha, hv, ?_⟩
        have := hr s (by simp) a p b ha hcfg.1 (by simpa using hb) hM
        simp only [physCharge, List.getLast_singleton, List.map_cons, List.map_nil, sumG]
        unfold Cg at *
        convert this using 2 <;> abel
  | cons t ts ih =>
    intro v σ b hr hc hcfg hb hne
    cases σ with
    | nil => simp [CfgOK] at hcfg
    | cons p ps =>
      have hlast : (s :: t :: ts).getLast (by simp) = (t :: ts).getLast (by simp) := by
        simp [List.getLast_cons]
      simp only [List.map_cons, contract] at hne
      obtain ⟨a', ha', hv', hcg⟩ := ih t (vstep v s.toRSite p) ps b
        (fun x hx => hr x (by simp [hx])) hc.2 hcfg.2 (by simpa [hlast] using hb)
        (by simpa using hne)
      simp only [vstep, QSite.toRSite] at hv'
      obtain ⟨a, ha, hterm⟩ := sumN_ne_zero hv'
      have hv : v a ≠ 0 := left_ne_zero_of_mul hterm
      have hM : s.M a p a' ≠ 0 := right_ne_zero_of_mul hterm
      have ha'' : a' < s.vR.dim := by rw [hc.1.1]; exact ha'
      refine ⟨a, ha, hv, ?_⟩
      have h1 := hr s (by simp) a p a' ha hcfg.1 ha'' hM
      have h2 := hc.1.2 a' ha''
      have := cg_add h (cg_add h h1 hcg) (cg_neg h h2)
      simp only [physCharge, List.map_cons, sumG, hlast] at this ⊢
      unfold Cg at *
      convert this using 2 <;> abel

end semiring

/-! ### the loop of `gauge_total_charge` -/

theorem gaugeLoop_some (c : G) (s : QSite G α) (rest : List (QSite G α)) (ds : List G) :
    gaugeLoop ci (some c) (s :: rest) ds
      = gaugeLoop ci none (s.gaugeL ci (s.qtot + c) s.vL.pos :: rest) ds := by
  simp [gaugeLoop, QSite.gaugeL, gaugeLeg]

/-- the entries and dimensions of a tensor are untouched -/
def SameData (s t : QSite G α) : Prop :=
  t.M = s.M ∧ t.d = s.d ∧ t.qp = s.qp ∧ t.vL.dim = s.vL.dim ∧ t.vR.dim = s.vR.dim

theorem sameData_gaugeL (s : QSite G α) (q : G) (p : Bool) : SameData s (s.gaugeL ci q p) :=
  ⟨rfl, rfl, rfl, rfl, rfl⟩
theorem sameData_gaugeR (s : QSite G α) (q : G) : SameData s (s.gaugeR ci q) :=
  ⟨rfl, rfl, rfl, rfl, rfl⟩

theorem rule_gaugeR [Zero α] (h : Lawful ci) (s : QSite G α) (q : G) (hr : RuleP ci s) :
    RuleP ci (s.gaugeR ci q) := by
  intro a p b ha hp hb hM
  have h0 := hr a p b ha hp hb hM
  have h1 := gaugeLeg_charge h s.vR (ci.mv q + -s.qtot) s.vR.pos b
  have := cg_add h h0 (Cg.rfl' (ci := ci) (ci.mv q + -s.qtot))
  have h2 := cg_add h (Cg.rfl' (ci := ci) (s.vL.charge a + s.qp p)) h1
  simp only [QSite.gaugeR]
  unfold Cg at *
  rw [h2]
  convert this using 2 <;> abel

theorem rule_gaugeL [Zero α] (h : Lawful ci) (s : QSite G α) (q : G) (np : Bool) (hr : RuleP ci s) :
    RuleP ci (s.gaugeL ci q np) := by
  intro a p b ha hp hb hM
  have h0 := hr a p b ha hp hb hM
  have h1 := gaugeLeg_charge h s.vL (ci.mv q + -s.qtot) np a
  have := cg_add h h0 (Cg.rfl' (ci := ci) (ci.mv q + -s.qtot))
  have h2 := cg_add h h1 (Cg.rfl' (ci := ci) (s.qp p + s.vR.charge b))
  simp only [QSite.gaugeL]
  unfold Cg at *
  have e : (gaugeLeg ci s.vL (ci.mv q + -s.qtot) np).charge a + s.qp p + s.vR.charge b
      = (gaugeLeg ci s.vL (ci.mv q + -s.qtot) np).charge a + (s.qp p + s.vR.charge b) := by abel
  rw [e, h2]
  convert this using 2 <;> abel

/-- what the loop guarantees, for a non-empty chain and no pending change -/
structure LoopSpec [Zero α] (ci : ChInfo G) (s : QSite G α) (rest : List (QSite G α)) (ds : List G)
    (out : List (QSite G α)) : Prop where
  same : List.Forall₂ SameData (s :: rest) out
  rule : ∀ x ∈ out, RuleP ci x
  chain : QChainOK ci out
  qtot : List.Forall₂ (fun o d => Cg ci o.qtot d) out ds
  headL : ∀ o ∈ out.head?, o.vL = s.vL
  phys : ∀ o ∈ out.getLast?, ∀ b,
    Cg ci (sumG (out.map (·.qtot)) + -(o.vR.charge b))
      (sumG ((s :: rest).map (·.qtot)) + -(((s :: rest).getLast (by simp)).vR.charge b))

theorem gaugeLoop_spec [Zero α] (h : Lawful ci) (rest : List (QSite G α)) :
    ∀ (s : QSite G α) (ds : List G), ds.length = rest.length + 1 →
      (∀ x ∈ s :: rest, RuleP ci x) → QChainOK ci (s :: rest) →
      LoopSpec ci s rest ds (gaugeLoop ci none (s :: rest) ds) := by
  induction rest with
  | nil =>
    intro s ds hlen hr _
    obtain ⟨d, rfl⟩ : ∃ d, ds = [d] := by
      cases ds with
      | nil => simp at hlen
      | cons d ds' =>
        cases ds' with
        | nil => exact ⟨d, rfl⟩
        | cons _ _ => simp at hlen
    by_cases hz : ci.isZero (s.qtot + -d) = true
    · have hq : s.qtot = d := by
        have := (h.zero _).mp hz
        have e : s.qtot = (s.qtot + -d) + d := by abel
        rw [e, this]; simp
      have hout : gaugeLoop ci none [s] [d] = [s] := by simp [gaugeLoop, hz]
      rw [hout]
      exact ⟨List.Forall₂.cons ⟨rfl, rfl, rfl, rfl, rfl⟩ List.Forall₂.nil, hr, trivial,
        List.Forall₂.cons (by rw [hq]; exact Cg.rfl' _) List.Forall₂.nil,
        by intro o ho; simp at ho; subst ho; rfl,
        by intro o ho b; simp at ho; subst ho; exact Cg.rfl' _⟩
    · have hz' : ci.isZero (s.qtot + -d) = false := by simpa using hz
      have hout : gaugeLoop ci none [s] [d] = [s.gaugeR ci d] := by simp [gaugeLoop, hz']
      rw [hout]
      refine ⟨List.Forall₂.cons (sameData_gaugeR s d) List.Forall₂.nil, ?_, trivial,
        List.Forall₂.cons (cg_mv h d) List.Forall₂.nil, by intro o ho; simp at ho; subst ho; rfl, ?_⟩
      · intro x hx; simp at hx; subst hx; exact rule_gaugeR h s d (hr s (by simp))
      · intro o ho b
        simp at ho; subst ho
        have h1 := gaugeLeg_charge h s.vR (ci.mv d + -s.qtot) s.vR.pos b
        have := cg_add h (Cg.rfl' (ci := ci) (ci.mv d)) (cg_neg h h1)
        simp only [List.map_cons, List.map_nil, sumG, QSite.gaugeR, List.getLast_singleton]
        unfold Cg at *
        convert this using 2 <;> abel
  | cons t ts ih =>
    intro s ds hlen hr hc
    obtain ⟨d, ds', rfl⟩ : ∃ d ds', ds = d :: ds' := by
      cases ds with
      | nil => simp at hlen
      | cons d ds' => exact ⟨d, ds', rfl⟩
    have hlen' : ds'.length = ts.length + 1 := by simpa using hlen
    have hlast : (s :: t :: ts).getLast (by simp) = (t :: ts).getLast (by simp) := by
      simp [List.getLast_cons]
    by_cases hz : ci.isZero (s.qtot + -d) = true
    · have hq : s.qtot = d := by
        have := (h.zero _).mp hz
        have e : s.qtot = (s.qtot + -d) + d := by abel
        rw [e, this]; simp
      have hout : gaugeLoop ci none (s :: t :: ts) (d :: ds')
          = s :: gaugeLoop ci none (t :: ts) ds' := by
        simp [gaugeLoop, hz]
      have sp := ih t ds' hlen' (fun x hx => hr x (by simp [hx])) hc.2
      rw [hout]
      generalize hO : gaugeLoop ci none (t :: ts) ds' = out at sp
      cases out with
      | nil => cases sp.same
      | cons o os =>
        have ho : o.vL = t.vL := sp.headL o (by simp)
        refine ⟨List.Forall₂.cons ⟨rfl, rfl, rfl, rfl, rfl⟩ sp.same, ?_, ?_,
          List.Forall₂.cons (by rw [hq]; exact Cg.rfl' _) sp.qtot,
          by intro o' ho'; simp at ho'; subst ho'; rfl, ?_⟩
        · intro x hx
          rcases List.mem_cons.mp hx with rfl | hx'
          · exact hr _ (by simp)
          · exact sp.rule x hx'
        · refine ⟨?_, sp.chain⟩
          simp only [Compat, VLeg.charge, ho]
          exact hc.1
        · intro o' ho' b
          have ho'' : o' ∈ (o :: os).getLast? := by simpa [List.getLast?_cons_cons] using ho'
          have := cg_add h (Cg.rfl' (ci := ci) s.qtot) (sp.phys o' ho'' b)
          simp only [List.map_cons, sumG, hlast] at this ⊢
          unfold Cg at *
          convert this using 2 <;> abel
    · have hz' : ci.isZero (s.qtot + -d) = false := by simpa using hz
      have hout : gaugeLoop ci none (s :: t :: ts) (d :: ds')
          = s.gaugeR ci d :: gaugeLoop ci none (t.gaugeL ci (t.qtot + (s.qtot + -d)) t.vL.pos :: ts) ds' := by
        rw [← gaugeLoop_some]
        simp [gaugeLoop, hz']
      set t' := t.gaugeL ci (t.qtot + (s.qtot + -d)) t.vL.pos with ht'
      have hct : QChainOK ci (t' :: ts) := by
        cases ts with
        | nil => trivial
        | cons w ws => exact ⟨hc.2.1, hc.2.2⟩
      have sp := ih t' ds' hlen'
        (fun x hx => by
          rcases List.mem_cons.mp hx with rfl | hx'
          · exact rule_gaugeL h t _ _ (hr t (by simp))
          · exact hr x (by simp [hx'])) hct
      rw [hout]
      generalize hO : gaugeLoop ci none (t' :: ts) ds' = out at sp
      cases out with
      | nil => cases sp.same
      | cons o os =>
        have ho : o.vL = t'.vL := sp.headL o (by simp)
        have hsame : List.Forall₂ SameData (t :: ts) (o :: os) := by
          cases sp.same with
          | cons h1 h2 =>
            refine List.Forall₂.cons ?_ h2
            obtain ⟨a1, a2, a3, a4, a5⟩ := h1
            exact ⟨a1, a2, a3, a4, a5⟩
        refine ⟨List.Forall₂.cons (sameData_gaugeR s d) hsame, ?_, ?_,
          List.Forall₂.cons (cg_mv h d) sp.qtot, by intro o' ho'; simp at ho'; subst ho'; rfl, ?_⟩
        · intro x hx
          rcases List.mem_cons.mp hx with rfl | hx'
          · exact rule_gaugeR h s d (hr s (by simp))
          · exact sp.rule x hx'
        · refine ⟨⟨by rw [ho]; exact hc.1.1, fun b hb => ?_⟩, sp.chain⟩
          have hb' : b < s.vR.dim := hb
          have h1 := gaugeLeg_charge h s.vR (ci.mv d + -s.qtot) s.vR.pos b
          have h2 := gaugeLeg_charge h t.vL (ci.mv (t.qtot + (s.qtot + -d)) + -t.qtot) t.vL.pos b
          have h3 := hc.1.2 b hb'
          have h4 : Cg ci (ci.mv d + -s.qtot + (ci.mv (t.qtot + (s.qtot + -d)) + -t.qtot)) 0 := by
            have a1 := cg_mv h d
            have a2 := cg_mv h (t.qtot + (s.qtot + -d))
            have := cg_add h (cg_add h a1 (Cg.rfl' (ci := ci) (-s.qtot))) (cg_add h a2 (Cg.rfl' (ci := ci) (-t.qtot)))
            unfold Cg at *
            rw [this]; congr 1; abel
          have := cg_add h (cg_add h h1 h2) (Cg.rfl' (ci := ci) (0 : G))
          have h5 := cg_add h h3 h4
          simp only [QSite.gaugeR, ho, ht', QSite.gaugeL]
          unfold Cg at *
          calc ci.mv ((gaugeLeg ci s.vR (ci.mv d + -s.qtot) s.vR.pos).charge b
                + (gaugeLeg ci t.vL (ci.mv (t.qtot + (s.qtot + -d)) + -t.qtot) t.vL.pos).charge b)
              = ci.mv ((gaugeLeg ci s.vR (ci.mv d + -s.qtot) s.vR.pos).charge b
                + (gaugeLeg ci t.vL (ci.mv (t.qtot + (s.qtot + -d)) + -t.qtot) t.vL.pos).charge b + 0) := by
                rw [add_zero]
            _ = ci.mv (s.vR.charge b + (ci.mv d + -s.qtot)
                + (t.vL.charge b + (ci.mv (t.qtot + (s.qtot + -d)) + -t.qtot)) + 0) := this
            _ = ci.mv (s.vR.charge b + t.vL.charge b
                + (ci.mv d + -s.qtot + (ci.mv (t.qtot + (s.qtot + -d)) + -t.qtot))) := by congr 1; abel
            _ = ci.mv (0 + 0) := h5
            _ = ci.mv 0 := by rw [add_zero]
        · intro o' ho' b
          have ho'' : o' ∈ (o :: os).getLast? := by simpa [List.getLast?_cons_cons] using ho'
          have hp := sp.phys o' ho'' b
          have hlast' : (t' :: ts).getLast (by simp) = (if ts = [] then t' else (t :: ts).getLast (by simp)) := by
            cases ts with
            | nil => simp
            | cons w ws => simp [List.getLast_cons]
          have hvR : ((t' :: ts).getLast (by simp)).vR = ((t :: ts).getLast (by simp)).vR := by
            cases ts with
            | nil => simp [ht', QSite.gaugeL]
            | cons w ws => simp [List.getLast_cons]
          have a1 := cg_mv h d
          have a2 := cg_mv h (t.qtot + (s.qtot + -d))
          have := cg_add h (cg_add h a1 hp) (Cg.rfl' (ci := ci) (0 : G))
          have hq' : t'.qtot = ci.mv (t.qtot + (s.qtot + -d)) := rfl
          simp only [List.map_cons, sumG, hlast, QSite.gaugeR, VLeg.charge, hvR, hq'] at this ⊢
          have fin := cg_add h (cg_add h (Cg.rfl' (ci := ci) d) a2)
            (Cg.rfl' (ci := ci) (sumG (ts.map (·.qtot)) + -(sgn ((t :: ts).getLast (by simp)).vR.pos
              (((t :: ts).getLast (by simp)).vR.q b))))
          unfold Cg at *
          calc ci.mv (ci.mv d + sumG (List.map (fun x => x.qtot) (o :: os)) + -(sgn o'.vR.pos (o'.vR.q b)))
              = ci.mv (ci.mv d + (sumG (List.map (fun x => x.qtot) (o :: os)) + -(sgn o'.vR.pos (o'.vR.q b))) + 0) := by
                congr 1; abel
            _ = _ := this
            _ = ci.mv (d + ci.mv (t.qtot + (s.qtot + -d)) + (sumG (ts.map (·.qtot))
                  + -(sgn ((t :: ts).getLast (by simp)).vR.pos (((t :: ts).getLast (by simp)).vR.q b)))) := by
                congr 1; abel
            _ = _ := fin
            _ = _ := by congr 1; abel

theorem sumG_cong (h : Lawful ci) {β : Type*} (f : β → G) (out : List β) (ds : List G)
    (hq : List.Forall₂ (fun o d => Cg ci (f o) d) out ds) : Cg ci (sumG (out.map f)) (sumG ds) := by
  induction hq with
  | nil => exact Cg.rfl' _
  | cons h1 _ ih => simp only [List.map_cons, sumG]; exact cg_add h h1 ih


end TenpyModel.C07Ext
