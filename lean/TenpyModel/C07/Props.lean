import TenpyModel.MPS.CtorProofs
import TenpyModel.MPS.GaugeProofs
/-!
# C07 — an MPS always denotes the state it was built from

Property theorems (root namespace) over the executable model `TenpyModel/MPS/{Scalar,Chain,Basic}.lean`
of `tenpy/networks/mps.py`.  All statements hold for every chain length, all physical and bond
dimensions, over every commutative semiring `α` (ℚ, ℚ[i], ℝ, ℂ, …).  Exponents of singular values
are in half units (`'B' = (0, 2)`), the table is regenerated from `MPS._valid_forms`.
-/
open TenpyModel.MPS TenpyModel.MPS.MPSM

universe u
variable {α : Type u} [CommSemiring α]

/-- The form table of the source (`MPS._valid_forms`, regenerated on every run) is the one the
model and the theorems below are about: `A = (1,0)`, `B = (0,1)`, `C = (½,½)`, `G = (0,0)`,
`Th = (1,1)`, `None ↦ None`; the three canonical forms put exactly one `S` on a site. -/
theorem C07_forms_table :
    formOf "A" = some (2, 0) ∧ formOf "B" = some (0, 2) ∧ formOf "C" = some (1, 1) ∧
    formOf "G" = some (0, 0) ∧ formOf "Th" = some (2, 2) ∧ formOf "None" = none ∧
    (∀ n ∈ ["A", "B", "C"], ∀ f, formOf n = some f → f.1 + f.2 = 2) := by
  decide

/-- **`from_product_state`**: the amplitude of basis configuration `σ` is the product of the local
amplitudes (Kronecker deltas for index/label entries, the given local vectors otherwise, read
through `site.perm` exactly when the code permutes) — any stored form, any length. -/
theorem C07_product_state (L : Nat) (d : Nat → Nat) (perm : Nat → Nat → Nat) (permute : Bool)
    (labelled : Nat → Bool) (ps : Nat → PState α) (f : Option Form) (σ : List Nat) :
    (fromProductState L d perm permute labelled ps f BC.finite).toState σ
      = if σ.length = L then prodAmp (localAmp perm permute labelled ps) 0 σ else 0 := by
  have hL : (fromProductState L d perm permute labelled ps f BC.finite).L = L := rfl
  have hn : (fromProductState L d perm permute labelled ps f BC.finite).norm = 1 := rfl
  simp only [toState, toStateN, hL, hn, one_mul]
  by_cases h : σ.length = L
  · simp only [h, if_true]
    cases σ with
    | nil => simp [theta, thetaSites, contract, prodAmp, delta]
    | cons p qs =>
      simp only [theta, List.length_cons]
      have := product_contract_aux L d perm permute labelled ps f 2 qs p 0 2
        (fun a => delta a 0) (by simp only [List.length_cons] at h; omega)
      simp only [Nat.cast_zero] at this
      rw [this]; simp [delta]
  · simp [h]

/-- product of Kronecker deltas = indicator of one configuration -/
theorem prodAmp_delta (k : Nat → Nat) (σ : List Nat) (j : Nat) :
    prodAmp (fun i p => (delta p (k i) : α)) j σ
      = if σ = (List.range' j σ.length).map k then 1 else 0 := by
  induction σ generalizing j with
  | nil => simp [prodAmp]
  | cons p ps ih =>
    simp only [prodAmp, List.length_cons, List.range'_succ, List.map_cons, List.cons.injEq]
    rw [ih (j + 1)]
    unfold delta
    generalize List.map k (List.range' (j + 1) ps.length) = t
    by_cases h1 : p = k j <;> by_cases h2 : ps = t <;> simp [h1, h2]

/-- **basis product state**: `from_product_state(sites, [k₀, k₁, …])` is the basis vector
`|k₀ k₁ …⟩` (amplitude 1 on that configuration, 0 elsewhere). -/
theorem C07_product_state_basis (L : Nat) (d : Nat → Nat) (k : Nat → Nat) (f : Option Form)
    (σ : List Nat) :
    (fromProductState L d (fun _ p => p) false (fun _ => true) (fun i => PState.idx (α := α) (k i)) f
        BC.finite).toState σ
      = if σ = (List.range L).map k then 1 else 0 := by
  rw [C07_product_state]
  by_cases h : σ.length = L
  · simp only [h, if_true]
    have : localAmp (fun _ p => p) false (fun _ => true) (fun i => PState.idx (α := α) (k i))
        = fun i p => delta p (k i) := by
      funext i p; simp [localAmp]
    rw [this, prodAmp_delta, h, List.range_eq_range']
  · have : σ ≠ (List.range L).map k := by
      intro e; apply h; rw [e]; simp
    simp [h, this]

/-- **`from_Bflat`** (tensors as given, `form=None`): the denoted amplitude is the matrix
product of the given tensors — left-to-right contraction equals the nested sum over all bond
indices `Σ_{b₁…} Π_i Bflat_i[perm σ_i][b_i, b_{i+1}]`. -/
theorem C07_fromBflat (L : Nat) (bs : Nat → BflatSite α) (bonds : Nat → Bond α) (f : Option Form)
    (hchain : ChainOK 1 (bflatChain bs 0 L)) (hlast : 0 < lastDim 1 (bflatChain bs 0 L))
    (σ : List Nat) :
    (fromBflat L bs bonds f BC.finite).toStatePlain σ
      = if σ.length = L then pathSum (fun a => delta a 0) (bflatChain bs 0 L) σ 0 else 0 := by
  have hL : (fromBflat L bs bonds f BC.finite).L = L := rfl
  simp only [toStatePlain, hL]
  by_cases h : σ.length = L
  · simp only [h, if_true]
    have e := plainSites_fromBflat L bs bonds f BC.finite (by decide) L 0 (by omega)
    simp only [Nat.cast_zero] at e
    rw [e]
    have key := contract_pathSum 1 (fun a => delta a 0) (fun a => (delta a 0 : α))
      (bflatChain bs 0 L) σ hchain
    simp only [close] at key
    rw [sumN_delta_right, sumN_one] at key
    simp only [hlast, if_true, delta, if_true, one_mul] at key
    exact key
  · simp [h]

/-- **`get_B` is independent of the stored form**: after `convert_form(new_forms)` every
`get_B(i, form)` returns the same tensor as before (positive/invertible `S`). -/
theorem C07_getB_convert (M : MPSM α) (nf : Nat → Form) (hWF : M.WF) (i : Int) (h : M.Window i 1)
    (l r : Int) (a p c : Nat) (ha : a < (M.getSL i).chi) (hc : c < (M.getSR i).chi) :
    (M.convertForm nf).getB i (some (some l, some r)) a p c
      = M.getB i (some (some l, some r)) a p c :=
  getB_convert M nf hWF h l r a p c ha hc

/-- **`convert_form` leaves every `get_theta(i, n)` unchanged** — finite, segment and infinite
boundary conditions, any window, any open bond indices in range. -/
theorem C07_convert_form_theta (M : MPSM α) (nf : Nat → Form) (hWF : M.WF) (i : Int)
    (σ : List Nat) (hne : σ ≠ []) (hw : M.Window i σ.length) (aL aR : Nat)
    (hR : aR < (M.getSR (i + σ.length - 1)).chi) :
    (M.convertForm nf).theta i aL σ aR = M.theta i aL σ aR :=
  theta_convert M nf hWF i σ hne hw aL aR hR

/-- **`convert_form` leaves the state and the recorded norm unchanged** (finite MPS). -/
theorem C07_convert_form (M : MPSM α) (nf : Nat → Form) (hWF : M.WF) (hbc : M.bc ≠ BC.infinite)
    (hχ : 0 < (M.getSR ((M.L : Int) - 1)).chi) (σ : List Nat) :
    (M.convertForm nf).toState σ = M.toState σ ∧ (M.convertForm nf).norm = M.norm := by
  refine ⟨?_, rfl⟩
  have hL : (M.convertForm nf).L = M.L := rfl
  have hn : (M.convertForm nf).norm = M.norm := rfl
  simp only [toState, toStateN, hL, hn]
  by_cases h : σ.length = M.L
  · simp only [h, if_true]
    cases σ with
    | nil => rfl
    | cons p ps =>
      congr 1
      refine theta_convert M nf hWF 0 (p :: ps) (by simp) (Or.inr ⟨hbc, le_refl _, by rw [h]; simp⟩) 0 0 ?_
      rw [h]; simpa using hχ
  · simp [h]

/-- … and so does **any sequence** of conversions (induction on the sequence). -/
theorem C07_convert_form_seq (M : MPSM α) (nfs : List (Nat → Form)) (hWF : M.WF)
    (hbc : M.bc ≠ BC.infinite) (hχ : 0 < (M.getSR ((M.L : Int) - 1)).chi) (σ : List Nat) :
    (M.convertSeq nfs).toState σ = M.toState σ ∧ (M.convertSeq nfs).norm = M.norm := by
  induction nfs generalizing M with
  | nil => exact ⟨rfl, rfl⟩
  | cons nf rest ih =>
    have h1 := C07_convert_form M nf hWF hbc hχ σ
    have h2 := ih (M.convertForm nf) (convert_WF M nf hWF) hbc hχ
    exact ⟨h2.1.trans h1.1, h2.2.trans h1.2⟩

/-- **Gauge invariance**: inserting `X X⁻¹` on any bond of a chain (`B_k → B_k X`,
`B_{k+1} → X⁻¹ B_{k+1}`, possibly changing the bond dimension) leaves every amplitude unchanged. -/
theorem C07_gauge_invariance (v : Vec α) (pre post : List (RSite α)) (s t : RSite α) (X Y : Mat α)
    (n : Nat) (σ : List Nat) (hdim : s.dR = t.dL)
    (hXY : ∀ b c, b < s.dR → c < s.dR → sumN n (fun a' => X b a' * Y a' c) = delta b c) :
    contract v (pre ++ mulRight s X n :: mulLeft Y n t :: post) σ
      = contract v (pre ++ s :: t :: post) σ :=
  contract_gauge v pre post s t X Y n σ hdim hXY

/-- **QR step of `canonical_form_finite`**: `B_k = Q R`; keeping `Q` on site `k` and absorbing `R`
into site `k+1` leaves every amplitude unchanged (no inverse needed). -/
theorem C07_qr_step (v : Vec α) (pre post : List (RSite α)) (sQ t : RSite α) (R : Mat α)
    (σ : List Nat) :
    contract v (pre ++ mulRight sQ R t.dL :: t :: post) σ
      = contract v (pre ++ sQ :: mulLeft R sQ.dR t :: post) σ :=
  contract_move_matrix v pre post sQ t R σ

/-- **Schmidt certificate.**  If `Ψ = V · diag(s) · W` with `V` an isometry (left part in `A` form)
and `W` a co-isometry (right part in `B` form), then the reduced density matrix of the left part
satisfies `ρ_L V = V diag(s s̄)` and `tr ρ_L = Σ s s̄`: the stored singular values squared are
eigenvalues of `ρ_L` with eigenvectors the columns of `V`, and they exhaust its trace. -/
theorem C07_schmidt_certificate {cj : α → α} (hcj : ConjLike cj) (nL nR χ : Nat) (V : Mat α)
    (s : Vec α) (W : Mat α)
    (hV : ∀ a a', a < χ → a' < χ → sumN nL (fun l => cj (V l a) * V l a') = delta a a')
    (hW : ∀ a a', a < χ → a' < χ → sumN nR (fun r => W a r * cj (W a' r)) = delta a a') :
    (∀ l a, a < χ →
      sumN nL (fun l' => rhoL cj nR (schmidtPsi χ V s W) l l' * V l' a) = V l a * (s a * cj (s a))) ∧
    sumN nL (fun l => rhoL cj nR (schmidtPsi χ V s W) l l) = sumN χ (fun a => s a * cj (s a)) := by
  constructor
  · intro l a ha
    calc sumN nL (fun l' => rhoL cj nR (schmidtPsi χ V s W) l l' * V l' a)
        = sumN nL (fun l' => sumN χ (fun b => V l b * (s b * cj (s b)) * (cj (V l' b) * V l' a))) :=
          sumN_congr (fun l' _ => by
            rw [rhoL_schmidt cj nR χ V s W hcj hW, sumN_mul]
            exact sumN_congr (fun b _ => by ring))
      _ = sumN χ (fun b => sumN nL (fun l' => V l b * (s b * cj (s b)) * (cj (V l' b) * V l' a))) :=
          sumN_comm _ _ _
      _ = sumN χ (fun b => V l b * (s b * cj (s b)) * delta b a) :=
          sumN_congr (fun b hb => by rw [← mul_sumN, hV b a hb ha])
      _ = V l a * (s a * cj (s a)) := by rw [sumN_delta_right]; simp [ha]
  · calc sumN nL (fun l => rhoL cj nR (schmidtPsi χ V s W) l l)
        = sumN nL (fun l => sumN χ (fun a => (s a * cj (s a)) * (cj (V l a) * V l a))) :=
          sumN_congr (fun l _ => by
            rw [rhoL_schmidt cj nR χ V s W hcj hW]; exact sumN_congr (fun a _ => by ring))
      _ = sumN χ (fun a => sumN nL (fun l => (s a * cj (s a)) * (cj (V l a) * V l a))) :=
          sumN_comm _ _ _
      _ = sumN χ (fun a => s a * cj (s a)) :=
          sumN_congr (fun a ha => by rw [← mul_sumN, hV a a ha ha]; simp [delta])

/-! ### non-vacuity: concrete instances -/

namespace C07Examples
open TenpyModel.MPS

/-- a uniform infinite MPS over ℚ with `S = 1/4` on every bond, stored in `'B'` form -/
def demo : MPSM Rat :=
  { L := 2
    site := fun _ => { dL := 2, d := 2, dR := 2, B := fun a p c => (a + 2 * p + 3 * c + 1 : Nat), form := some (0, 2) }
    bond := fun _ => { chi := 2, R := fun _ => 1/2, Rinv := fun _ => 2 }
    norm := 1, bc := BC.infinite }

/-- the hypotheses of the conversion theorems are met by `demo` (non-trivial `S`) -/
theorem demo_WF : demo.WF :=
  ⟨fun _ _ _ => by simp [demo], fun _ _ => rfl, fun _ _ => rfl⟩

example : (demo.convertForm (fun _ => (2, 0))).theta 0 1 [0, 1, 1] 0 = demo.theta 0 1 [0, 1, 1] 0 :=
  C07_convert_form_theta demo _ demo_WF 0 [0, 1, 1] (by simp) (Or.inl ⟨rfl, by decide⟩) 1 0 (by decide)

/-- a product state `|1,0,2⟩` on three sites: amplitude 1 exactly on that configuration -/
example : (fromProductState 3 (fun _ => 3) (fun _ p => p) false (fun _ => true)
    (fun i => PState.idx (α := Int) ([1, 0, 2].getD i 0)) (some (0, 2)) BC.finite).toState [1, 0, 2] = 1 := by
  rw [C07_product_state_basis]; decide

end C07Examples
