import TenpyModel.C07.ExtGlueProofs
import TenpyModel.C07.Props
/-!
# C07 extension round, part C — argument handling around the form bookkeeping

Property theorems about `TenpyModel/C07/ExtGlue.lean`: `_parse_form`, `convert_form` as a user calls it
(tied to the state-invariance theorem `C07_convert_form` of the base model), the guards of
`get_theta`, the bond selection of `entanglement_entropy`.
-/
set_option linter.unusedSectionVars false
open TenpyModel.MPS TenpyModel.MPS.MPSM TenpyModel.C07Ext

universe u
variable {α : Type u}

/-- **`_parse_form`**: an accepted argument always yields one form per site; a bare tuple and a
single key are repeated for every site; the five names of `_valid_forms` are accepted, anything
else is a `KeyError`; a list whose length is neither 1 nor `L` is a `ValueError`. -/
theorem C07_parse_form (L : Nat) :
    (∀ arg fs, parseForm L arg = .ok fs → fs.length = L) ∧
    (∀ f, parseForm L (.tuple f) = .ok (List.replicate L (some f))) ∧
    (∀ nm f, (nm, f) ∈ [("A", ((2, 0) : Form)), ("B", (0, 2)), ("C", (1, 1)), ("G", (0, 0)), ("Th", (2, 2))] →
      parseForm L (.single (.name nm)) = .ok (List.replicate L (some f))) ∧
    parseForm L (.single .pyNone) = .ok (List.replicate L none) ∧
    (∀ nm, nm ∉ ["A", "B", "C", "G", "Th", "None"] → 0 < L →
      parseForm L (.single (.name nm)) = .error .keyError) ∧
    (∀ es, es.length ≠ 1 → es.length ≠ L → parseForm L (.list es) = .error .wrongLen) := by
  refine ⟨?_, fun f => rfl, ?_, ?_, ?_, ?_⟩
  · intro arg fs h
    cases arg with
    | tuple f => simp [parseForm] at h; subst h; simp
    | single e =>
      simp only [parseForm] at h
      rw [validAll_length _ _ h]; simp
    | list es =>
      simp only [parseForm] at h
      generalize (if es.length = 1 then List.replicate L (es.headD FormEntry.pyNone) else es) = es' at h
      by_cases hl : es'.length ≠ L
      · rw [if_pos hl] at h; cases h
      · rw [if_neg hl] at h
        rw [validAll_length _ _ h]
        exact not_not.mp hl
  · intro nm f hmem
    have : toValidForm (.name nm) = .ok (some f) := by
      simp only [List.mem_cons, Prod.mk.injEq, List.mem_nil_iff, or_false] at hmem
      rcases hmem with ⟨rfl, rfl⟩ | ⟨rfl, rfl⟩ | ⟨rfl, rfl⟩ | ⟨rfl, rfl⟩ | ⟨rfl, rfl⟩ <;> decide
    exact validAll_replicate _ _ this L
  · exact validAll_replicate _ _ rfl L
  · intro nm hnm hL
    obtain ⟨L', rfl⟩ : ∃ L', L = L' + 1 := ⟨L - 1, by omega⟩
    refine validAll_replicate_err _ _ ?_ L'
    simp only [toValidForm, TenpyModel.Gen.C07.validForms]
    simp only [List.mem_cons, List.mem_nil_iff, or_false, not_or] at hnm
    obtain ⟨h1, h2, h3, h4, h5, h6⟩ := hnm
    have e1 : ("A" == nm) = false := beq_eq_false_iff_ne.mpr (fun h => h1 h.symm)
    have e2 : ("B" == nm) = false := beq_eq_false_iff_ne.mpr (fun h => h2 h.symm)
    have e3 : ("C" == nm) = false := beq_eq_false_iff_ne.mpr (fun h => h3 h.symm)
    have e4 : ("G" == nm) = false := beq_eq_false_iff_ne.mpr (fun h => h4 h.symm)
    have e5 : ("Th" == nm) = false := beq_eq_false_iff_ne.mpr (fun h => h5 h.symm)
    have e6 : ("None" == nm) = false := beq_eq_false_iff_ne.mpr (fun h => h6 h.symm)
    simp [List.find?, e1, e2, e3, e4, e5, e6]
  · intro es h1 hL
    simp [parseForm, h1, hL]

section ring
variable [Zero α] [One α] [Add α] [Mul α]

/-- **`convert_form(arg)` as a user calls it is the one-shot conversion of the model.**  For a
canonical MPS and any argument that parses to proper forms `nf`, the in-place loop over the sites
(each `get_B` seeing the tensors already converted before it) produces exactly
`MPSM.convertForm nf` and does not raise. -/
theorem C07_convert_form_arg (M : MPSM α) (arg : FormArg) (nf : Nat → Form)
    (hcan : ∀ k, k < M.L → (M.site k).form ≠ none)
    (hparse : parseForm M.L arg = .ok ((List.range M.L).map (fun k => some (nf k)))) :
    convertFormArg M arg = (M.convertForm nf, none) := by
  simp only [convertFormArg, hparse]
  obtain ⟨r1, r2, r3, r4, r5, r6⟩ := convertLoop_spec ((List.range M.L).map (fun k => some (nf k))) M 0
    (by simp) (fun j hj f _ => by simp at hj; simpa using hcan j hj)
  refine Prod.ext ?_ r1
  refine MPSM_ext _ _ r2 (fun k => ?_) r4 r5 r3
  rw [r6 k]
  simp only [convertForm]
  by_cases hk : k < M.L
  · have : 0 ≤ k ∧ k < 0 + ((List.range M.L).map (fun k => some (nf k))).length := by simp [hk]
    rw [dif_pos this]
    simp [hk, convSiteVal]
  · have : ¬ (0 ≤ k ∧ k < 0 + ((List.range M.L).map (fun k => some (nf k))).length) := by simp [hk]
    rw [dif_neg this]
    simp [hk]

/-- **`convert_form(None)` only forgets the forms**: no tensor is touched, every site of the chain
becomes non-canonical, nothing is raised (for any MPS). -/
theorem C07_convert_form_none (M : MPSM α) :
    convertFormArg M (.single .pyNone)
      = ({ M with site := fun k => if k < M.L then { M.site k with form := none } else M.site k }, none) := by
  have hp : parseForm M.L (.single .pyNone) = .ok (List.replicate M.L none) := validAll_replicate _ _ rfl _
  simp only [convertFormArg, hp]
  obtain ⟨r1, r2, r3, r4, r5, r6⟩ := convertLoop_spec (List.replicate M.L (none : Option Form)) M 0
    (by simp) (fun j hj f hf => by simp at hf)
  refine Prod.ext ?_ r1
  refine MPSM_ext _ _ r2 (fun k => ?_) r4 r5 r3
  rw [r6 k]
  by_cases hk : k < M.L
  · have : 0 ≤ k ∧ k < 0 + (List.replicate M.L (none : Option Form)).length := by simp [hk]
    rw [dif_pos this]
    simp [hk, convSiteVal]
  · have : ¬ (0 ≤ k ∧ k < 0 + (List.replicate M.L (none : Option Form)).length) := by simp [hk]
    rw [dif_neg this]
    simp [hk]

/-- **Rejected arguments leave the MPS untouched**: an unknown key and a list of the wrong length are
refused before any tensor is changed; so is a proper target form when the first site is
non-canonical. -/
theorem C07_convert_form_rejects (M : MPSM α) (hL : 0 < M.L) :
    (∀ nm, nm ∉ ["A", "B", "C", "G", "Th", "None"] →
      convertFormArg M (.single (.name nm)) = (M, some .keyError)) ∧
    (∀ es, es.length ≠ 1 → es.length ≠ M.L → convertFormArg M (.list es) = (M, some .wrongLen)) ∧
    (∀ f, (M.site 0).form = none → convertFormArg M (.tuple f) = (M, some .nonCanonical)) := by
  refine ⟨fun nm hnm => ?_, fun es h1 h2 => ?_, fun f h0 => ?_⟩
  · simp only [convertFormArg, (C07_parse_form M.L).2.2.2.2.1 nm hnm hL]
  · simp only [convertFormArg, (C07_parse_form M.L).2.2.2.2.2 es h1 h2]
  · obtain ⟨L', hL'⟩ : ∃ L', M.L = L' + 1 := ⟨M.L - 1, by omega⟩
    simp [convertFormArg, parseForm, hL', List.replicate_succ, convertLoop, convertSite, h0]

/-- **guards of `get_theta(i, n)`**: `n < 1` is refused (`'n needs to be larger than 0'`, the loop over
the window is then empty); a window of `n ≥ 1` canonical sites inside a finite chain passes. -/
theorem C07_theta_guard (M : MPSM α) (i : Nat) (n : Int) :
    (n < 1 → thetaGuard M i n = some .nTooSmall) ∧
    (1 ≤ n → M.bc ≠ BC.infinite → (i : Int) + n ≤ M.L →
      (∀ k, k < M.L → (M.site k).form ≠ none) → thetaGuard M i n = none) := by
  constructor
  · intro hn
    have : n.toNat = 0 := by omega
    simp [thetaGuard, this, thetaGuard.go, hn]
  · intro hn hbc hwin hcan
    have hgo : thetaGuard.go M ((List.range n.toNat).map (fun (k : Nat) => (i : Int) + Int.ofNat k)) = none := by
      refine thetaGuard_go_ok M _ (fun j hj => ?_)
      obtain ⟨k, hk, rfl⟩ := List.mem_map.mp hj
      have hk' : k < n.toNat := List.mem_range.mp hk
      have hlt : i + k < M.L := by omega
      refine ⟨i + k, ?_, hcan _ hlt⟩
      have hL : M.L ≠ 0 := by omega
      have hfin : M.finiteBC = true := by
        simp only [finiteBC]; cases hb : M.bc <;> simp_all
      have hr : (0 : Int) ≤ (i : Int) + Int.ofNat k ∧ (i : Int) + Int.ofNat k < M.L := by
        constructor <;> simp <;> omega
      simp only [siteIdx?, hL, if_false, hfin, if_true, hr, and_self]
      congr 1
    have hn' : ¬ n < 1 := by omega
    simp only [thetaGuard, hgo, hn', if_false]

/-- **`entanglement_entropy` reads the singular values of the requested cut.**  On a finite or
segment chain the cut `ib ∈ [0, L]` uses the stored `S[ib]` (for `ib = L` through `get_SR(L-1)`); on
an infinite chain every `ib` uses `S[ib % L]`.  The default cuts are `1 … L-1`, `0 … L`, `0 … L-1`
for finite, segment, infinite boundary conditions. -/
theorem C07_entropy_bonds (M : MPSM α) (hL : 0 < M.L) (ib : Nat) :
    (M.bc ≠ BC.infinite → ib ≤ M.L → (entropyBond M ib).map (·.chi) = some (M.bond ib).chi ∧
      ∀ b, entropyBond M ib = some b → b = M.bond ib) ∧
    (M.bc = BC.infinite → ∀ b, entropyBond M ib = some b → b = M.bond (ib % M.L)) ∧
    (M.bc = BC.finite → nontrivialBonds M = (List.range M.L).filter (fun i => 1 ≤ i)) ∧
    (M.bc = BC.segment → nontrivialBonds M = List.range (M.L + 1)) ∧
    (M.bc = BC.infinite → nontrivialBonds M = List.range M.L) := by
  have hL0 : M.L ≠ 0 := by omega
  refine ⟨fun hbc hib => ?_, fun hbc b hb => ?_, fun h => by simp [nontrivialBonds, h],
    fun h => by simp [nontrivialBonds, h], fun h => by simp [nontrivialBonds, h]⟩
  · have hfin : M.finiteBC = true := by
      simp only [finiteBC]; cases hb : M.bc <;> simp_all
    have key : entropyBond M ib = some (M.bond ib) := by
      by_cases he : ib = M.L
      · have h1 : ((ib : Int) = (M.L : Int)) := by exact_mod_cast he
        have hr : (0 : Int) ≤ (ib : Int) - 1 ∧ (ib : Int) - 1 < M.L := by constructor <;> omega
        simp only [entropyBond, h1, if_true, hfin, siteIdx?, hL0, if_false]
        have hr' : (0 : Int) ≤ (M.L : Int) - 1 ∧ (M.L : Int) - 1 < M.L := by constructor <;> omega
        simp only [hr', and_self, if_true, Option.map_some, getSR, bondIdx, hfin, siteIdx, siteIdx?, hL0,
          if_false, Option.getD_some, Bool.false_eq_true]
        congr 2
        omega
      · have h1 : ¬ ((ib : Int) = (M.L : Int)) := by exact_mod_cast he
        have hr : (0 : Int) ≤ (ib : Int) ∧ (ib : Int) < M.L := by constructor <;> omega
        simp only [entropyBond, h1, if_false, siteIdx?, hL0, hfin, if_true, hr, and_self, Option.map_some,
          getSL, bondIdx, siteIdx, Option.getD_some]
        simp
    exact ⟨by rw [key]; rfl, fun b hb => by rw [key] at hb; exact (Option.some.inj hb).symm⟩
  · have hfin : M.finiteBC = false := by simp [finiteBC, hbc]
    have hmod : (((ib : Int) % (M.L : Int)).toNat) = ib % M.L := by
      have h1 : ((ib % M.L : Nat) : Int) = (ib : Int) % (M.L : Int) := Int.natCast_mod ib M.L
      rw [← h1]; exact Int.toNat_natCast _
    by_cases he : ib = M.L
    · have h1 : ((ib : Int) = (M.L : Int)) := by exact_mod_cast he
      simp only [entropyBond, h1, if_true, hfin, Bool.false_eq_true, if_false, siteIdx?, hL0,
        Option.map_some, getSR, bondIdx, siteIdx, Option.getD_some] at hb
      rw [← Option.some.inj hb]
      congr 1
      have : ((M.L : Int) - 1 + 1) = (M.L : Int) := by omega
      rw [this, he]
      simp
    · have h1 : ¬ ((ib : Int) = (M.L : Int)) := by exact_mod_cast he
      simp only [entropyBond, h1, if_false, siteIdx?, hL0, hfin, Bool.false_eq_true, Option.map_some,
        getSL, bondIdx, siteIdx, Option.getD_some, if_true] at hb
      rw [← Option.some.inj hb]
      rw [Int.add_zero, hmod]

end ring

/-- `convert_form(arg)` with any accepted argument leaves the denoted state and the recorded norm of
a finite MPS unchanged (composition of `C07_convert_form_arg` with `C07_convert_form`). -/
theorem C07_convert_form_arg_state [CommSemiring α] (M : MPSM α) (arg : FormArg) (nf : Nat → Form)
    (hWF : M.WF) (hbc : M.bc ≠ BC.infinite) (hχ : 0 < (M.getSR ((M.L : Int) - 1)).chi)
    (hcan : ∀ k, k < M.L → (M.site k).form ≠ none)
    (hparse : parseForm M.L arg = .ok ((List.range M.L).map (fun k => some (nf k)))) (σ : List Nat) :
    (convertFormArg M arg).2 = none ∧ (convertFormArg M arg).1.toState σ = M.toState σ ∧
      (convertFormArg M arg).1.norm = M.norm := by
  rw [C07_convert_form_arg M arg nf hcan hparse]
  exact ⟨rfl, C07_convert_form M nf hWF hbc hχ σ⟩

/-! ### non-vacuity -/
namespace C07ExtGlueExamples
open C07Examples

/-- `demo.convert_form('A')`: parses, converts both sites, forms are `A` afterwards -/
example : (convertFormArg demo (.single (.name "A"))).2 = none := by
  rw [C07_convert_form_arg demo (.single (.name "A")) (fun _ => (2, 0)) (by intro k _; simp [demo]) (by decide)]
example : parseForm 3 (.list [.name "A", .pyNone, .tup (1, 1)]) = .ok [some (2, 0), none, some (1, 1)] := by decide
example : parseForm 3 (.list [.name "A", .name "B"]) = .error .wrongLen := by decide
example : parseForm 2 (.list [.name "A", .name "X"]) = .error .keyError := by decide
example : thetaGuard demo 5 3 = none := by decide
example : thetaGuard demo 0 0 = some .nTooSmall := by decide
example : (nontrivialBonds demo) = [0, 1] := by decide

end C07ExtGlueExamples
