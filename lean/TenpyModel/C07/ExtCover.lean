import TenpyModel.MPS.Chain
/-!
Extension round, part A: executable model of the tensor assembly of
`tenpy/networks/mps.py :: MPS.from_product_mps_covering` (and therefore of `MPS.from_singlets`, which
only builds the local two-site singlet MPS / one-site lonely MPS and calls it).

What the code does after the local MPS have been sorted (`permute_sites`), brought to `'B'` form and
gauged to trivial outer legs:

* `B_parts[i]` / `SR_parts[i]`: every local MPS contributes, in the order of `mps_covering`, its own
  tensor `get_B(j, 'B')` and `get_SR(j)` on the sites of its index map and
  `Triv = npc.diag(1., vR_leg.conj())` together with the *same* `SR` on the sites strictly between
  two of its sites (`padChain`, `padSR`);
* the parts of one site are combined from the left with `npc.outer(B, B2).combine_legs([['vL','vL2'],
  ['vR','vR2']])` and `np.outer(SR, SR2).flatten()` (`kronSite`, `kronVec`; without charges the
  pipe is the row-major product index `a * d2 + a2`; with charges `combine_legs` additionally sorts
  the product index by charge, which is a bond gauge — compared at state level by the harness);
* `SVs = [SR_{L-1}, SR_0, …, SR_{L-1}]`, the last one dropped for `bc='finite'` (`coverBond`).

Outside the span of a local MPS the code appends nothing; the model appends the `1 × 1` identity
(`thru 1 d`), which gives the same tensor (`x * 1`, index `a * 1 + 0 = a`).
-/
namespace TenpyModel.C07Ext
open TenpyModel.MPS

universe u
variable {α : Type u}

section ring
variable [Zero α] [One α] [Add α] [Mul α]

/-- `Triv = npc.diag(1., vR_leg.conj(), labels=['vL','vR'])`: the line of a local MPS passing a
site it does not own (rank 2 in the code; here a site tensor that ignores the physical index). -/
def thru (χ d : Nat) : RSite α :=
  { dL := χ, d := d, dR := χ, M := fun a _ b => delta a b }

/-- `npc.outer(B, B2).combine_legs([['vL','vL2'],['vR','vR2']])` without charge sorting:
`(vL.vL2) = a * dL2 + a2`, `(vR.vR2) = b * dR2 + b2`. -/
def kronSite (s t : RSite α) : RSite α :=
  { dL := s.dL * t.dL, d := s.d, dR := s.dR * t.dR,
    M := fun a p b => s.M (a / t.dL) p (b / t.dR) * t.M (a % t.dL) p (b % t.dR) }

/-- `np.outer(SR, SR2).flatten()` (`SR[inds[:,0]] * SR2[inds[:,1]]`), also the product of two
boundary vectors. -/
def kronVec (n2 : Nat) (v w : Vec α) : Vec α := fun a => v (a / n2) * w (a % n2)

/-- site-wise combination of the parts of two local MPS -/
def kronChain (c1 c2 : List (RSite α)) : List (RSite α) := List.zipWith kronSite c1 c2

/-- the loop `for B2, SR2 in zip(B_p[1:], S_p[1:])`: parts are combined from the left, in the
order of `mps_covering`. -/
def coverChain : List (List (RSite α)) → List (RSite α)
  | [] => []
  | c :: cs => cs.foldl kronChain c

/-- `B_parts` of ONE local MPS on the `n` sites `i, i+1, …` of the new MPS: `im` = its (sorted)
index map, `ls` = its tensors, `χ` = dimension of the line currently running (1 outside its span). -/
def padChain (dphys : Nat → Nat) : Nat → Nat → Nat → List Nat → List (RSite α) → List (RSite α)
  | 0, _, _, _, _ => []
  | n + 1, i, χ, j :: im, s :: ls =>
      if i = j then s :: padChain dphys n (i + 1) s.dR im ls
      else thru χ (dphys i) :: padChain dphys n (i + 1) χ (j :: im) (s :: ls)
  | n + 1, i, χ, _, _ => thru χ (dphys i) :: padChain dphys n (i + 1) χ [] []

/-- `SR_parts` of one local MPS: `(chi, SR)` right of every site — its own `get_SR(j)` on its sites,
the same values again on the sites its line passes, `[1.]` outside the span. -/
def padSR : Nat → Nat → (Nat × Vec α) → List Nat → List (Nat × Vec α) → List (Nat × Vec α)
  | 0, _, _, _, _ => []
  | n + 1, i, cur, j :: im, s :: ls =>
      if i = j then s :: padSR n (i + 1) s im ls
      else cur :: padSR n (i + 1) cur (j :: im) (s :: ls)
  | n + 1, i, cur, _, _ => cur :: padSR n (i + 1) cur [] []

/-- combination of the `SR_parts` of one site (left fold, as the tensors) -/
def kronSR (a b : Nat × Vec α) : Nat × Vec α := (a.1 * b.1, kronVec b.1 a.2 b.2)

def coverSR : List (List (Nat × Vec α)) → List (Nat × Vec α)
  | [] => []
  | c :: cs => cs.foldl (List.zipWith kronSR) c

/-- physical indices a configuration of the new chain assigns to the sites of one local MPS -/
def pickCfg : Nat → List Nat → List Nat → List Nat
  | _, [], _ => []
  | _, _, [] => []
  | i, j :: im, p :: ps => if i = j then p :: pickCfg (i + 1) im ps else pickCfg (i + 1) (j :: im) ps

/-- the checks at the top of `from_product_mps_covering` (finite placement, `i % L` with all
indices inside `[0, L)`): the index maps have as many entries as the local MPS has sites, and
every site of the new chain is used exactly once (`ValueError('duplicate index …')`); `L` is
`sum(len(x) for x in index_map)`. -/
def coverValid (ims : List (List Nat)) (lens : List Nat) : Bool :=
  let L := (ims.map List.length).foldl (· + ·) 0
  let all := ims.flatten
  (ims.map List.length == lens) && all.all (· < L) &&
    (List.range L).all (fun i => all.count i == 1)

/-- the singular values stored on bond `i` of the new MPS: `SVs[i] = SR_{i-1}`, `SVs[0] = SVs[-1]`;
`bc='finite'` overwrites the two outer ones with `[1.]` in `MPS.__init__`. -/
def coverBond (finite : Bool) (L : Nat) (srs : List (Nat × Vec α)) (i : Nat) : Nat × Vec α :=
  let one : Nat × Vec α := (1, fun _ => 1)
  if finite && (i = 0 || i = L) then one
  else if i = 0 then srs.getD (L - 1) one else srs.getD (i - 1) one

/-! ### the local MPS `from_singlets` hands over -/

/-- a two-site chain denoting `c·(|up,down⟩ - |down,up⟩)` (bond dimension 2), any gauge-equivalent
chain is produced by `psi_up_down.add(psi_down_up, 0.5**0.5, -(0.5**0.5))`. -/
def singletChain [Neg α] (d up down : Nat) (c : α) : List (RSite α) :=
  [ { dL := 1, d := d, dR := 2,
      M := fun _ p b => if b = 0 then (if p = up then c else 0) else (if p = down then -c else 0) },
    { dL := 2, d := d, dR := 1,
      M := fun a p _ => if a = 0 then delta p down else delta p up } ]

/-- the one-site MPS of a lonely site -/
def lonelyChain (d st : Nat) : List (RSite α) :=
  [ { dL := 1, d := d, dR := 1, M := fun _ p _ => delta p st } ]

end ring
end TenpyModel.C07Ext
