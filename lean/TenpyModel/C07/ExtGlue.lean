import TenpyModel.MPS.Basic
/-!
Extension round, part C: the glue around the form bookkeeping of `tenpy/networks/mps.py` —
argument parsing (`_parse_form`, `_to_valid_form`), `convert_form` as called by a user (with the
`ValueError`/`KeyError` branches and the `None` form), the guards of `get_theta`, and the bond
selection of `entanglement_entropy` / `entanglement_spectrum` (`nontrivial_bonds`, `ib == L`).
-/
namespace TenpyModel.C07Ext
open TenpyModel.MPS TenpyModel.MPS.MPSM

universe u
variable {α : Type u}

/-- one entry of a `form` argument: a key of `_valid_forms` (string), `None`, or an explicit tuple -/
inductive FormEntry where
  | name (s : String)
  | pyNone
  | tup (f : Form)
deriving Repr, DecidableEq

/-- a `form` argument: a bare tuple, a single key / `None` (`to_iterable` wraps it), or a list -/
inductive FormArg where
  | tuple (f : Form)
  | single (e : FormEntry)
  | list (es : List FormEntry)
deriving Repr

inductive FormErr where
  | wrongLen       -- `ValueError('Wrong len of form')`
  | keyError       -- `_valid_forms[form]` for an unknown key
  | nonCanonical   -- `ValueError("can't convert form of non-canonical state!")`
deriving Repr, DecidableEq

/-- `_to_valid_form` -/
def toValidForm : FormEntry → Except FormErr (Option Form)
  | .tup f => .ok (some f)
  | .pyNone => .ok none
  | .name s =>
    match TenpyModel.Gen.C07.validForms.find? (fun e => e.1 == s) with
    | some (_, f) => .ok f
    | none => .error .keyError

/-- `[self._to_valid_form(f) for f in form]` (the first unknown key raises) -/
def validAll : List FormEntry → Except FormErr (List (Option Form))
  | [] => .ok []
  | e :: es =>
    match toValidForm e with
    | .error err => .error err
    | .ok f =>
      match validAll es with
      | .error err => .error err
      | .ok fs => .ok (f :: fs)

/-- `_parse_form`: a tuple is taken for every site WITHOUT validation; otherwise `to_iterable`, a
single entry is repeated, the length is checked, then every entry is looked up. -/
def parseForm (L : Nat) : FormArg → Except FormErr (List (Option Form))
  | .tuple f => .ok (List.replicate L (some f))
  | .single e => validAll (List.replicate L e)
  | .list es =>
    let es' := if es.length = 1 then List.replicate L (es.headD .pyNone) else es
    if es'.length ≠ L then .error .wrongLen else validAll es'

section ring
variable [Zero α] [One α] [Add α] [Mul α]

/-- `set_B(i, get_B(i, form=new_form), form=new_form)` for one site; `none` = `get_B` raised -/
def convertSite (M : MPSM α) (i : Nat) (nf : Option Form) : Option (MPSM α) :=
  let old := (M.site i).form
  match nf with
  | none => some { M with site := fun k => if k = i then { M.site i with form := none } else M.site k }
  | some f =>
    if old = some f then some M   -- `old_form == new_form`: stored tensor, same form
    else if old.isNone then none
    else some { M with site := fun k =>
      if k = i then { M.site i with B := M.getB i (some (some f.1, some f.2)), form := some f } else M.site k }

/-- the loop of `convert_form`: sites `i, i+1, …` get the forms of the list; on an error the sites
converted so far stay converted (the code mutates in place). -/
def convertLoop : MPSM α → Nat → List (Option Form) → MPSM α × Option FormErr
  | M, _, [] => (M, none)
  | M, i, nf :: rest =>
    match convertSite M i nf with
    | none => (M, some .nonCanonical)
    | some M' => convertLoop M' (i + 1) rest

/-- `convert_form(new_form)` as called by a user -/
def convertFormArg (M : MPSM α) (arg : FormArg) : MPSM α × Option FormErr :=
  match parseForm M.L arg with
  | .error e => (M, some e)
  | .ok fs => convertLoop M 0 fs

inductive ThetaErr where
  | nonCanonical   -- "can't calculate theta for non-canonical form"
  | outOfBounds    -- `_to_valid_site_index` on a finite chain
  | nTooSmall      -- 'n needs to be larger than 0'
deriving Repr, DecidableEq

/-- the checks `get_theta(i, n)` performs before contracting, in the order of the code: the loop over
`j in range(i, i+n)` (site index, then form), `n == 1`, `n < 1`. -/
def thetaGuard (M : MPSM α) (i : Int) (n : Int) : Option ThetaErr :=
  let js := (List.range n.toNat).map (fun (k : Nat) => i + Int.ofNat k)
  let rec go : List Int → Option ThetaErr
    | [] => none
    | j :: rest =>
      match M.siteIdx? j with
      | none => some .outOfBounds
      | some k => if (M.site k).form.isNone then some .nonCanonical else go rest
  match go js with
  | some e => some e
  | none => if n < 1 then some .nTooSmall else none

/-- `range(L+1)[nontrivial_bonds]` -/
def nontrivialBonds (M : MPSM α) : List Nat :=
  match M.bc with
  | .finite => (List.range M.L).filter (fun i => 1 ≤ i)
  | .segment => List.range (M.L + 1)
  | .infinite => List.range M.L

/-- the singular values `entanglement_entropy` uses for the cut `ib`:
`get_SR(ib - 1)` if `ib == L` else `get_SL(ib)`; `none` = the index is refused. -/
def entropyBond (M : MPSM α) (ib : Int) : Option (Bond α) :=
  if ib = M.L then
    (M.siteIdx? (if M.finiteBC then ib - 1 else ib)).map (fun _ => M.getSR (ib - 1))
  else (M.siteIdx? ib).map (fun _ => M.getSL ib)

/-- `Σ_a (S_a²)^n`, the argument of the logarithm in the Rényi entropy `log(Σ p^n)/(1-n)` -/
def renyiSum (b : Bond α) (n : Nat) : α := sumN b.chi (fun a => Spow b (4 * n) a)

end ring
end TenpyModel.C07Ext
