import TenpyModel.MPS.Chain
/-!
Extension round, part B: executable model of the charge bookkeeping of an MPS,
`tenpy/networks/mps.py :: MPS.get_total_charge` and `MPS.gauge_total_charge`
(with `tenpy/linalg/np_conserved.py :: Array.gauge_total_charge` and
`charges.py :: LegCharge.get_charge / test_equal / test_contractible`).

Charges live in a type `G` with `+`, `-`, `0` (executed at integer vectors, proved about for every
commutative group); the `ChargeInfo` is the pair `mv = make_valid` (component-wise `mod`, `x % 1 := x`)
and `isZero` (`not np.any(x != 0)`).  A leg is its charge per *flat* index together with `qconj`;
`get_charge(0)` of the code (block 0) is the charge of flat index 0 times `qconj`.
-/
namespace TenpyModel.C07Ext
open TenpyModel.MPS

universe u v
variable {G : Type v} {α : Type u}

/-- `ChargeInfo` as far as the MPS methods use it -/
structure ChInfo (G : Type v) where
  mv : G → G
  isZero : G → Bool
  /-- `chinfo.qnumber == 0` -/
  trivial : Bool

/-- a virtual leg: `charges` per flat index (as stored, without `qconj`), `qconj = +1` ↔ `pos` -/
structure VLeg (G : Type v) where
  dim : Nat
  q : Nat → G
  pos : Bool

section grp
variable [Add G] [Neg G] [Zero G]

/-- `x * qconj` -/
def sgn (pos : Bool) (x : G) : G := if pos then x else -x

/-- `leg.get_charge(qindex)` for the block holding flat index `a`: `charges * qconj` -/
def VLeg.charge (l : VLeg G) (a : Nat) : G := sgn l.pos (l.q a)

/-- one MPS tensor with its charge data: legs `vL`, `p` (`qconj = +1`), `vR` and `qtotal` -/
structure QSite (G : Type v) (α : Type u) where
  d : Nat
  M : T3 α
  vL : VLeg G
  qp : Nat → G
  vR : VLeg G
  qtot : G

def QSite.toRSite (s : QSite G α) : RSite α := { dL := s.vL.dim, d := s.d, dR := s.vR.dim, M := s.M }

/-- `Array.gauge_total_charge(axis, newqtotal, new_qconj)` acting on one virtual leg:
`chdiff = newqtotal - qtotal`, `new_charges = charges + old_qconj * chdiff`, negated if `qconj` flips,
made valid. -/
def gaugeLeg (ci : ChInfo G) (l : VLeg G) (chdiff : G) (newPos : Bool) : VLeg G :=
  { dim := l.dim, pos := newPos,
    q := fun a =>
      let c := l.q a + sgn l.pos chdiff
      ci.mv (if l.pos == newPos then c else -c) }

/-- `B.gauge_total_charge('vR', newq)` -/
def QSite.gaugeR (ci : ChInfo G) (s : QSite G α) (newq : G) : QSite G α :=
  let nq := ci.mv newq
  { s with qtot := nq, vR := gaugeLeg ci s.vR (nq + -s.qtot) s.vR.pos }

/-- `B.gauge_total_charge('vL', newq, new_qconj)` -/
def QSite.gaugeL (ci : ChInfo G) (s : QSite G α) (newq : G) (newPos : Bool) : QSite G α :=
  let nq := ci.mv newq
  { s with qtot := nq, vL := gaugeLeg ci s.vL (nq + -s.qtot) newPos }

def sumG : List G → G
  | [] => 0
  | x :: xs => x + sumG xs

/-- `MPS.get_total_charge(only_physical_legs)`; `seg` = `qtotal` of the two `segment_boundaries`
(if set), `finite` = `bc == 'finite'`.  `none` = the `ValueError` for `only_physical_legs` on other
boundary conditions. -/
def getTotalCharge (ci : ChInfo G) (finite : Bool) (sites : List (QSite G α)) (seg : Option (G × G))
    (onlyPhys : Bool) : Option G :=
  let q0 := sumG (sites.map (·.qtot))
  let q1 := match seg with
    | some (u, v) => q0 + (u + v)
    | none => q0
  if onlyPhys then
    if !finite then none
    else
      match sites.head?, sites.getLast? with
      | some f, some l => some (ci.mv (q1 + -(f.vL.charge 0) + -(l.vR.charge 0)))
      | _, _ => none
  else some (ci.mv q1)

/-- the loop `for i in range(L)` of `MPS.gauge_total_charge`: `pend` is the change of `qtotal`
handed to the current tensor by its left neighbour (`nextB.gauge_total_charge('vL', nextB.qtotal + chdiff)`). -/
def gaugeLoop (ci : ChInfo G) : Option G → List (QSite G α) → List G → List (QSite G α)
  | _, [], _ => []
  | pend, s :: rest, ds =>
    let s1 := match pend with
      | some c => s.gaugeL ci (s.qtot + c) s.vL.pos
      | none => s
    let desired := ds.headD 0
    let chdiff := s1.qtot + -desired
    if ci.isZero chdiff then s1 :: gaugeLoop ci none rest ds.tail
    else s1.gaugeR ci desired :: gaugeLoop ci (some chdiff) rest ds.tail

/-- `test_equal` (`LegCharge.__eq__`): same block structure (here: same dimension) and
`make_valid(charges * qconj)` equal -/
def legEqual (ci : ChInfo G) (isEq : G → G → Bool) (a b : VLeg G) : Bool :=
  a.dim == b.dim && (List.range a.dim).all (fun i => isEq (ci.mv (a.charge i)) (ci.mv (b.charge i)))

/-- `test_contractible(other) = test_equal(other.conj())` -/
def legContractible (ci : ChInfo G) (isEq : G → G → Bool) (a b : VLeg G) : Bool :=
  a.dim == b.dim && (List.range a.dim).all (fun i => isEq (ci.mv (a.charge i)) (ci.mv (-(b.charge i))))

/-- the `qtotal` argument of `MPS.gauge_total_charge` -/
inductive QArg (G : Type v) where
  | none
  | one (q : G)
  | perSite (qs : List G)

inductive GaugeErr where
  | notImplemented   -- segment boundaries set
  | wrongShape       -- `ValueError('wrong shape of qtotal')`
  | legMismatch      -- `test_equal` / `test_contractible` raised
  | assertion        -- the `assert` after the loop
deriving DecidableEq, Repr

/-- `MPS.gauge_total_charge(qtotal, vL_leg, vR_leg)`; `isEq` compares two charge values exactly
(numpy `array_equal`).  Returns the new tensors' charge data (the entries `M` are never touched). -/
def gaugeTotalCharge (ci : ChInfo G) (isEq : G → G → Bool) (infinite hasSeg : Bool)
    (sites : List (QSite G α)) (qarg : QArg G) (vLleg vRleg : Option (VLeg G)) :
    Except GaugeErr (List (QSite G α)) :=
  if ci.trivial then .ok sites
  else if hasSeg then .error .notImplemented
  else
    match sites.head?, sites.getLast? with
    | some f, some l =>
      let L := sites.length
      let vLdiff := vLleg.map (fun leg => leg.charge 0 + -(f.vL.charge 0))
      let vRdiff := vRleg.map (fun leg => leg.charge 0 + -(l.vR.charge 0))
      -- `if qtotal is None: if vL_leg is not None and vR_leg is not None: qtotal = get_total_charge() + …`
      let qarg' : QArg G := match qarg, vLdiff, vRdiff with
        | .none, some dl, some dr => .one (ci.mv (sumG (sites.map (·.qtot))) + dl + dr)
        | q, _, _ => q
      -- `make_valid`, a single charge goes to the last site
      let desired? : Option (List G) := match qarg' with
        | .none => some (List.replicate (L - 1) 0 ++ [ci.mv 0])
        | .one q => some (List.replicate (L - 1) 0 ++ [ci.mv q])
        | .perSite qs => if qs.length = L then some (qs.map ci.mv) else none
      match desired? with
      | none => .error .wrongShape
      | some desired =>
        -- adjust the left leg
        let step1 : Except GaugeErr (List (QSite G α)) := match vLleg, vLdiff with
          | some leg, some dl =>
            let f' := if ci.isZero dl then f else f.gaugeL ci (f.qtot + dl) leg.pos
            if legEqual ci isEq f'.vL leg then .ok (f' :: sites.tail) else .error .legMismatch
          | _, _ => .ok sites
        match step1 with
        | .error e => .error e
        | .ok sites1 =>
          let out := gaugeLoop ci none sites1 desired
          if !(isEq (ci.mv (sumG (out.map (·.qtot)))) (ci.mv (sumG desired))) then .error .assertion
          else
            match out.head?, out.getLast? with
            | some f2, some l2 =>
              if (match vRleg with | some leg => !(legEqual ci isEq l2.vR leg) | none => false) then
                .error .legMismatch
              else if infinite && !(legContractible ci isEq f2.vL l2.vR) then .error .legMismatch
              else .ok out
            | _, _ => .ok out
    | _, _ => .ok sites

/-- charge rule of one tensor (`Array.test_sanity` / block sparsity): a non-zero entry sits in a
block whose leg charges add up to `qtotal`. -/
def QSite.Rule [DecidableEq G] (ci : ChInfo G) (nz : α → Bool) (s : QSite G α) : Bool :=
  (List.range s.vL.dim).all (fun a => (List.range s.d).all (fun p => (List.range s.vR.dim).all (fun b =>
    !(nz (s.M a p b)) || decide (ci.mv (s.vL.charge a + s.qp p + s.vR.charge b) = ci.mv s.qtot))))

end grp
end TenpyModel.C07Ext
