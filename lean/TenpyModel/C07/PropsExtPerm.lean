import TenpyModel.C07.Props
/-!
# C07 extension round, part D — the basis permutation of `from_product_state`

`from_product_state(…, permute=True)` reads an `int` / 1D-array entry of `p_state` in the basis order of
the site WITHOUT charge conservation and stores `B = B[site.perm]`: new position `j` holds the entry
of old basis state `site.perm[j]`.  A string label is translated with `site.state_labels`
(`= inverse_permutation(perm)[old]`) and is NOT permuted.  The model is `localAmp` /
`fromProductState` of `TenpyModel/MPS/Basic.lean` (tied entry by entry by `drivers/C07ext.lean`, op
`pstate`).  `perm`, `inv` are functions on ℕ, inverse to each other (identity outside the site).
-/
open TenpyModel.MPS TenpyModel.MPS.MPSM

universe u
variable {α : Type u}

set_option linter.unusedSectionVars false
set_option linter.unusedSimpArgs false
section ring
variable [Zero α] [One α] [Add α] [Mul α]

/-- **the entry of old basis state `k` lands at position `inverse_perm[k]`** (1D-array entry). -/
theorem C07_pstate_entry_lands (perm inv : Nat → Nat → Nat) (labelled : Nat → Bool) (ps : Nat → PState α)
    (i k : Nat) (uvec : Nat → α) (hps : ps i = .vec uvec) (hlab : labelled i = false)
    (hinv : perm i (inv i k) = k) :
    localAmp perm true labelled ps i (inv i k) = uvec k := by
  simp [localAmp, hps, hlab, hinv]

/-- **an `int` entry `k` becomes the basis vector at position `inverse_perm[k]`** and nothing else. -/
theorem C07_pstate_int_lands (perm inv : Nat → Nat → Nat) (labelled : Nat → Bool) (ps : Nat → PState α)
    (i k : Nat) (hps : ps i = .idx k) (hlab : labelled i = false)
    (h1 : ∀ p, inv i (perm i p) = p) (h2 : ∀ q, perm i (inv i q) = q) (p : Nat) :
    localAmp perm true labelled ps i p = delta p (inv i k) := by
  simp only [localAmp, hps, hlab, Bool.not_false, Bool.and_self, if_true, delta]
  by_cases h : perm i p = k
  · have : p = inv i k := by rw [← h, h1]
    subst this
    simp [h2]
  · have : p ≠ inv i k := fun e => h (by rw [e, h2])
    simp [h, this]

/-- with `permute=False` (or a label) the entry is stored as given -/
theorem C07_pstate_unpermuted (perm : Nat → Nat → Nat) (permute : Bool) (labelled : Nat → Bool)
    (ps : Nat → PState α) (i p : Nat) (h : permute = false ∨ labelled i = true) :
    localAmp perm permute labelled ps i p = (match ps i with | .idx k => delta p k | .vec uvec => uvec p) := by
  rcases h with h | h <;> simp [localAmp, h] <;> cases ps i <;> rfl

end ring

/-- **int and label specification of the same state agree**: `p_state = [k₀, k₁, …]` (indices of the
`conserve=None` basis, `permute=True`) denotes the same MPS state as the labels translated by
`state_labels = inverse_perm` — every amplitude, any stored form. -/
theorem C07_pstate_label_int_agree [CommSemiring α] (L : Nat) (d : Nat → Nat) (perm inv : Nat → Nat → Nat)
    (k : Nat → Nat) (f : Option Form)
    (h1 : ∀ i p, inv i (perm i p) = p) (h2 : ∀ i q, perm i (inv i q) = q) (σ : List Nat) :
    (fromProductState L d perm true (fun _ => false) (fun i => PState.idx (α := α) (k i)) f BC.finite).toState σ
      = (fromProductState L d perm true (fun _ => true) (fun i => PState.idx (α := α) (inv i (k i))) f
          BC.finite).toState σ := by
  rw [C07_product_state, C07_product_state]
  congr 1
  have : localAmp perm true (fun _ => false) (fun i => PState.idx (α := α) (k i))
      = localAmp perm true (fun _ => true) (fun i => PState.idx (α := α) (inv i (k i))) := by
    funext i p
    rw [C07_pstate_int_lands perm inv _ _ i (k i) rfl rfl (h1 i) (h2 i) p]
    simp [localAmp]
  rw [this]

/-! ### non-vacuity, and why `perm` vs `inverse_permutation(perm)` matters -/
namespace C07ExtPermExamples

/-- `SpinHalfHoleSite(cons_Sz='Sz').perm = [2, 0, 1]` (a 3-cycle), inverse `[1, 2, 0]` -/
def perm3 : Nat → Nat → Nat := fun _ p => [2, 0, 1].getD p p
def inv3 : Nat → Nat → Nat := fun _ p => [1, 2, 0].getD p p

theorem perm3_inv : (∀ i p, inv3 i (perm3 i p) = p) ∧ (∀ i q, perm3 i (inv3 i q) = q) := by
  constructor <;> intro i p <;>
    rcases (by omega : p = 0 ∨ p = 1 ∨ p = 2 ∨ 3 ≤ p) with rfl | rfl | rfl | h <;>
    first | rfl | (simp [perm3, inv3, List.getD, h, List.getElem?_eq_none])

/-- old state 0 is stored at position `inv[0] = 1` … -/
example : (List.range 3).map (localAmp perm3 true (fun _ => false) (fun _ => PState.idx (α := Int) 0) 0)
    = [0, 1, 0] := by decide
/-- … permuting with the inverse instead would put it at position 2: a different state. -/
example : (List.range 3).map (localAmp inv3 true (fun _ => false) (fun _ => PState.idx (α := Int) 0) 0)
    = [0, 0, 1] := by decide

example (σ : List Nat) :
    (fromProductState 2 (fun _ => 3) perm3 true (fun _ => false) (fun i => PState.idx (α := Int) ([0, 2].getD i 0))
        (some (0, 2)) BC.finite).toState σ
      = (fromProductState 2 (fun _ => 3) perm3 true (fun _ => true)
          (fun i => PState.idx (α := Int) (inv3 i ([0, 2].getD i 0))) (some (0, 2)) BC.finite).toState σ :=
  C07_pstate_label_int_agree 2 _ perm3 inv3 _ _ perm3_inv.1 perm3_inv.2 σ

end C07ExtPermExamples
