import TenpyModel.C07.ExtCoverProofs
/-!
# C07 extension round, part A — `from_product_mps_covering` / `from_singlets`

Property theorems about the model `TenpyModel/C07/ExtCover.lean` of the tensor assembly in
`tenpy/networks/mps.py :: MPS.from_product_mps_covering`.  All chain lengths, all numbers and sizes
of local MPS, all bond and physical dimensions, every commutative semiring.
-/
open TenpyModel.MPS TenpyModel.C07Ext

universe u
variable {α : Type u}

section semiring
variable [CommSemiring α]

/-- **Through-lines carry the local state unchanged.**  The `B_parts` one local MPS contributes to
the `L` sites of the new chain (own tensors on the sites of its sorted index map `im`, `Triv`
in between and the `1×1` identity outside its span) contract, for every configuration `σ` of the
new chain, to the amplitude of the local MPS on the physical indices `σ` assigns to its sites. -/
theorem C07_covering_through_lines (dphys : Nat → Nat) (L : Nat) (im : List Nat) (ls : List (RSite α))
    (σ : List Nat) (hσ : σ.length = L) (hc : ChainOK 1 ls) (hlen : im.length = ls.length)
    (hs : im.Pairwise (· < ·)) (hhi : ∀ j ∈ im, j < L) (hlast : 0 < lastDim 1 ls) :
    contract (fun a => delta a 0) (padChain dphys L 0 1 im ls) σ 0
      = contract (fun a => delta a 0) ls (pickCfg 0 im σ) 0 :=
  contract_padChain dphys L 0 1 im ls _ σ hσ hc hlen hs (fun _ _ => Nat.zero_le _)
    (fun j hj => by have := hhi j hj; omega) 0 hlast

/-- the physical indices picked for a local MPS are those at the positions of its index map -/
theorem C07_pickCfg_eq (σ : List Nat) :
    ∀ (i0 : Nat) (im : List Nat), im.Pairwise (· < ·) → (∀ j ∈ im, i0 ≤ j) →
      (∀ j ∈ im, j < i0 + σ.length) → pickCfg i0 im σ = im.map (fun j => σ.getD (j - i0) 0) := by
  induction σ with
  | nil =>
    intro i0 im _ hlo hhi
    cases im with
    | nil => rfl
    | cons j im => have := hlo j (by simp); have := hhi j (by simp); simp at *; omega
  | cons p ps ih =>
    intro i0 im hs hlo hhi
    cases im with
    | nil => rfl
    | cons j im =>
      have hs' := List.pairwise_cons.mp hs
      by_cases hij : i0 = j
      · subst hij
        simp only [pickCfg, if_true, List.map_cons, Nat.sub_self, List.getD_cons_zero, List.cons.injEq, true_and]
        rw [ih (i0 + 1) im hs'.2 (fun k hk => by have := hs'.1 k hk; omega)
          (fun k hk => by have := hhi k (by simp [hk]); simp at this; omega)]
        refine List.map_congr_left (fun k hk => ?_)
        have := hs'.1 k hk
        have e : k - i0 = (k - (i0 + 1)) + 1 := by omega
        rw [e, List.getD_cons_succ]
      · have hj := hlo j (by simp)
        simp only [pickCfg, hij, if_false]
        rw [ih (i0 + 1) (j :: im) hs
          (fun k hk => by
            rcases List.mem_cons.mp hk with rfl | hk'
            · omega
            · have := hs'.1 k hk'; omega)
          (fun k hk => by have := hhi k hk; simp at this; omega)]
        refine List.map_congr_left (fun k hk => ?_)
        have hk' : i0 + 1 ≤ k := by
          rcases List.mem_cons.mp hk with rfl | hk'
          · omega
          · have := hs'.1 k hk'; omega
        have e : k - i0 = (k - (i0 + 1)) + 1 := by omega
        rw [e, List.getD_cons_succ]

/-- **Combining two lines of parts** (`npc.outer(B, B2).combine_legs(...)` site by site): the
combined chain contracts to the product of the two chains, for all start vectors and every
open right index `b * m2 + b2`. -/
theorem C07_covering_kron (c1 c2 : List (RSite α)) (n2 : Nat) (v w : Vec α) (σ : List Nat)
    (hc : ChainOK n2 c2) (hlen : c1.length = c2.length) (b b2 : Nat) (hb2 : b2 < lastDim n2 c2) :
    contract (kronVec n2 v w) (kronChain c1 c2) σ (b * lastDim n2 c2 + b2)
      = contract v c1 σ b * contract w c2 σ b2 := by
  rw [contract_kron c1 c2 n2 v w σ hc hlen]
  obtain ⟨h1, h2⟩ := divmod_lin b b2 _ hb2
  simp only [kronVec, h1, h2]

/-- **The assembled chain denotes the product of its parts**: any number of full-length lines of
parts, combined from the left in the order of `mps_covering`. -/
theorem C07_covering_state (c : List (RSite α)) (cs : List (List (RSite α))) (σ : List Nat)
    (h : ∀ c' ∈ cs, ChainOK 1 c' ∧ c'.length = c.length) :
    contract (fun a => delta a 0) (coverChain (c :: cs)) σ 0
      = ((c :: cs).map (fun c' => contract (fun a => delta a 0) c' σ 0)).prod := by
  simp only [coverChain, List.map_cons, List.prod_cons]
  rw [contract_foldl_kron cs c σ h]
  congr 1
  unfold prodAmps
  have : ∀ (x : α), cs.foldl (fun acc c => acc * contract (fun a => delta a 0) c σ 0) x
      = x * (cs.map (fun c' => contract (fun a => delta a 0) c' σ 0)).prod := by
    induction cs with
    | nil => intro x; simp
    | cons d ds ih =>
      intro x
      simp only [List.foldl_cons, List.map_cons, List.prod_cons]
      rw [ih (fun c' hc' => h c' (by simp [hc'])) (x * _)]
      ring
  rw [this 1, one_mul]

/-- **`from_product_mps_covering` denotes the product of the local states.**  For local MPS
`l₀, l₁, …` with sorted index maps inside `[0, L)`, the chain assembled by the code has, on every
configuration `σ` of the `L` sites, the amplitude `Π_k ψ_k(σ restricted to the sites of l_k)`. -/
theorem C07_covering_denotes (dphys : Nat → Nat) (L : Nat) (l : List Nat × List (RSite α))
    (locals : List (List Nat × List (RSite α))) (σ : List Nat) (hσ : σ.length = L)
    (hl : LocalOK L l) (hls : ∀ l' ∈ locals, LocalOK L l') :
    contract (fun a => delta a 0)
        (coverChain ((l :: locals).map (fun l' => padChain dphys L 0 1 l'.1 l'.2))) σ 0
      = ((l :: locals).map (fun l' =>
          contract (fun a => delta a 0) l'.2 (l'.1.map (fun j => σ.getD j 0)) 0)).prod := by
  simp only [List.map_cons]
  rw [C07_covering_state _ _ σ (by
    intro c' hc'
    obtain ⟨l', hl', rfl⟩ := List.mem_map.mp hc'
    have h' := hls l' hl'
    exact ⟨padChain_chainOK dphys L 0 1 _ _ h'.chain h'.len, by rw [padChain_length, padChain_length]⟩)]
  simp only [List.map_cons, List.map_map]
  have key : ∀ l' : List Nat × List (RSite α), LocalOK L l' →
      contract (fun a => delta a 0) (padChain dphys L 0 1 l'.1 l'.2) σ 0
        = contract (fun a => delta a 0) l'.2 (l'.1.map (fun j => σ.getD j 0)) 0 := by
    intro l' h'
    rw [C07_covering_through_lines dphys L l'.1 l'.2 σ hσ h'.chain h'.len h'.sorted h'.inside h'.last,
      C07_pickCfg_eq σ 0 l'.1 h'.sorted (fun _ _ => Nat.zero_le _)
        (fun j hj => by have := h'.inside j hj; omega)]
    simp
  rw [key l hl]
  congr 1
  congr 1
  refine List.map_congr_left (fun l' hl' => ?_)
  exact key l' (hls l' hl')

/-- **Singular values of the covering are normalised when the local ones are**:
`Σ np.outer(SR, SR2).flatten()² = (Σ SR²)(Σ SR2²)`. -/
theorem C07_covering_schmidt_norm (m n : Nat) (S S2 : Vec α) :
    sumN (m * n) (fun a => kronVec n S S2 a * kronVec n S S2 a)
      = sumN m (fun a => S a * S a) * sumN n (fun a => S2 a * S2 a) := by
  rw [← sumN_kronVec m n (fun a => S a * S a) (fun a => S2 a * S2 a)]
  exact sumN_congr (fun a _ => by simp only [kronVec]; ring)

/-- **The covering of canonical local MPS is canonical** (`norm_test`): a right-isometric `'B'`
tensor combined with any number of through-lines on either side stays right-isometric; the lines
themselves combine to one line. -/
theorem C07_covering_canonical {cj : α → α} (hcj : ConjLike cj) (h1 : cj 1 = 1) (s : RSite α)
    (n1 n2 : Nat) (hs : RightIso cj s) :
    RightIso cj (kronSite (kronSite (thru n1 s.d) s) (thru n2 s.d)) ∧
    (∀ m1 m2 d, (kronSite (thru m1 d) (thru m2 d) : RSite α) = thru (m1 * m2) d) := by
  refine ⟨?_, kronSite_thru⟩
  have hA := rightIso_kron_thru_left hcj h1 s n1 hs
  have := rightIso_kron_thru_right hcj h1 (kronSite (thru n1 s.d) s) n2 hA
  exact this

end semiring

section ring
variable [CommRing α]

/-- **The local state of `from_singlets`**: the two-site chain denotes
`c·(|up,down⟩ − |down,up⟩)`. -/
theorem C07_singlet_pair (d up down : Nat) (c : α) (p q : Nat) :
    contract (fun a => delta a 0) (singletChain d up down c) [p, q] 0
      = c * (delta p up * delta q down - delta p down * delta q up) := by
  simp only [singletChain, contract, vstep, sumN, delta]
  split_ifs <;> (try (exfalso; omega)) <;> ring

theorem C07_lonely_site (d st p : Nat) :
    contract (fun a => (delta a 0 : α)) (lonelyChain d st) [p] 0 = delta p st := by
  simp [lonelyChain, contract, vstep, sumN, delta]

/-- **`from_singlets` denotes the product of singlets**: for pairs `(i, j)`, `i < j`, and lonely
sites inside `[0, L)`, the assembled chain has amplitude
`Π_pairs c (δ(σ_i,up) δ(σ_j,down) − δ(σ_i,down) δ(σ_j,up)) · Π_lonely δ(σ_l, lonely_state)`. -/
theorem C07_from_singlets (dphys : Nat → Nat) (L d up down st : Nat) (c : α) (i0 j0 : Nat)
    (pairs : List (Nat × Nat)) (lonely : List Nat) (σ : List Nat) (hσ : σ.length = L)
    (h0 : i0 < j0 ∧ j0 < L) (hp : ∀ ij ∈ pairs, ij.1 < ij.2 ∧ ij.2 < L) (hl : ∀ l ∈ lonely, l < L) :
    contract (fun a => delta a 0)
        (coverChain ((([i0, j0], singletChain d up down c) ::
            (pairs.map (fun ij => ([ij.1, ij.2], singletChain d up down c)) ++
             lonely.map (fun l => ([l], lonelyChain d st)))).map
          (fun l' => padChain dphys L 0 1 l'.1 l'.2))) σ 0
      = (((i0, j0) :: pairs).map (fun ij =>
            c * (delta (σ.getD ij.1 0) up * delta (σ.getD ij.2 0) down
                 - delta (σ.getD ij.1 0) down * delta (σ.getD ij.2 0) up))).prod
        * (lonely.map (fun l => (delta (σ.getD l 0) st : α))).prod := by
  have hsing : ∀ i j, i < j → j < L → LocalOK L ([i, j], singletChain d up down c) := by
    intro i j hij hj
    exact ⟨⟨rfl, rfl, trivial⟩, rfl, by simp [hij], by intro k hk; simp at hk; omega, by simp [singletChain, lastDim]⟩
  have hlone : ∀ l, l < L → LocalOK L ([l], lonelyChain (α := α) d st) := by
    intro l hl'
    exact ⟨⟨rfl, trivial⟩, rfl, by simp, by intro k hk; simp at hk; omega, by simp [lonelyChain, lastDim]⟩
  rw [C07_covering_denotes dphys L _ _ σ hσ (hsing i0 j0 h0.1 h0.2) (by
    intro l' hl'
    rcases List.mem_append.mp hl' with h | h
    · obtain ⟨ij, hij, rfl⟩ := List.mem_map.mp h
      exact hsing _ _ (hp ij hij).1 (hp ij hij).2
    · obtain ⟨l, hl'', rfl⟩ := List.mem_map.mp h
      exact hlone l (hl l hl''))]
  simp only [List.map_cons, List.map_append, List.map_map, List.prod_cons, List.prod_append, List.map_nil,
    Function.comp_def, C07_singlet_pair, C07_lonely_site]
  ring

end ring

/-! ### non-vacuity -/

namespace C07ExtCoverExamples

/-- two crossing singlets `(0,2)` and `(1,3)` on four spin-1/2 sites over ℤ (`c = 1`): the
assembled tensors have bond dimension 2·2 in the middle and the state is the product of singlets -/
def demo : List (RSite Int) :=
  coverChain ([([0, 2], singletChain 2 0 1 (1 : Int)), ([1, 3], singletChain 2 0 1 1)].map
    (fun l' => padChain (fun _ => 2) 4 0 1 l'.1 l'.2))

example : (demo.map (·.dR)) = [2, 4, 2, 1] := by decide
example : contract (fun a => delta a 0) demo [0, 1, 1, 0] 0 = -1 := by decide
example : contract (fun a => delta a 0) demo [0, 0, 1, 1] 0 = 1 := by decide
example : contract (fun a => delta a 0) demo [0, 0, 0, 1] 0 = 0 := by decide

/-- instance of `C07_from_singlets` (hypotheses are satisfiable) -/
example (σ : List Nat) (hσ : σ.length = 4) :
    contract (fun a => delta a 0)
        (coverChain ((([0, 2], singletChain 2 0 1 (1 : Int)) ::
            ([(1, 3)].map (fun ij => ([ij.1, ij.2], singletChain 2 0 1 (1 : Int))) ++
             ([] : List Nat).map (fun l => ([l], lonelyChain 2 0)))).map
          (fun l' => padChain (fun _ => 2) 4 0 1 l'.1 l'.2))) σ 0
      = (((0, 2) :: [(1, 3)]).map (fun ij =>
            (1 : Int) * (delta (σ.getD ij.1 0) 0 * delta (σ.getD ij.2 0) 1
                 - delta (σ.getD ij.1 0) 1 * delta (σ.getD ij.2 0) 0))).prod
        * (([] : List Nat).map (fun l => (delta (σ.getD l 0) 0 : Int))).prod :=
  C07_from_singlets (fun _ => 2) 4 2 0 1 0 1 0 2 [(1, 3)] [] σ hσ (by decide) (by decide) (by decide)

/-- the right-isometry hypothesis of `C07_covering_canonical` holds for the second singlet tensor -/
example : RightIso (fun x : Int => x) ((singletChain 2 0 1 (1 : Int)).getD 1 (thru 1 2)) := by
  intro a' a ha' ha
  have ha2 : a < 2 := ha
  have ha2' : a' < 2 := ha'
  rcases (by omega : a = 0 ∨ a = 1) with rfl | rfl <;> rcases (by omega : a' = 0 ∨ a' = 1) with rfl | rfl <;> decide

end C07ExtCoverExamples
