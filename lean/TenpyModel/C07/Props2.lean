import TenpyModel.MPS.P2_Sweep
import TenpyModel.MPS.P2_FromFull
import TenpyModel.MPS.P2_Entropy
/-!
# C07 — second round: `canonical_form_finite`, `from_full`, entropies from the stored `S`

The numerical routines (`npc.qr`, `npc.svd`, `np.linalg.norm`) enter as PARAMETERS with their
post-conditions (`QRSpec`: `M = Q R`, `Q` isometric; `SVSpec`: `M = (U S) V`, `V` co-isometric;
`ν · ν⁻¹ = 1` for every number divided out), required exactly on the inputs they receive during the
run.  Everything else — which tensor is factorized, where `R` / `U S` is absorbed, what is
multiplied into `psi.norm` — is the executable model `TenpyModel/MPS/P2_Sweep.lean`,
`P2_FromFull.lean` of the code.  All chain lengths and dimensions, every commutative semiring.
-/
open TenpyModel.MPS

universe u
variable {α : Type u} [CommSemiring α]
set_option linter.unusedSectionVars false

/-- **`canonical_form_finite` leaves the state (times the weight divided out) unchanged and
produces isometric tensors.**  `ss` are the tensors the routine starts from (`get_B(0,'Th')`,
`get_B(i,'B')`, or the stored `_B` if a form is `None`); `canonFinite` runs the QR sweep left to
right (`M/|M| = Q R`, `R` into the right neighbour) and the SVD sweep right to left
(`M = (U S) V`, `U S/|S|` into the left neighbour).  Then for every start vector, configuration and
open right index
* `(tracked norm factor · dropped factor) · contract(new tensors) = contract(old tensors)`,
* the new chain has the same length and consistent bond dimensions,
* after the QR sweep every stored tensor is left-isometric (`'A'`),
* at the end every tensor right of site 0 is right-isometric (`'B'`); site 0 is `V·U[0,0]`
  (see `C07_canonical_form_site0`). -/
theorem C07_canonical_form_finite_state (renorm : Bool) (nz nzS : RSite α → α × α)
    (qr : RSite α → RSite α × Mat α) (sv : RSite α → Mat α × RSite α) {cj : α → α}
    (hnz : ∀ s, (nz s).1 * (nz s).2 = 1) (hnzS : ∀ s, (nzS s).1 * (nzS s).2 = 1)
    (s0 : RSite α) (rest : List (RSite α)) (n0 : Nat) (hc : ChainOK n0 (s0 :: rest))
    (hqr : ∀ s ∈ canonCallsL nz qr (s0 :: rest), QRSpec cj qr s)
    (hsv : ∀ s ∈ canonCallsR renorm nz qr nzS sv (s0 :: rest), SVSpec cj sv s) :
    (∀ (v : Vec α) (σ : List Nat) c, c < lastDim n0 (s0 :: rest) →
        wt (canonFinite renorm nz qr nzS sv (s0 :: rest)).2 *
            contract v (canonFinite renorm nz qr nzS sv (s0 :: rest)).1 σ c
          = contract v (s0 :: rest) σ c) ∧
    (canonFinite renorm nz qr nzS sv (s0 :: rest)).1.length = (s0 :: rest).length ∧
    ChainOK n0 (canonFinite renorm nz qr nzS sv (s0 :: rest)).1 ∧
    lastDim n0 (canonFinite renorm nz qr nzS sv (s0 :: rest)).1 = lastDim n0 (s0 :: rest) ∧
    (∀ t ∈ (sweepL renorm nz qr s0 rest (1, 1)).1, LeftIso cj t) ∧
    (∀ (v : Vec α) (σ : List Nat) c, c < lastDim n0 (s0 :: rest) →
        wt (sweepL renorm nz qr s0 rest (1, 1)).2.2 *
            contract v ((sweepL renorm nz qr s0 rest (1, 1)).1 ++ [(sweepL renorm nz qr s0 rest (1, 1)).2.1]) σ c
          = contract v (s0 :: rest) σ c) ∧
    (∀ t ∈ (canonFinite renorm nz qr nzS sv (s0 :: rest)).1.tail, RightIso cj t) := by
  obtain ⟨h1, h2, h3, h4, h5⟩ := canonFinite_state renorm nz nzS qr sv hnz hnzS (s0 :: rest) (by simp) n0 hc
    hqr hsv
  refine ⟨h1, h4, h2, h3, (sweepL_shape renorm nz qr rest s0 (1, 1) n0 hc hqr).2.2.2, ?_, h5⟩
  intro v σ c hcl
  have := sweepL_state renorm nz qr hnz rest s0 (1, 1) n0 v σ hc hqr c hcl
  rw [this]; simp [wt]

/-- the tensor stored on site 0 at the end (`V` times the `1×1` matrix `U[0,0]`) is right-isometric
as soon as the matrix multiplied back has orthonormal rows (a unit number for a finite chain):
`Y Y† = 1`, `V` co-isometric ⇒ `Y·V` co-isometric. -/
theorem C07_canonical_form_site0 {cj : α → α} (hcj : ConjLike cj) (Y : Mat α) (n : Nat) (V : RSite α)
    (hV : RightIso cj V)
    (hY : ∀ a' a, a' < n → a < n → sumN V.dL (fun k => cj (Y a' k) * Y a k) = delta a' a) :
    RightIso cj (mulLeft Y n V) := by
  intro a' a ha' ha
  simp only [mulLeft] at ha' ha ⊢
  rw [← hY a' a ha' ha]
  calc sumN V.d (fun p => sumN V.dR (fun b =>
          cj (sumN V.dL (fun k => Y a' k * V.M k p b)) * sumN V.dL (fun k' => Y a k' * V.M k' p b)))
      = sumN V.d (fun p => sumN V.dR (fun b => sumN V.dL (fun k => sumN V.dL (fun k' =>
          cj (Y a' k) * Y a k' * (cj (V.M k p b) * V.M k' p b))))) :=
        sumN_congr (fun p _ => sumN_congr (fun b _ => by
          rw [hcj.sumN, sumN_mul]
          refine sumN_congr (fun k _ => ?_)
          rw [mul_sumN]
          exact sumN_congr (fun k' _ => by rw [hcj.mul]; ring)))
    _ = sumN V.d (fun p => sumN V.dL (fun k => sumN V.dR (fun b => sumN V.dL (fun k' =>
          cj (Y a' k) * Y a k' * (cj (V.M k p b) * V.M k' p b))))) :=
        sumN_congr (fun p _ => sumN_comm _ _ _)
    _ = sumN V.dL (fun k => sumN V.d (fun p => sumN V.dR (fun b => sumN V.dL (fun k' =>
          cj (Y a' k) * Y a k' * (cj (V.M k p b) * V.M k' p b))))) := sumN_comm _ _ _
    _ = sumN V.dL (fun k => sumN V.d (fun p => sumN V.dL (fun k' => sumN V.dR (fun b =>
          cj (Y a' k) * Y a k' * (cj (V.M k p b) * V.M k' p b))))) :=
        sumN_congr (fun k _ => sumN_congr (fun p _ => sumN_comm _ _ _))
    _ = sumN V.dL (fun k => sumN V.dL (fun k' => sumN V.d (fun p => sumN V.dR (fun b =>
          cj (Y a' k) * Y a k' * (cj (V.M k p b) * V.M k' p b))))) :=
        sumN_congr (fun k _ => sumN_comm _ _ _)
    _ = sumN V.dL (fun k => sumN V.dL (fun k' => cj (Y a' k) * Y a k' * delta k k')) :=
        sumN_congr (fun k hk => sumN_congr (fun k' hk' => by
          rw [← hV k k' hk hk', mul_sumN]
          exact sumN_congr (fun p _ => by rw [mul_sumN])))
    _ = _ := sumN_congr (fun k hk => by
        rw [show (fun k' => cj (Y a' k) * Y a k' * delta k k') = (fun k' => delta k k' * (cj (Y a' k) * Y a k'))
              from funext (fun k' => by ring), sumN_delta_left']
        simp [hk])

theorem sweepL_lost (nz : RSite α → α × α) (qr : RSite α → RSite α × Mat α) (rest : List (RSite α)) :
    ∀ (cur : RSite α) (nl : α × α), (sweepL false nz qr cur rest nl).2.2.2 = nl.2 := by
  induction rest with
  | nil => intro cur nl; simp [sweepL, updNorm]
  | cons t rest ih => intro cur nl; simp only [sweepL]; rw [ih]; simp [updNorm]

theorem sweepR_lost (nzS : RSite α → α × α) (sv : RSite α → Mat α × RSite α) (revPre : List (RSite α)) :
    ∀ (first : Bool) (cur : RSite α) (done : List (RSite α)) (nl : α × α),
      (∀ s ∈ (if first then (sweepRCalls nzS sv revPre cur).tail else sweepRCalls nzS sv revPre cur),
        (nzS s).1 = 1) →
      (sweepR false nzS sv first revPre cur done nl).2.2 = nl.2 := by
  induction revPre with
  | nil =>
    intro first cur done nl h
    cases first
    · have := h cur (by simp [sweepRCalls])
      simp [sweepR, updNorm, this]
    · simp [sweepR, updNorm]
  | cons s revPre ih =>
    intro first cur done nl h
    simp only [sweepR]
    rw [ih false _ _ _ (by
      intro s' hs'
      cases first
      · exact h s' (by simp only [sweepRCalls, Bool.false_eq_true, if_false, List.mem_cons]; exact Or.inr hs')
      · exact h s' (by simpa [sweepRCalls] using hs'))]
    cases first
    · have := h cur (by simp [sweepRCalls])
      simp [updNorm, this]
    · simp [updNorm]

/-- **`renormalize=False`: the state times the recorded norm is unchanged.**  The code multiplies
`psi.norm` by every `|M_i|` of the QR sweep and by `|S|` of the FIRST SVD only; the later `|S|` are
dropped.  They equal 1 for an isometric rest of the chain (hypothesis `hone`; with it nothing is
lost): `norm · tracked factor · contract(new) = norm · contract(old)`. -/
theorem C07_canonical_form_finite_norm (nz nzS : RSite α → α × α)
    (qr : RSite α → RSite α × Mat α) (sv : RSite α → Mat α × RSite α) {cj : α → α}
    (hnz : ∀ s, (nz s).1 * (nz s).2 = 1) (hnzS : ∀ s, (nzS s).1 * (nzS s).2 = 1)
    (s0 : RSite α) (rest : List (RSite α)) (n0 : Nat) (hc : ChainOK n0 (s0 :: rest))
    (hqr : ∀ s ∈ canonCallsL nz qr (s0 :: rest), QRSpec cj qr s)
    (hsv : ∀ s ∈ canonCallsR false nz qr nzS sv (s0 :: rest), SVSpec cj sv s)
    (hone : ∀ s ∈ (canonCallsR false nz qr nzS sv (s0 :: rest)).tail, (nzS s).1 = 1)
    (norm : α) (v : Vec α) (σ : List Nat) (c : Nat) (hcl : c < lastDim n0 (s0 :: rest)) :
    (norm * (canonFinite false nz qr nzS sv (s0 :: rest)).2.1) *
        contract v (canonFinite false nz qr nzS sv (s0 :: rest)).1 σ c
      = norm * contract v (s0 :: rest) σ c := by
  have h := (C07_canonical_form_finite_state false nz nzS qr sv hnz hnzS s0 rest n0 hc hqr hsv).1 v σ c hcl
  have hl : (canonFinite false nz qr nzS sv (s0 :: rest)).2.2 = 1 := by
    simp only [canonFinite]
    rw [sweepR_lost nzS sv _ true _ _ _ (by simpa [canonCallsR] using hone), sweepL_lost]
  rw [← h]
  simp only [wt, hl]
  ring

/-- **`from_full`**: splitting `B[L-1], …, B[1]` off the dense wave function by exact
factorizations `psi = U·diag(S)·B` (`S` divided by `|S|` each time) gives tensors whose
contraction, times the product of the `|S_i|`, is the input wave function — for every
configuration of the `L = n + 2` sites.  (`normalize=False` records exactly that product as
`norm` when it equals `npc.norm(psi)`, i.e. for isometric `U`, `B`.) -/
theorem C07_from_full (nzS : Nat → α × α) (split : Nat → PsiT α → Split α)
    (hnz : ∀ i, (nzS i).1 * (nzS i).2 = 1) (d0 n : Nat) (ψ : List Nat → α)
    (hs : ∀ c ∈ fromFullCalls nzS split n ψ, SplitSpec split c.1 c.2)
    (σ : List Nat) (hσ : σ.length = n + 2) :
    (fromFull nzS split d0 n ψ).2 * contract (fun a => delta a 0) (fromFull nzS split d0 n ψ).1 σ 0 = ψ σ :=
  fromFull_state nzS split hnz d0 n ψ hs σ hσ

/-- **Entropies from the stored singular values.**  With the Schmidt certificate
(`Ψ = V diag(s) W`, `V†V = 1`, `W W† = 1`; `C07_schmidt_certificate`: the `s s̄` are eigenvalues of
`ρ_L` with eigenvectors the columns of `V`) every power of the reduced density matrix has trace
`tr ρ_L^n = Σ_a (s_a s̄_a)^n`, `n ≥ 1`.  The Rényi entropies `log(tr ρ^n)/(1-n)` computed by
`entanglement_entropy(n)` from `S²` are therefore those of the dense `ρ_L`; the von-Neumann entropy
`-Σ p log p` is a function of the same spectrum.  (The logarithm is outside the semiring: the
statement is the polynomial identity.) -/
theorem C07_entropy_from_S {cj : α → α} (hcj : ConjLike cj) (nL nR χ : Nat) (V : Mat α) (s : Vec α) (W : Mat α)
    (hV : ∀ a a', a < χ → a' < χ → sumN nL (fun l => cj (V l a) * V l a') = delta a a')
    (hW : ∀ a a', a < χ → a' < χ → sumN nR (fun r => W a r * cj (W a' r)) = delta a a') (m : Nat) :
    trN nL (matPowS nL (rhoL cj nR (schmidtPsi χ V s W)) m)
      = sumN χ (fun a => powN (s a * cj (s a)) (m + 1)) :=
  trace_rhoL_pow cj nL nR χ V s W hcj hV hW m

/-! ### non-vacuity: a concrete run over ℤ (signed-permutation isometries, `|M| = -1` as the
number divided out, so that every parameter is non-trivial) -/
namespace C07Examples2
open TenpyModel.MPS

/-- site 0: `M(0,p,b) = [[1,2],[3,4]]`, site 1: `M(c,p,0) = [[-4,0],[3,0]]`; state `2·|00⟩` -/
def e0 : RSite Int :=
  { dL := 1, d := 2, dR := 2, M := fun _ p b => if p = 0 ∧ b = 0 then 1 else if p = 0 ∧ b = 1 then 2 else if p = 1 ∧ b = 0 then 3
    else if p = 1 ∧ b = 1 then 4 else 0 }
def e1 : RSite Int :=
  { dL := 2, d := 2, dR := 1, M := fun c p _ => if c = 0 ∧ p = 0 then -4 else if c = 1 ∧ p = 0 then 3 else 0 }

def nzE : RSite Int → Int × Int := fun _ => (-1, -1)
def nzOne : RSite Int → Int × Int := fun _ => (1, 1)
/-- QR of a `1 × 2 × dR` tensor: `Q(0,p,k) = δ(p,k)`, `R(k,b) = M(0,k,b)` -/
def qrE : RSite Int → RSite Int × Mat Int := fun s =>
  ({ dL := 1, d := 2, dR := 2, M := fun _ p k => if p = k then 1 else 0 }, fun k b => s.M 0 k b)
/-- SVD-type factorization: a `2 × 2 × 1` tensor as `X·V`, `V(k,p,0) = δ(k,p)`; a `1 × 2 × 2` tensor
with the single entry `(0,0)` as `x·e₀₀` -/
def svE : RSite Int → Mat Int × RSite Int := fun s =>
  if s.dL = 2 then (fun a k => s.M a k 0, { dL := 2, d := 2, dR := 1, M := fun k p _ => if k = p then 1 else 0 })
  else (fun _ _ => s.M 0 0 0, { dL := 1, d := 2, dR := 2, M := fun _ p b => if p = 0 ∧ b = 0 then 1 else 0 })

theorem e_chain : ChainOK 1 [e0, e1] := ⟨rfl, rfl, trivial⟩

theorem e_qr : ∀ s ∈ canonCallsL nzE qrE [e0, e1], QRSpec (fun x => x) qrE s := by
  intro s hs
  simp only [canonCallsL, sweepLCalls, List.mem_singleton] at hs
  subst hs
  refine ⟨rfl, rfl, ?_, ?_⟩
  · intro a p b ha hb
    have ha0 : a = 0 := by have : a < 1 := ha; omega
    have hb' : b = 0 ∨ b = 1 := by have : b < 2 := hb; omega
    subst ha0
    rcases hb' with rfl | rfl <;> rcases p with _ | _ | p <;>
      simp [qrE, sumN, smulSite, e0, nzE]
  · intro b' b hb' hb
    have h1 : b' = 0 ∨ b' = 1 := by have : b' < 2 := hb'; omega
    have h2 : b = 0 ∨ b = 1 := by have : b < 2 := hb; omega
    rcases h1 with rfl | rfl <;> rcases h2 with rfl | rfl <;> decide

theorem e_sv : ∀ s ∈ canonCallsR false nzE qrE nzE svE [e0, e1], SVSpec (fun x => x) svE s := by
  intro s hs
  simp only [canonCallsR, sweepRCalls, sweepL, List.reverse_cons, List.reverse_nil, List.nil_append,
    List.mem_cons, List.not_mem_nil, or_false] at hs
  rcases hs with rfl | rfl
  · refine ⟨rfl, rfl, ?_, ?_⟩
    · intro a p b ha hb
      have ha' : a = 0 ∨ a = 1 := by have : a < 2 := ha; omega
      have hb0 : b = 0 := by have : b < 1 := hb; omega
      subst hb0
      rcases ha' with rfl | rfl <;> rcases p with _ | _ | p <;>
        simp [svE, qrE, sumN, smulSite, mulLeft, e0, e1, nzE]
    · intro a' a ha' ha
      have h1 : a' = 0 ∨ a' = 1 := by have : a' < 2 := ha'; omega
      have h2 : a = 0 ∨ a = 1 := by have : a < 2 := ha; omega
      rcases h1 with rfl | rfl <;> rcases h2 with rfl | rfl <;> decide
  · refine ⟨rfl, rfl, ?_, ?_⟩
    · intro a p b ha hb
      have ha0 : a = 0 := by have : a < 1 := ha; omega
      have hb' : b = 0 ∨ b = 1 := by have : b < 2 := hb; omega
      subst ha0
      rcases hb' with rfl | rfl <;> rcases p with _ | _ | p <;>
        simp [svE, qrE, sumN, smulSite, smulMat, mulLeft, mulRight, e0, e1, nzE]
    · intro a' a ha' ha
      have h1 : a' = 0 := by have : a' < 1 := ha'; omega
      have h2 : a = 0 := by have : a < 1 := ha; omega
      subst h1; subst h2; decide

/-- the hypotheses of `C07_canonical_form_finite_state` are met by this run; its conclusion on the
configuration `|00⟩`: weight `(-1)·(-1)`, new amplitude 2 = old amplitude -/
example : wt (canonFinite false nzE qrE nzE svE [e0, e1]).2 *
      contract (fun a => delta a 0) (canonFinite false nzE qrE nzE svE [e0, e1]).1 [0, 0] 0
    = contract (fun a => delta a 0) [e0, e1] [0, 0] 0 :=
  (C07_canonical_form_finite_state false nzE nzE qrE svE (fun _ => rfl) (fun _ => rfl) e0 [e1] 1 e_chain
    e_qr e_sv).1 _ _ 0 (by decide)

example : (canonFinite false nzE qrE nzE svE [e0, e1]).2 = (-1, -1) ∧
    contract (fun a => delta a 0) [e0, e1] [0, 0] 0 = 2 := by decide

/-! `from_full` of the entangled three-site state `2|001⟩ + 3|110⟩` over ℤ, `|S| = -1` -/

def psiE : List Nat → Int := fun σ => if σ = [0, 0, 1] then 2 else if σ = [1, 1, 0] then 3 else 0

def splitE : Nat → PsiT Int → Split Int := fun i Ψ =>
  if i = 2 then
    { U := { n := 2, f := fun τ k => if τ = [0, 0] ∧ k = 0 then 1 else if τ = [1, 1] ∧ k = 1 then 1 else 0 }
      S := fun k => if k = 0 then 2 else 3
      B := { dL := 2, d := 2, dR := 1, M := fun k p _ => if (k = 0 ∧ p = 1) ∨ (k = 1 ∧ p = 0) then 1 else 0 } }
  else
    { U := { n := 2, f := fun τ k => if τ = [0] ∧ k = 0 then 1 else if τ = [1] ∧ k = 1 then 1 else 0 }
      S := fun _ => -1
      B := { dL := 2, d := 2, dR := 2, M := fun k p r => -(Ψ.f [k, p] r) } }

theorem e_split : ∀ c ∈ fromFullCalls (fun _ => ((-1 : Int), (-1 : Int))) splitE 1 psiE,
    SplitSpec splitE c.1 c.2 := by
  intro c hc
  simp only [fromFullCalls, fromFullGoCalls, fromFullGo, List.cons_append, List.nil_append, List.mem_cons,
    List.not_mem_nil, or_false] at hc
  rcases hc with rfl | rfl
  · refine ⟨rfl, rfl, ?_⟩
    intro τ p r hτ hr
    have hr0 : r = 0 := by have : r < 1 := hr; omega
    subst hr0
    match τ, hτ with
    | [x, y], _ =>
      rcases x with _ | _ | x <;> rcases y with _ | _ | y <;> rcases p with _ | _ | p <;>
        simp [splitE, sumN, psiE]
  · refine ⟨rfl, rfl, ?_⟩
    intro τ p r hτ hr
    have hr' : r = 0 ∨ r = 1 := by have : r < 2 := hr; omega
    match τ, hτ with
    | [x], _ =>
      rcases hr' with rfl | rfl <;> rcases x with _ | _ | x <;> rcases p with _ | _ | p <;>
        simp [splitE, sumN]

example : (fromFull (fun _ => ((-1 : Int), (-1 : Int))) splitE 2 1 psiE).2 *
      contract (fun a => delta a 0) (fromFull (fun _ => ((-1 : Int), (-1 : Int))) splitE 2 1 psiE).1 [1, 1, 0] 0
    = psiE [1, 1, 0] :=
  C07_from_full _ splitE (fun _ => rfl) 2 1 psiE e_split [1, 1, 0] rfl

example : contract (fun a => delta a 0) (fromFull (fun _ => ((-1 : Int), (-1 : Int))) splitE 2 1 psiE).1 [1, 1, 0] 0 = 3 ∧
    (fromFull (fun _ => ((-1 : Int), (-1 : Int))) splitE 2 1 psiE).2 = 1 := by decide

/-! the Schmidt data `V = W = 1₂`, `s = (2, 3)` over ℤ: `tr ρ_L³ = 4³ + 9³` -/
example : trN 2 (matPowS 2 (rhoL (fun x : Int => x) 2 (schmidtPsi 2 (fun l a => delta l a) (fun a => if a = 0 then 2 else 3)
      (fun a r => delta a r))) 2) = sumN 2 (fun a => powN ((if a = 0 then (2 : Int) else 3) * (if a = 0 then 2 else 3)) 3) :=
  C07_entropy_from_S ConjLike.id 2 2 2 _ _ _
    (fun a a' ha ha' => by
      have h1 : a = 0 ∨ a = 1 := by omega
      have h2 : a' = 0 ∨ a' = 1 := by omega
      rcases h1 with rfl | rfl <;> rcases h2 with rfl | rfl <;> decide)
    (fun a a' ha ha' => by
      have h1 : a = 0 ∨ a = 1 := by omega
      have h2 : a' = 0 ∨ a' = 1 := by omega
      rcases h1 with rfl | rfl <;> rcases h2 with rfl | rfl <;> decide) 2

example : sumN 2 (fun a => powN ((if a = 0 then (2 : Int) else 3) * (if a = 0 then 2 else 3)) 3) = 793 := by decide

/-- site 0 of the run above: `V` co-isometric, `Y = (-1)` a unit ⇒ `Y·V` co-isometric -/
example : RightIso (fun x : Int => x)
    (mulLeft (fun _ _ => (-1 : Int)) 1 { dL := 1, d := 2, dR := 2, M := fun _ p b => if p = 0 ∧ b = 0 then 1 else 0 }) :=
  C07_canonical_form_site0 ConjLike.id _ 1 _
    (by intro a' a ha' ha
        have h1 : a' = 0 := by have : a' < 1 := ha'; omega
        have h2 : a = 0 := by have : a < 1 := ha; omega
        subst h1; subst h2; decide)
    (by intro a' a ha' ha
        have h1 : a' = 0 := by omega
        have h2 : a = 0 := by omega
        subst h1; subst h2; decide)

/-- `renormalize=False` with `|S| = 1` in the later SVDs: recorded norm × state unchanged -/
example : ((7 : Int) * (canonFinite false nzE qrE nzOne svE [e0, e1]).2.1) *
      contract (fun a => delta a 0) (canonFinite false nzE qrE nzOne svE [e0, e1]).1 [0, 0] 0
    = 7 * contract (fun a => delta a 0) [e0, e1] [0, 0] 0 := by decide

end C07Examples2
