import TenpyModel.C07.ExtChargeProofs
/-!
# C07 extension round, part B — `get_total_charge` / `gauge_total_charge`

Property theorems about the model `TenpyModel/C07/ExtCharge.lean` of the charge bookkeeping in
`tenpy/networks/mps.py`.  Charges in any commutative group `G`, `make_valid` any map with the
congruence laws of a component-wise `mod` (`Lawful`), all chain lengths and dimensions, every
commutative semiring of tensor entries.
-/
open TenpyModel.MPS TenpyModel.C07Ext

universe u v
variable {G : Type v} {α : Type u} [AddCommGroup G] {ci : ChInfo G}

/-- **`get_total_charge(only_physical_legs=True)` is the charge of every basis configuration in the
support of the state.**  Finite MPS whose tensors obey the charge rule and whose bonds are
contractible: if the amplitude of `σ` does not vanish, the physical charges of `σ` add up (modulo
`make_valid`) to the value the method returns. -/
theorem C07_total_charge_support [CommSemiring α] (h : Lawful ci) (s : QSite G α) (ss : List (QSite G α))
    (σ : List Nat) (hr : ∀ x ∈ s :: ss, RuleP ci x) (hc : QChainOK ci (s :: ss)) (hcfg : CfgOK (s :: ss) σ)
    (hL : s.vL.dim = 1) (hR : 0 < ((s :: ss).getLast (by simp)).vR.dim)
    (hne : contract (fun a => delta a 0) ((s :: ss).map QSite.toRSite) σ 0 ≠ 0) :
    getTotalCharge ci true (s :: ss) none true = some (ci.mv (physCharge (s :: ss) σ)) := by
  obtain ⟨a, ha, _, hcg⟩ := support_charge h s ss _ σ 0 hr hc hcfg hR hne
  have ha0 : a = 0 := by omega
  subst ha0
  have hl : (s :: ss).getLast? = some ((s :: ss).getLast (by simp)) := List.getLast?_eq_some_getLast (by simp)
  simp only [getTotalCharge, List.head?_cons, hl, Bool.not_true, Bool.false_eq_true, if_false, if_true]
  congr 1
  have := cg_add h (cg_add h hcg.symm' (Cg.rfl' (ci := ci) (-(s.vL.charge 0))))
    (Cg.rfl' (ci := ci) (-(((s :: ss).getLast (by simp)).vR.charge 0)))
  unfold Cg at this
  rw [this]
  congr 1
  abel

/-- `get_total_charge` refuses `only_physical_legs` on segment / infinite boundary conditions and
otherwise adds the `qtotal` of the segment boundaries -/
theorem C07_total_charge_branches (sites : List (QSite G α)) (seg : Option (G × G)) :
    getTotalCharge ci false sites seg true = none ∧
    getTotalCharge ci false sites none false = some (ci.mv (sumG (sites.map (·.qtot)))) ∧
    (∀ u v, getTotalCharge ci false sites (some (u, v)) false
      = some (ci.mv (sumG (sites.map (·.qtot)) + (u + v)))) := by
  refine ⟨by simp [getTotalCharge], by simp [getTotalCharge], fun u v => by simp [getTotalCharge]⟩

/-- **The loop of `gauge_total_charge` only relabels charges.**  Entries, dimensions and physical
charges of every tensor are untouched (so the state is), every tensor still obeys the charge rule,
neighbouring legs stay contractible, the left-most leg is not changed. -/
theorem C07_gauge_loop_keeps_tensors [CommSemiring α] (h : Lawful ci) (s : QSite G α) (rest : List (QSite G α))
    (ds : List G) (hlen : ds.length = rest.length + 1) (hr : ∀ x ∈ s :: rest, RuleP ci x)
    (hc : QChainOK ci (s :: rest)) :
    let out := gaugeLoop ci none (s :: rest) ds
    List.Forall₂ SameData (s :: rest) out ∧ (∀ x ∈ out, RuleP ci x) ∧ QChainOK ci out ∧
      (∀ o ∈ out.head?, o.vL = s.vL) ∧
      (∀ (v : Vec α) (σ : List Nat),
        contract v (out.map QSite.toRSite) σ = contract v ((s :: rest).map QSite.toRSite) σ) := by
  have sp := gaugeLoop_spec h rest s ds hlen hr hc
  refine ⟨sp.same, sp.rule, sp.chain, sp.headL, fun v σ => ?_⟩
  congr 1
  have : ∀ (xs ys : List (QSite G α)), List.Forall₂ SameData xs ys →
      ys.map QSite.toRSite = xs.map QSite.toRSite := by
    intro xs ys hxy
    induction hxy with
    | nil => rfl
    | cons h1 _ ih =>
      obtain ⟨a1, a2, _, a4, a5⟩ := h1
      simp only [List.map_cons, ih, QSite.toRSite, a1, a2, a4, a5]
  exact this _ _ sp.same

/-- **The `assert` after the loop can never fail**: every tensor ends with the requested `qtotal`
(modulo `make_valid`), hence `get_total_charge()` is `make_valid(sum(qtotal))`. -/
theorem C07_gauge_total_charge_assert [CommSemiring α] (h : Lawful ci) (s : QSite G α)
    (rest : List (QSite G α)) (ds : List G) (hlen : ds.length = rest.length + 1)
    (hr : ∀ x ∈ s :: rest, RuleP ci x) (hc : QChainOK ci (s :: rest)) :
    let out := gaugeLoop ci none (s :: rest) ds
    List.Forall₂ (fun o d => ci.mv o.qtot = ci.mv d) out ds ∧
    getTotalCharge ci true out none false = some (ci.mv (sumG ds)) := by
  have sp := gaugeLoop_spec h rest s ds hlen hr hc
  refine ⟨sp.qtot, ?_⟩
  simp only [getTotalCharge, Bool.false_eq_true, if_false]
  congr 1
  exact sumG_cong h (fun o : QSite G α => o.qtot) _ _ sp.qtot

/-- **Gauging the total charge does not change the physical charge**:
`get_total_charge(only_physical_legs=True)` returns the same value before and after the loop
(the change of `qtotal` is exactly the shift of the right-most leg). -/
theorem C07_gauge_physical_charge_invariant [CommSemiring α] (h : Lawful ci) (s : QSite G α)
    (rest : List (QSite G α)) (ds : List G) (hlen : ds.length = rest.length + 1)
    (hr : ∀ x ∈ s :: rest, RuleP ci x) (hc : QChainOK ci (s :: rest)) :
    getTotalCharge ci true (gaugeLoop ci none (s :: rest) ds) none true
      = getTotalCharge ci true (s :: rest) none true := by
  have sp := gaugeLoop_spec h rest s ds hlen hr hc
  generalize hO : gaugeLoop ci none (s :: rest) ds = out at sp
  cases out with
  | nil => cases sp.same
  | cons o os =>
    have ho : o.vL = s.vL := sp.headL o (by simp)
    have hl : (o :: os).getLast? = some ((o :: os).getLast (by simp)) :=
      List.getLast?_eq_some_getLast (by simp)
    have hl' : (s :: rest).getLast? = some ((s :: rest).getLast (by simp)) :=
      List.getLast?_eq_some_getLast (by simp)
    have hp := sp.phys _ (by rw [hl]; exact rfl) 0
    simp only [getTotalCharge, List.head?_cons, hl, hl', Bool.not_true, Bool.false_eq_true, if_false, if_true]
    congr 1
    have := cg_add h hp (Cg.rfl' (ci := ci) (-(s.vL.charge 0)))
    simp only [VLeg.charge, ho] at this ⊢
    unfold Cg at this
    calc ci.mv (sumG (List.map (fun x => x.qtot) (o :: os)) + -sgn s.vL.pos (s.vL.q 0)
            + -sgn ((o :: os).getLast (by simp)).vR.pos (((o :: os).getLast (by simp)).vR.q 0))
        = _ := by congr 1; abel
      _ = _ := this
      _ = _ := by congr 1; abel

/-- the checks in front of the loop: trivial charges return at once, segment boundaries are
refused, a per-site `qtotal` of the wrong length is a `ValueError` -/
theorem C07_gauge_total_charge_guards (isEq : G → G → Bool) (inf : Bool) (s : QSite G α)
    (rest : List (QSite G α)) (qarg : QArg G) (vl vr : Option (VLeg G)) (qs : List G) :
    (ci.trivial = true → ∀ seg, gaugeTotalCharge ci isEq inf seg (s :: rest) qarg vl vr = .ok (s :: rest)) ∧
    (ci.trivial = false → gaugeTotalCharge ci isEq inf true (s :: rest) qarg vl vr = .error .notImplemented) ∧
    (ci.trivial = false → qs.length ≠ rest.length + 1 →
      gaugeTotalCharge ci isEq inf false (s :: rest) (.perSite qs) vl vr = .error .wrongShape) := by
  refine ⟨fun ht seg => by simp [gaugeTotalCharge, ht], fun ht => by simp [gaugeTotalCharge, ht], fun ht hq => ?_⟩
  have hl : (s :: rest).getLast? = some ((s :: rest).getLast (by simp)) :=
    List.getLast?_eq_some_getLast (by simp)
  simp only [gaugeTotalCharge, ht, Bool.false_eq_true, if_false, List.head?_cons, hl, List.length_cons]
  cases vl <;> cases vr <;> simp [hq]

/-! ### non-vacuity: a two-site chain with a `Z_3` charge -/

namespace C07ExtChargeExamples

def z3 : ChInfo Int := { mv := fun x => x % 3, isZero := fun x => x == 0, trivial := false }

theorem z3_lawful : Lawful z3 :=
  ⟨fun x y => by simp only [z3]; omega, fun y => by simp only [z3]; omega, fun x => by simp [z3]⟩

/-- `|1⟩ ⊗ |2⟩` with physical charges `p ↦ p`, stored with total charges `(1, 2)`;
bond charge 1 between the sites (`vR` has `qconj = -1`). -/
def chain : List (QSite Int Int) :=
  [ { d := 3, M := fun _ p _ => if p = 1 then 1 else 0, qp := fun p => p, qtot := 0,
      vL := ⟨1, fun _ => 0, true⟩, vR := ⟨1, fun _ => 1, false⟩ },
    { d := 3, M := fun _ p _ => if p = 2 then 1 else 0, qp := fun p => p, qtot := 0,
      vL := ⟨1, fun _ => 1, true⟩, vR := ⟨1, fun _ => 0, false⟩ } ]

example : contract (fun a => delta a 0) (chain.map QSite.toRSite) [1, 2] 0 = 1 := by decide
example : getTotalCharge z3 true chain none true = some 0 := by decide
example : getTotalCharge z3 true chain none false = some 0 := by decide
/-- gauging the total charge to 2: `qtotal` becomes `(0, 2)`, the physical charge stays `0 = (1+2) % 3` -/
example : (gaugeLoop z3 none chain [0, 2]).map (·.qtot) = [0, 2] := by decide
example : getTotalCharge z3 true (gaugeLoop z3 none chain [0, 2]) none false = some 2 := by decide
example : getTotalCharge z3 true (gaugeLoop z3 none chain [0, 2]) none true = some 0 := by decide
/-- per-site request `(1, 1)`: both tensors are relabelled, bond stays contractible -/
example : (gaugeLoop z3 none chain [1, 1]).map (fun s => (s.qtot, s.vL.q 0, s.vR.q 0))
    = [(1, 0, 0), (1, 0, 1)] := by decide
example : getTotalCharge z3 true (gaugeLoop z3 none chain [1, 1]) none true = some 0 := by decide

theorem chain_rule : ∀ x ∈ chain, RuleP z3 x := by
  intro x hx
  simp only [chain, List.mem_cons, List.mem_nil_iff, or_false] at hx
  rcases hx with rfl | rfl <;>
  · intro a p b ha hp hb hM
    have ha0 : a = 0 := by simp at ha; omega
    have hb0 : b = 0 := by simp at hb; omega
    subst ha0 hb0
    have hp3 : p < 3 := hp
    rcases (by omega : p = 0 ∨ p = 1 ∨ p = 2) with rfl | rfl | rfl <;>
      first | (exact absurd rfl hM) | (unfold Cg; decide)

theorem chain_ok : QChainOK z3 chain := by
  refine ⟨⟨rfl, fun b hb => ?_⟩, trivial⟩
  have hb0 : b = 0 := by simp at hb; omega
  subst hb0
  unfold Cg; decide

/-- the hypotheses of `C07_total_charge_support` are met by `chain` and the configuration `[1, 2]` -/
example : getTotalCharge z3 true chain none true = some (z3.mv (physCharge chain [1, 2])) :=
  C07_total_charge_support z3_lawful _ _ [1, 2] chain_rule chain_ok ⟨by decide, by decide, trivial⟩ rfl
    (by decide) (by decide)

/-- … and those of the loop theorems (`C07_gauge_physical_charge_invariant`) -/
example : getTotalCharge z3 true (gaugeLoop z3 none chain [1, 1]) none true
    = getTotalCharge z3 true chain none true :=
  C07_gauge_physical_charge_invariant (α := Int) z3_lawful _ _ [1, 1] rfl chain_rule chain_ok

end C07ExtChargeExamples
