import TenpyModel.C07.ExtCover
import TenpyModel.MPS.ChainProofs
import TenpyModel.MPS.MeasureProofs
/-!
Lemmas for the model of `from_product_mps_covering` (`ExtCover.lean`): product-index sums,
through-lines, Kronecker products of chains.  All sizes, every commutative semiring.
-/
namespace TenpyModel.C07Ext
open TenpyModel.MPS

universe u
variable {α : Type u} [CommSemiring α]

/-! ### sums over a product index -/

theorem sumN_prod (m n : Nat) (f : Nat → α) :
    sumN (m * n) f = sumN m (fun i => sumN n (fun j => f (i * n + j))) := by
  induction m with
  | zero => simp [sumN]
  | succ m ih =>
    have : (m + 1) * n = m * n + n := by ring
    rw [this, sumN_split, ih]
    simp only [sumN]

theorem divmod_lin (i j n : Nat) (hj : j < n) : (i * n + j) / n = i ∧ (i * n + j) % n = j := by
  have hn : 0 < n := by omega
  constructor
  · rw [Nat.mul_comm, Nat.mul_add_div hn, Nat.div_eq_of_lt hj]; simp
  · rw [Nat.mul_comm, Nat.mul_add_mod]; exact Nat.mod_eq_of_lt hj

/-- `Σ_{a < m n} g (a / n) (a % n) = Σ_{i<m} Σ_{j<n} g i j` -/
theorem sumN_divmod (m n : Nat) (g : Nat → Nat → α) :
    sumN (m * n) (fun a => g (a / n) (a % n)) = sumN m (fun i => sumN n (fun j => g i j)) := by
  rw [sumN_prod]
  refine sumN_congr (fun i _ => sumN_congr (fun j hj => ?_))
  obtain ⟨h1, h2⟩ := divmod_lin i j n hj
  rw [h1, h2]

/-- `Σ np.outer(x, y).flatten() = (Σ x)(Σ y)` -/
theorem sumN_kronVec (m n : Nat) (f g : Vec α) :
    sumN (m * n) (kronVec n f g) = sumN m f * sumN n g := by
  unfold kronVec
  rw [sumN_divmod m n (fun i j => f i * g j), sumN_mul]
  exact sumN_congr (fun i _ => by rw [mul_sumN])

theorem delta_divmod (a b n : Nat) (_hn : 0 < n) :
    (delta (a / n) (b / n) * delta (a % n) (b % n) : α) = delta a b := by
  unfold delta
  by_cases h : a = b
  · subst h; simp
  · have : ¬ (a / n = b / n ∧ a % n = b % n) := by
      rintro ⟨h1, h2⟩
      apply h
      rw [← Nat.div_add_mod a n, ← Nat.div_add_mod b n, h1, h2]
    by_cases h1 : a / n = b / n
    · have h2 : a % n ≠ b % n := fun h2 => this ⟨h1, h2⟩
      simp [h, h2]
    · simp [h, h1]

/-! ### through-lines -/

theorem vstep_thru (v : Vec α) (χ d p : Nat) :
    vstep v (thru χ d) p = fun b => if b < χ then v b else 0 := by
  funext b
  simp only [vstep, thru]
  exact sumN_delta_right χ b v

/-- the `Triv` tensors of two lines combine to the `Triv` tensor of the product line -/
theorem kronSite_thru (n1 n2 d : Nat) :
    (kronSite (thru n1 d) (thru n2 d) : RSite α) = thru (n1 * n2) d := by
  unfold kronSite thru
  simp only [RSite.mk.injEq, true_and]
  funext a _ b
  by_cases hn : 0 < n2
  · exact delta_divmod a b n2 hn
  · have : n2 = 0 := by omega
    subst this
    simp [delta]

/-- **through-lines carry the local state unchanged**: the parts one local MPS contributes to the
new chain contract, for a configuration `σ` of the new chain, to the amplitude of the local MPS on
the physical indices `σ` assigns to its own sites. -/
theorem contract_padChain (dphys : Nat → Nat) (n : Nat) :
    ∀ (i χ : Nat) (im : List Nat) (ls : List (RSite α)) (v : Vec α) (σ : List Nat),
      σ.length = n → ChainOK χ ls → im.length = ls.length → im.Pairwise (· < ·) →
      (∀ j ∈ im, i ≤ j) → (∀ j ∈ im, j < i + n) →
      ∀ b, b < lastDim χ ls →
        contract v (padChain dphys n i χ im ls) σ b = contract v ls (pickCfg i im σ) b := by
  induction n with
  | zero =>
    intro i χ im ls v σ hσ _ hlen _ hlo hhi b _
    have hσ' : σ = [] := List.length_eq_zero_iff.mp hσ
    subst hσ'
    cases im with
    | nil =>
      cases ls with
      | nil => simp [padChain, pickCfg]
      | cons s ls => simp at hlen
    | cons j im =>
      have h1 := hlo j (by simp)
      have h2 := hhi j (by simp)
      omega
  | succ n ih =>
    intro i χ im ls v σ hσ hc hlen hs hlo hhi b hb
    cases σ with
    | nil => simp at hσ
    | cons p ps =>
      have hps : ps.length = n := by simpa using hσ
      cases im with
      | nil =>
        cases ls with
        | cons s ls => simp at hlen
        | nil =>
          simp only [padChain, contract, pickCfg]
          rw [ih (i + 1) χ [] [] _ ps hps trivial rfl List.Pairwise.nil (by simp) (by simp) b hb]
          simp only [pickCfg, contract, vstep_thru]
          simp only [lastDim] at hb
          simp [hb]
      | cons j im =>
        cases ls with
        | nil => simp at hlen
        | cons s ls =>
          have hlen' : im.length = ls.length := by simpa using hlen
          by_cases hij : i = j
          · subst hij
            simp only [padChain, pickCfg, if_true, contract]
            have hs' := List.pairwise_cons.mp hs
            refine ih (i + 1) s.dR im ls _ ps hps hc.2 hlen' hs'.2 ?_ ?_ b (by simpa [lastDim] using hb)
            · intro k hk; have := hs'.1 k hk; omega
            · intro k hk; have := hhi k (by simp [hk]); omega
          · simp only [padChain, pickCfg, hij, if_false, contract]
            have hj := hlo j (by simp)
            rw [ih (i + 1) χ (j :: im) (s :: ls) _ ps hps hc hlen hs ?_ ?_ b hb]
            · exact congrFun (contract_congr_vec χ _ v (s :: ls) _ hc (by simp)
                (fun a ha => by rw [vstep_thru]; simp [ha])) b
            · intro k hk
              rcases List.mem_cons.mp hk with rfl | hk'
              · omega
              · have := (List.pairwise_cons.mp hs).1 k hk'; omega
            · intro k hk; have := hhi k hk; omega

/-! ### Kronecker products of chains -/

theorem vstep_kron (v w : Vec α) (s t : RSite α) (p : Nat) :
    vstep (kronVec t.dL v w) (kronSite s t) p = kronVec t.dR (vstep v s p) (vstep w t p) := by
  funext c
  simp only [vstep, kronVec, kronSite]
  rw [sumN_divmod s.dL t.dL
    (fun i j => v i * w j * (s.M i p (c / t.dR) * t.M j p (c % t.dR))), sumN_mul]
  refine sumN_congr (fun i _ => ?_)
  rw [mul_sumN]
  exact sumN_congr (fun j _ => by ring)

theorem kronVec_zero (n : Nat) : kronVec n (fun _ => (0 : α)) (fun _ => 0) = fun _ => 0 := by
  funext a; simp [kronVec]

/-- **the combined chain contracts to the product of the two chains**, for every start vector
and every open right index (`b * m2 + b2` in the product index). -/
theorem contract_kron (c1 : List (RSite α)) :
    ∀ (c2 : List (RSite α)) (n2 : Nat) (v w : Vec α) (σ : List Nat),
      ChainOK n2 c2 → c1.length = c2.length →
      contract (kronVec n2 v w) (kronChain c1 c2) σ
        = kronVec (lastDim n2 c2) (contract v c1 σ) (contract w c2 σ) := by
  induction c1 with
  | nil =>
    intro c2 n2 v w σ _ hlen
    cases c2 with
    | cons t ts => simp at hlen
    | nil =>
      cases σ with
      | nil => rfl
      | cons p ps => simp only [kronChain, List.zipWith, contract, lastDim]; exact (kronVec_zero n2).symm
  | cons s ss ih =>
    intro c2 n2 v w σ hc hlen
    cases c2 with
    | nil => simp at hlen
    | cons t ts =>
      cases σ with
      | nil => simp only [kronChain, List.zipWith, contract, lastDim]; exact (kronVec_zero _).symm
      | cons p ps =>
        simp only [kronChain, List.zipWith, contract, lastDim]
        have := ih ts t.dR (vstep v s p) (vstep w t p) ps hc.2 (by simpa using hlen)
        rw [← this, ← hc.1, vstep_kron]
        rfl

theorem kronVec_delta0 : kronVec 1 (fun a => (delta a 0 : α)) (fun a => delta a 0) = fun a => delta a 0 := by
  funext a
  simp [kronVec, delta, Nat.mod_one]

theorem kronChain_length (c1 c2 : List (RSite α)) (h : c1.length = c2.length) :
    (kronChain c1 c2).length = c1.length := by
  simp [kronChain, List.length_zipWith, h]

/-- product of the amplitudes of a list of chains -/
def prodAmps (cs : List (List (RSite α))) (σ : List Nat) : α :=
  cs.foldl (fun acc c => acc * contract (fun a => delta a 0) c σ 0) 1

theorem foldl_mul_init (cs : List (List (RSite α))) (σ : List Nat) (x : α) :
    cs.foldl (fun acc c => acc * contract (fun a => delta a 0) c σ 0) x = x * prodAmps cs σ := by
  unfold prodAmps
  induction cs generalizing x with
  | nil => simp
  | cons c cs ih =>
    simp only [List.foldl_cons]
    rw [ih (x * _), ih (1 * _)]
    ring

theorem contract_foldl_kron (cs : List (List (RSite α))) :
    ∀ (acc : List (RSite α)) (σ : List Nat),
      (∀ c ∈ cs, ChainOK 1 c ∧ c.length = acc.length) →
      contract (fun a => delta a 0) (cs.foldl kronChain acc) σ 0
        = contract (fun a => delta a 0) acc σ 0 * prodAmps cs σ := by
  induction cs with
  | nil => intro acc σ _; simp [prodAmps]
  | cons c cs ih =>
    intro acc σ h
    obtain ⟨hc, hl⟩ := h c (by simp)
    simp only [List.foldl_cons]
    rw [ih (kronChain acc c) σ (fun c' hc' => by
      obtain ⟨h1, h2⟩ := h c' (by simp [hc'])
      exact ⟨h1, by rw [kronChain_length acc c hl.symm, h2]⟩)]
    have hk := contract_kron acc c 1 (fun a => (delta a 0 : α)) (fun a => delta a 0) σ hc hl.symm
    rw [kronVec_delta0] at hk
    rw [hk]
    simp only [kronVec, Nat.zero_div, Nat.zero_mod]
    unfold prodAmps
    simp only [List.foldl_cons]
    rw [foldl_mul_init cs σ (1 * _)]
    unfold prodAmps
    ring

/-! ### isometry of the combined tensors -/

theorem sumN_delta_delta (n a a' : Nat) (ha : a < n) :
    sumN n (fun b => (delta a' b * delta a b : α)) = delta a' a := by
  rw [sumN_congr (g := fun b => delta a b * (delta a' b : α)) (fun b _ => by ring), sumN_delta_left']
  simp [ha]

theorem rightIso_kron_thru_right {cj : α → α} (hcj : ConjLike cj) (h1 : cj 1 = 1) (s : RSite α) (n : Nat)
    (hs : RightIso cj s) : RightIso cj (kronSite s (thru n s.d)) := by
  intro a' a ha' ha
  simp only [kronSite, thru] at ha' ha ⊢
  have hn : 0 < n := by
    rcases Nat.eq_zero_or_pos n with h | h
    · subst h; simp at ha
    · exact h
  have hd : ∀ x y : Nat, cj (delta x y : α) = delta x y := by
    intro x y; unfold delta; split <;> simp [h1, hcj.zero]
  calc sumN s.d (fun p => sumN (s.dR * n) (fun b =>
          cj (s.M (a' / n) p (b / n) * delta (a' % n) (b % n)) * (s.M (a / n) p (b / n) * delta (a % n) (b % n))))
      = sumN s.d (fun p => sumN s.dR (fun b1 => sumN n (fun b2 =>
          (cj (s.M (a' / n) p b1) * s.M (a / n) p b1) * (delta (a' % n) b2 * delta (a % n) b2)))) :=
        sumN_congr (fun p _ => by
          rw [sumN_divmod s.dR n (fun b1 b2 =>
            cj (s.M (a' / n) p b1 * delta (a' % n) b2) * (s.M (a / n) p b1 * delta (a % n) b2))]
          exact sumN_congr (fun b1 _ => sumN_congr (fun b2 _ => by rw [hcj.mul, hd]; ring)))
    _ = sumN s.d (fun p => sumN s.dR (fun b1 =>
          (cj (s.M (a' / n) p b1) * s.M (a / n) p b1) * delta (a' % n) (a % n))) :=
        sumN_congr (fun p _ => sumN_congr (fun b1 _ => by
          rw [← mul_sumN, sumN_delta_delta n (a % n) (a' % n) (Nat.mod_lt _ hn)]))
    _ = sumN s.d (fun p => sumN s.dR (fun b1 => cj (s.M (a' / n) p b1) * s.M (a / n) p b1))
          * delta (a' % n) (a % n) := by
        rw [sumN_mul]; exact sumN_congr (fun p _ => by rw [sumN_mul])
    _ = delta (a' / n) (a / n) * delta (a' % n) (a % n) := by
        rw [hs (a' / n) (a / n) ((Nat.div_lt_iff_lt_mul hn).mpr ha') ((Nat.div_lt_iff_lt_mul hn).mpr ha)]
    _ = delta a' a := delta_divmod a' a n hn

theorem rightIso_kron_thru_left {cj : α → α} (hcj : ConjLike cj) (h1 : cj 1 = 1) (s : RSite α) (n : Nat)
    (hs : RightIso cj s) : RightIso cj (kronSite (thru n s.d) s) := by
  intro a' a ha' ha
  simp only [kronSite, thru] at ha' ha ⊢
  have hL : 0 < s.dL := by
    rcases Nat.eq_zero_or_pos s.dL with h | h
    · rw [h] at ha; simp at ha
    · exact h
  have hd : ∀ x y : Nat, cj (delta x y : α) = delta x y := by
    intro x y; unfold delta; split <;> simp [h1, hcj.zero]
  have hq : a / s.dL < n := by
    rw [Nat.mul_comm] at ha; exact (Nat.div_lt_iff_lt_mul hL).mpr (by rw [Nat.mul_comm]; exact ha)
  calc sumN s.d (fun p => sumN (n * s.dR) (fun b =>
          cj (delta (a' / s.dL) (b / s.dR) * s.M (a' % s.dL) p (b % s.dR))
            * (delta (a / s.dL) (b / s.dR) * s.M (a % s.dL) p (b % s.dR))))
      = sumN s.d (fun p => sumN n (fun b1 => sumN s.dR (fun b2 =>
          (delta (a' / s.dL) b1 * delta (a / s.dL) b1) * (cj (s.M (a' % s.dL) p b2) * s.M (a % s.dL) p b2)))) :=
        sumN_congr (fun p _ => by
          rw [sumN_divmod n s.dR (fun b1 b2 =>
            cj (delta (a' / s.dL) b1 * s.M (a' % s.dL) p b2) * (delta (a / s.dL) b1 * s.M (a % s.dL) p b2))]
          exact sumN_congr (fun b1 _ => sumN_congr (fun b2 _ => by rw [hcj.mul, hd]; ring)))
    _ = sumN n (fun b1 => (delta (a' / s.dL) b1 * delta (a / s.dL) b1) *
          sumN s.d (fun p => sumN s.dR (fun b2 => cj (s.M (a' % s.dL) p b2) * s.M (a % s.dL) p b2))) := by
        rw [sumN_comm]
        exact sumN_congr (fun b1 _ => by
          rw [mul_sumN]; exact sumN_congr (fun p _ => by rw [mul_sumN]))
    _ = delta (a' / s.dL) (a / s.dL) * delta (a' % s.dL) (a % s.dL) := by
        rw [hs (a' % s.dL) (a % s.dL) (Nat.mod_lt _ hL) (Nat.mod_lt _ hL), ← sumN_mul,
          sumN_delta_delta n (a / s.dL) (a' / s.dL) hq]
    _ = delta a' a := delta_divmod a' a s.dL hL

/-- a local MPS of the covering: sorted index map and tensors (outer legs trivial) -/
structure LocalOK (L : Nat) (l : List Nat × List (RSite α)) : Prop where
  chain : ChainOK 1 l.2
  len : l.1.length = l.2.length
  sorted : l.1.Pairwise (· < ·)
  inside : ∀ j ∈ l.1, j < L
  last : 0 < lastDim 1 l.2

theorem padChain_length (dphys : Nat → Nat) (n : Nat) : ∀ (i χ : Nat) (im : List Nat) (ls : List (RSite α)),
    (padChain dphys n i χ im ls).length = n := by
  induction n with
  | zero => intro i χ im ls; rfl
  | succ n ih =>
    intro i χ im ls
    cases im with
    | nil => simp [padChain, ih]
    | cons j im =>
      cases ls with
      | nil => simp [padChain, ih]
      | cons s ls =>
        by_cases hij : i = j
        · simp [padChain, hij, ih]
        · simp [padChain, hij, ih]

theorem padChain_chainOK (dphys : Nat → Nat) (n : Nat) : ∀ (i χ : Nat) (im : List Nat) (ls : List (RSite α)),
    ChainOK χ ls → im.length = ls.length → ChainOK χ (padChain dphys n i χ im ls) := by
  induction n with
  | zero => intro i χ im ls _ _; trivial
  | succ n ih =>
    intro i χ im ls hc hlen
    cases im with
    | nil => simp only [padChain]; exact ⟨rfl, ih _ _ [] [] trivial rfl⟩
    | cons j im =>
      cases ls with
      | nil => simp only [padChain]; exact ⟨rfl, ih _ _ [] [] trivial rfl⟩
      | cons s ls =>
        by_cases hij : i = j
        · simp only [padChain, hij, if_true]
          exact ⟨hc.1, ih _ _ im ls hc.2 (by simpa using hlen)⟩
        · simp only [padChain, hij, if_false]
          exact ⟨rfl, ih _ _ (j :: im) (s :: ls) hc hlen⟩


end TenpyModel.C07Ext
