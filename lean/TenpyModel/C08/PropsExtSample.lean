import TenpyModel.C08.ExtSample
import TenpyModel.C08.Props2
/-!
# C08 — extension round, part 2: `sample_measurements` on a window, measurement bases, probability flag

Model: `TenpyModel/C08/ExtSample.lean`.  The random draw is an input (`σ`); the theorems are about the
returned weight for the drawn outcome.
-/
open TenpyModel.MPS TenpyModel.MPS.Ext

universe u
variable {α : Type u} [CommSemiring α]
set_option linter.unusedSectionVars false

namespace TenpyModel.MPS.Ext

theorem sampleRange_tot (w winv : Nat → α) (full : Bool) :
    ∀ (ss : List (RSite α)) (i : Nat) (Θ : Mat α) (tot : α) (σ : List Nat),
      sampleRange w winv full i Θ tot ss σ = tot * sampleRange w winv full i Θ 1 ss σ := by
  intro ss
  induction ss with
  | nil => intro i Θ tot σ; simp [sampleRange]
  | cons s ss ih =>
    intro i Θ tot σ
    cases σ with
    | nil => simp [sampleRange]
    | cons p ps =>
      cases ss with
      | nil =>
        simp only [sampleRange]
        split <;> ring
      | cons s2 ss =>
        simp only [sampleRange]
        rw [ih (i + 1) _ (tot * w i), ih (i + 1) _ (1 * w i)]
        ring

theorem normsq_smul {cj : α → α} (hcj : ConjLike cj) (m n : Nat) (c : α) (Θ : Mat α) :
    normsq cj m n (fun a b => c * Θ a b) = c * cj c * normsq cj m n Θ := by
  simp only [normsq]
  rw [mul_sumN]
  refine sumN_congr (fun a _ => ?_)
  rw [mul_sumN]
  exact sumN_congr (fun b _ => by rw [hcj.mul]; ring)

theorem lastDim_cons_irrel (n0 n1 : Nat) (s : RSite α) (ss : List (RSite α)) :
    lastDim n0 (s :: ss) = lastDim n1 (s :: ss) := rfl

/-- `basisSites` with bases = one operator per site inserted with `applyOps` -/
theorem basisSites_eq_applyOps (V : Nat → Nat → Mat α) (nops first : Nat) :
    ∀ (ss : List (RSite α)) (i : Nat),
      basisSites (some V) nops first i ss
        = applyOps (((List.range' i ss.length).map (fun k => V (sampleOpIdx first nops k) k)).map some) ss := by
  intro ss
  induction ss with
  | nil => intro i; rfl
  | cons s ss ih =>
    intro i
    simp only [basisSites, List.length_cons, List.range'_succ, List.map_cons, applyOps, ih]

theorem basisSites_none (nops first : Nat) :
    ∀ (ss : List (RSite α)) (i : Nat), basisSites (none : Option (Nat → Nat → Mat α)) nops first i ss = ss := by
  intro ss
  induction ss with
  | nil => intro i; rfl
  | cons s ss ih => intro i; simp only [basisSites, ih]

end TenpyModel.MPS.Ext

/-- **Which basis on which site.**  Site `first + k` of the window is measured in the basis of
`ops[k % len(ops)]`: the first measured site always uses `ops[0]`, wherever the window starts, and
the assignment is periodic with period `len(ops)` along the window. -/
theorem C08_sample_op_index (first nops k : Nat) (hn : 0 < nops) :
    sampleOpIdx first nops (first + k) = k % nops ∧ sampleOpIdx first nops first = 0 ∧
      sampleOpIdx first nops (first + k + nops) = sampleOpIdx first nops (first + k) ∧
      sampleOpIdx first nops (first + k) < nops := by
  have e1 : first + k - first = k := by omega
  have e2 : first + k + nops - first = k + nops := by omega
  refine ⟨by simp [sampleOpIdx, e1], by simp [sampleOpIdx], ?_, ?_⟩
  · simp [sampleOpIdx, e1, e2]
  · simp only [sampleOpIdx, e1]; exact Nat.mod_lt _ hn

/-- **Whole finite chain: the weight is the amplitude.**  With `full` (finite bc, `first_site = 0`,
`last_site = L-1`) and whatever non-zero numbers `w i` the projected wave functions are divided by,
the loop returns `tot · ⟨σ|ψ⟩` — the complex amplitude including its phase. -/
theorem C08_sample_full_amplitude (w winv : Nat → α) (hw : ∀ i, w i * winv i = 1) :
    ∀ (ss : List (RSite α)) (i : Nat) (Θ : Mat α) (tot : α) (σ : List Nat), ss ≠ [] → ss.length = σ.length →
      sampleRange w winv true i Θ tot ss σ = tot * contract (Θ 0) ss σ 0 := by
  intro ss
  induction ss with
  | nil => intro i Θ tot σ h; exact absurd rfl h
  | cons s ss ih =>
    intro i Θ tot σ _ hl
    cases σ with
    | nil => simp at hl
    | cons p ps =>
      cases ss with
      | nil =>
        cases ps with
        | nil =>
          simp only [sampleRange, if_true, contract, mstep]
          calc tot * w i * (vstep (Θ 0) s p 0 * winv i) = tot * (w i * winv i) * vstep (Θ 0) s p 0 := by ring
            _ = _ := by rw [hw]; ring
        | cons _ _ => simp at hl
      | cons s2 ss =>
        simp only [sampleRange]
        rw [ih (i + 1) _ _ ps (by simp) (by simpa using hl)]
        have e1 := congrFun (contract_smul (winv i) (mstep Θ s p 0) (s2 :: ss) ps) 0
        have e2 : contract (Θ 0) (s :: s2 :: ss) (p :: ps) = contract (mstep Θ s p 0) (s2 :: ss) ps := rfl
        rw [e1, e2]
        calc tot * w i * (winv i * contract (mstep Θ s p 0) (s2 :: ss) ps 0)
            = tot * (w i * winv i) * contract (mstep Θ s p 0) (s2 :: ss) ps 0 := by ring
          _ = _ := by rw [hw]; ring

/-- **A window: weight² = squared norm of the projected `theta`.**  If every `w i` is a square root of
the squared norm the code computes at that step (`npc.norm(theta)`), real (`cj (winv i) = winv i`)
and non-zero, then the product of the norms satisfies
`W² = Σ_{a,b} |θ_σ(a,b)|²` with `θ_σ` the contraction of the UNnormalised window tensors for the
outcome `σ` — the renormalisations after every site telescope away. -/
theorem C08_sample_range_weight_sq {cj : α → α} (hcj : ConjLike cj) (chiL : Nat) (w winv : Nat → α)
    (hw : ∀ i, w i * winv i = 1) (hreal : ∀ i, cj (winv i) = winv i) :
    ∀ (ss : List (RSite α)) (i : Nat) (Θ : Mat α) (σ : List Nat) (n0 : Nat), ss ≠ [] → ss.length = σ.length →
      (∀ k, k < ss.length → w (i + k) * w (i + k) = (sampleNormSqs cj chiL winv i Θ ss σ).getD k 0) →
      sampleRange w winv false i Θ 1 ss σ * sampleRange w winv false i Θ 1 ss σ
        = normsq cj chiL (lastDim n0 ss) (fun a => contract (Θ a) ss σ) := by
  intro ss
  induction ss with
  | nil => intro i Θ σ n0 h; exact absurd rfl h
  | cons s ss ih =>
    intro i Θ σ n0 _ hl hn
    cases σ with
    | nil => simp at hl
    | cons p ps =>
      cases ss with
      | nil =>
        cases ps with
        | nil =>
          have h0 := hn 0 (by simp)
          simp only [sampleNormSqs, Nat.add_zero, List.getD_cons_zero] at h0
          simp only [sampleRange, lastDim, contract, Bool.false_eq_true, if_false, one_mul]
          rw [h0]; rfl
        | cons _ _ => simp at hl
      | cons s2 ss =>
        simp only [sampleRange]
        rw [sampleRange_tot]
        have hrec := ih (i + 1) (fun a b => winv i * mstep Θ s p a b) ps s.dR (by simp) (by simpa using hl)
          (fun k hk => by
            have := hn (k + 1) (by simp only [List.length_cons] at hk ⊢; omega)
            simp only [sampleNormSqs, List.getD_cons_succ] at this
            rw [← this]; congr 2 <;> omega)
        have hc : (fun a => contract ((fun a b => winv i * mstep Θ s p a b) a) (s2 :: ss) ps)
            = fun a b => winv i * contract (mstep Θ s p a) (s2 :: ss) ps b := by
          funext a
          exact contract_smul (winv i) (mstep Θ s p a) (s2 :: ss) ps
        rw [hc, normsq_smul hcj, hreal] at hrec
        have e2 : (fun a => contract (Θ a) (s :: s2 :: ss) (p :: ps))
            = fun a => contract (mstep Θ s p a) (s2 :: ss) ps := rfl
        rw [e2]
        have eL : lastDim n0 (s :: s2 :: ss) = lastDim s.dR (s2 :: ss) := rfl
        rw [eL]
        calc 1 * w i * sampleRange w winv false (i + 1) (fun a b => winv i * mstep Θ s p a b) 1 (s2 :: ss) ps *
              (1 * w i * sampleRange w winv false (i + 1) (fun a b => winv i * mstep Θ s p a b) 1 (s2 :: ss) ps)
            = w i * w i * (sampleRange w winv false (i + 1) (fun a b => winv i * mstep Θ s p a b) 1 (s2 :: ss) ps *
                sampleRange w winv false (i + 1) (fun a b => winv i * mstep Θ s p a b) 1 (s2 :: ss) ps) := by ring
          _ = (w i * winv i) * (w i * winv i) *
                normsq cj chiL (lastDim s.dR (s2 :: ss)) (fun a => contract (mstep Θ s p a) (s2 :: ss) ps) := by
              rw [hrec]; ring
          _ = _ := by rw [hw]; ring

/-- **A window of a canonical MPS: weight² is the Born probability of the outcome.**  For the chain
`left ++ seg ++ right` with left-isometric `left`, right-isometric `right` (canonical form) and
`seg = [get_theta(first,1), get_B(first+1), …, get_B(last)]`, the returned weight `W` (product of the
norms) satisfies `W² = Σ_{λ,ρ} |ψ(λ σ ρ)|²` — the probability of measuring `σ` on the window with
all other sites traced out. -/
theorem C08_sample_range_born {cj : α → α} (hcj : ConjLike cj) (hcj1 : cj 1 = 1) (w winv : Nat → α)
    (hw : ∀ i, w i * winv i = 1) (hreal : ∀ i, cj (winv i) = winv i)
    (left seg right : List (RSite α)) (hcl : ChainOK 1 left) (hcs : ChainOK (lastDim 1 left) seg)
    (hcr : ChainOK (lastDim (lastDim 1 left) seg) right)
    (hlast : lastDim (lastDim (lastDim 1 left) seg) right = 1) (hne : seg ≠ [])
    (hL : ∀ t ∈ left, LeftIso cj t) (hR : ∀ t ∈ right, RightIso cj t)
    (first : Nat) (σ : List Nat) (hσ : seg.length = σ.length)
    (hn : ∀ k, k < seg.length → w (first + k) * w (first + k)
        = (sampleNormSqs cj (lastDim 1 left) winv first (fun a a' => delta a a') seg σ).getD k 0) :
    sampleRange w winv false first (fun a a' => delta a a') 1 seg σ
        * sampleRange w winv false first (fun a a' => delta a a') 1 seg σ
      = sumCfg (dims left) (fun l => sumCfg (dims right) (fun ρ =>
          ampOf (left ++ seg ++ right) (l ++ σ ++ ρ) * cj (ampOf (left ++ seg ++ right) (l ++ σ ++ ρ)))) := by
  rw [C08_rho_segment hcj hcj1 left seg right hcl hcs hcr hlast hne hL hR σ σ hσ hσ]
  exact C08_sample_range_weight_sq hcj (lastDim 1 left) w winv hw hreal seg first _ σ (lastDim 1 left) hne hσ hn

/-- **`complex_amplitude=False` on a whole finite chain returns the Born probability** `|⟨σ|ψ⟩|²`
(the absolute square is taken once, of the final product — not inside the loop). -/
theorem C08_sample_probability_full {cj : α → α} (w winv : Nat → α) (hw : ∀ i, w i * winv i = 1)
    (L : Nat) (θ : RSite α) (Bs : List (RSite α)) (σ : List Nat) (hL : L = Bs.length + 1)
    (hσ : σ.length = L) :
    sampleMeasure cj w winv L 0 (L - 1) true θ Bs none 1 σ false
      = contract (fun a' => delta 0 a') (θ :: Bs) σ 0 * cj (contract (fun a' => delta 0 a') (θ :: Bs) σ 0) ∧
    sampleMeasure cj w winv L 0 (L - 1) true θ Bs none 1 σ true = contract (fun a' => delta 0 a') (θ :: Bs) σ 0 := by
  have hfull : (true && (0 : Nat) == 0 && L - 1 + 1 == L) = true := by
    have : L - 1 + 1 = L := by omega
    simp [this]
  have hW := C08_sample_full_amplitude w winv hw (θ :: Bs) 0 (fun a a' => (delta a a' : α)) 1 σ (by simp)
    (by simp; omega)
  simp only [sampleMeasure, hfull, basisSites_none, hW, one_mul]
  simp

/-- **Measurement bases: the amplitude in the rotated basis is the overlap with the product of the
selected eigenvectors.**  With bases (`ops` given) the chain the loop walks over is the window with
`V†` of `ops[(i-first) % len(ops)]` applied on site `i`, and its amplitude for the outcome `σ` is
`Σ_τ Π_k V†_k(σ_k, τ_k) · θ(τ)`. -/
theorem C08_sample_basis_change (V : Nat → Nat → Mat α) (nops first : Nat) (ss : List (RSite α)) (σ : List Nat)
    (v : Vec α) (hl : ss.length = σ.length) :
    contract v (basisSites (some V) nops first first ss) σ
      = fun b => sumCfg (dims ss) (fun τ =>
          prodOp ((List.range' first ss.length).map (fun k => V (sampleOpIdx first nops k) k)) σ τ
            * contract v ss τ b) := by
  rw [basisSites_eq_applyOps]
  exact contract_applyOps _ ss σ v (by simp) hl

/-! ### non-vacuity -/
namespace C08ExamplesExtSample
open C08Examples2

/-- window `[cTh, rB]` of the canonical chain `[lA, cTh, rB]`, outcome `[1, 0]`: squared norms per step
(with `winv = 1`, i.e. before normalising) and the final contraction -/
example : sampleNormSqs (fun x : Int => x) 2 (fun _ => 1) 1 (fun a a' => delta a a') [cTh, rB] [1, 0] = [26, 25] := by
  decide

example : normsq (fun x : Int => x) 2 1 (fun a => contract (fun a' => delta a a') [cTh, rB] [1, 0]) = 25 := by decide

/-- whole chain: the loop with `w = winv = 1` returns the amplitude -/
example : sampleRange (fun _ => (1 : Int)) (fun _ => 1) true 0 (fun a a' => delta a a') 1 [lA, cTh, rB] [1, 1, 0]
    = contract (fun a' => (delta 0 a' : Int)) [lA, cTh, rB] [1, 1, 0] 0 :=
  (C08_sample_full_amplitude _ _ (fun _ => by simp) [lA, cTh, rB] 0 _ 1 [1, 1, 0] (by simp) rfl).trans (one_mul _)

example : contract (fun a' => (delta 0 a' : Int)) [lA, cTh, rB] [1, 1, 0] 0 = 4 := by decide

example : sampleOpIdx 3 2 3 = 0 ∧ sampleOpIdx 3 2 4 = 1 ∧ sampleOpIdx 3 2 5 = 0 := by decide

end C08ExamplesExtSample
