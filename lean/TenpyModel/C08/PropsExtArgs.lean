import TenpyModel.C08.ExtArgs
import Mathlib.Tactic.Ring
/-!
# C08 — extension round, part 3: argument parsing, defaults, operator selection, loop ranges

Model: `TenpyModel/C08/ExtArgs.lean`.
-/
open TenpyModel.MPS.Ext

namespace TenpyModel.MPS.Ext

theorem validSite_in (L : Nat) (finite : Bool) (i : Int) (h0 : 0 ≤ i) (hL : i < L) :
    validSite L finite i = .ok (i.toNat, 0) := by
  have hLpos : L ≠ 0 := by intro h; subst h; simp at hL; omega
  have hq : i / (L : Int) = 0 := Int.ediv_eq_zero_of_lt h0 hL
  have hr : i % (L : Int) = i := Int.emod_eq_of_lt h0 hL
  simp [validSite, hLpos, hq, hr]

theorem validSite_high (L : Nat) (i : Int) (hL : (L : Int) ≤ i) (hpos : 0 < L) :
    ∃ e, validSite L true i = .error e := by
  have hLne : L ≠ 0 := by omega
  have hq : 1 ≤ i / (L : Int) := Int.le_ediv_of_mul_le (by omega) (by omega)
  have h1 : ¬ (i / (L : Int) = -1) := by omega
  have h2 : ¬ (i / (L : Int) = 0) := by omega
  refine ⟨"ValueError: out of bounds for finite MPS", ?_⟩
  simp [validSite, hLne, h1, h2]

theorem windowOk_ok (L : Nat) (finite : Bool) (i : Int) :
    ∀ n, (∀ d : Nat, d < n → 0 ≤ i + d ∧ i + d < L) → windowOk L finite i n = .ok () := by
  intro n
  induction n with
  | zero => intro _; rfl
  | succ n ih =>
    intro h
    simp only [windowOk]
    rw [ih (fun d hd => h d (by omega))]
    obtain ⟨a, b⟩ := h n (by omega)
    rw [validSite_in L finite (i + n) a b]

theorem windowOk_error (L : Nat) (i : Int) (hpos : 0 < L) :
    ∀ n (d : Nat), d < n → (L : Int) ≤ i + d → ∃ e, windowOk L true i n = .error e := by
  intro n
  induction n with
  | zero => intro d hd; omega
  | succ n ih =>
    intro d hd hL
    simp only [windowOk]
    by_cases hdn : d < n
    · obtain ⟨e, he⟩ := ih d hdn hL
      exact ⟨e, by rw [he]⟩
    · have : d = n := by omega
      subst this
      cases hw : windowOk L true i d with
      | error e => exact ⟨e, rfl⟩
      | ok _ =>
        obtain ⟨e, he⟩ := validSite_high L (i + d) hL hpos
        exact ⟨e, by simp [he]⟩

theorem planGo_range (L : Nat) (finite : Bool) (nops n : Nat) (hn : 0 < nops) :
    ∀ (l : List Nat), (∀ k ∈ l, k + n ≤ L ∧ k < L) →
      planGo L finite nops n (l.map (fun (k : Nat) => (k : Int)))
        = .ok (l.map (fun (k : Nat) => ((k : Int), k % nops))) := by
  intro l
  induction l with
  | nil => intro _; rfl
  | cons k l ih =>
    intro h
    obtain ⟨h1, h2⟩ := h k List.mem_cons_self
    have hne : nops ≠ 0 := by omega
    have hv : validSite L finite (k : Int) = .ok (k, 0) := by
      have := validSite_in L finite (k : Int) (by omega) (by omega)
      simpa using this
    have hg : getOpIdx L finite nops (k : Int) = .ok (k % nops) := by
      simp [getOpIdx, hv, hne]
    have hw : windowOk L finite (k : Int) n = .ok () :=
      windowOk_ok L finite k n (fun d hd => ⟨by omega, by omega⟩)
    simp only [List.map_cons, planGo, hg, hw]
    rw [ih (fun k' hk' => h k' (List.mem_cons_of_mem _ hk'))]

theorem le_maxI : ∀ (l : List Int) (t : Int), t ∈ l → t ≤ maxI l := by
  intro l
  induction l with
  | nil => intro t h; cases h
  | cons a l ih =>
    intro t ht
    cases l with
    | nil => simp only [List.mem_singleton] at ht; subst ht; simp [maxI]
    | cons b l =>
      simp only [maxI]
      rcases List.mem_cons.1 ht with rfl | h
      · exact Int.le_max_left _ _
      · exact Int.le_trans (ih t h) (Int.le_max_right _ _)

theorem minI_le : ∀ (l : List Int) (t : Int), t ∈ l → minI l ≤ t := by
  intro l
  induction l with
  | nil => intro t h; cases h
  | cons a l ih =>
    intro t ht
    cases l with
    | nil => simp only [List.mem_singleton] at ht; subst ht; simp [minI]
    | cons b l =>
      simp only [minI]
      rcases List.mem_cons.1 ht with rfl | h
      · exact Int.min_le_left _ _
      · exact Int.le_trans (Int.min_le_right _ _) (ih t h)

theorem mem_rangeI (a b j : Int) : j ∈ rangeI a b ↔ a ≤ j ∧ j < b := by
  simp only [rangeI, List.mem_map, List.mem_range]
  constructor
  · rintro ⟨k, hk, rfl⟩; omega
  · intro ⟨h1, h2⟩
    exact ⟨(j - a).toNat, by omega, by omega⟩

end TenpyModel.MPS.Ext

/-- **Operator selection (`get_op`).**  Inside the unit cell (`0 ≤ i < L`) site `i` gets
`op_list[i % len(op_list)]` (finite and infinite); an infinite MPS selects periodically in the unit
cell (`i` and `i + L` get the same entry); a finite MPS raises for `i ≥ L` and still accepts
`-L ≤ i < 0` as `i + L`. -/
theorem C08_get_op_index (L nops : Nat) (hL : 0 < L) (hn : 0 < nops) (i : Int) :
    (0 ≤ i → i < L → ∀ fin, getOpIdx L fin nops i = .ok (i.toNat % nops)) ∧
    (getOpIdx L false nops (i + L) = getOpIdx L false nops i) ∧
    ((L : Int) ≤ i → ∃ e, getOpIdx L true nops i = .error e) ∧
    (-(L : Int) ≤ i → i < 0 → getOpIdx L true nops i = .ok ((i + L).toNat % nops)) := by
  have hLne : L ≠ 0 := by omega
  have hne : nops ≠ 0 := by omega
  refine ⟨?_, ?_, ?_, ?_⟩
  · intro h0 h1 fin
    simp [getOpIdx, validSite_in L fin i h0 h1, hne]
  · have e1 : (i + (L : Int)) % (L : Int) = i % (L : Int) := Int.add_emod_right i L
    simp [getOpIdx, validSite, hLne, e1]
  · intro h
    obtain ⟨e, he⟩ := validSite_high L i h hL
    exact ⟨e, by simp [getOpIdx, he]⟩
  · intro h1 h2
    have hq : i / (L : Int) = -1 := by
      have a : i / (L : Int) < 0 := Int.ediv_neg_of_neg_of_pos h2 (by omega)
      have b : -1 ≤ i / (L : Int) := Int.le_ediv_of_mul_le (by omega) (by omega)
      omega
    have hr : i % (L : Int) = i + L := by
      have := Int.emod_emod_of_dvd i (Int.dvd_refl (L : Int))
      have e : i % (L : Int) = (i + L) % (L : Int) := (Int.add_emod_right i L).symm
      rw [e]; exact Int.emod_eq_of_lt (by omega) (by omega)
    simp [getOpIdx, validSite, hLne, hq, hr, hne]

/-- **Default sites of `expectation_value` on a finite chain.**  For `n`-site operators (`n ≥ 1`)
and `sites=None` the evaluation plan is exactly the windows that fit, `i = 0 … L-n`, in order, each
with operator `ops[i % len(ops)]` — it does not raise and leaves no fitting window out. -/
theorem C08_ev_default_plan (L : Nat) (ops : List OpDesc) (n : Nat) (ss : List Int) (hn1 : 1 ≤ n)
    (hops : ops ≠ []) (hargs : evArgs L true ops none none = .ok (n, ss)) :
    evPlan L true ops none none
      = .ok (n, (List.range (L + 1 - n)).map (fun (k : Nat) => ((k : Int), k % ops.length))) := by
  have hlen : 0 < ops.length := List.length_pos_iff.2 hops
  have hne : ops.length ≠ 0 := by omega
  have hss : ss = (List.range (L + 1 - n)).map (fun (k : Nat) => (k : Int)) := by
    have e : ((L : Int) - ((n : Int) - 1)).toNat = L + 1 - n := by omega
    cases hany : ops.any (·.isStr) with
    | true =>
      simp only [evArgs, hany, if_true, Except.ok.injEq, Prod.mk.injEq] at hargs
      obtain ⟨h1, h2⟩ := hargs
      subst h1
      rw [← h2, e]
    | false =>
      simp only [evArgs, hany, Bool.false_eq_true, if_false, hne, if_true, Except.ok.injEq, Prod.mk.injEq] at hargs
      obtain ⟨h1, h2⟩ := hargs
      rw [← h2, h1, e]
  simp only [evPlan, hargs]
  rw [hss, planGo_range L true ops.length n hlen _ (fun k hk => by
    have := List.mem_range.1 hk; omega)]

/-- **A window sticking out of a finite chain raises** (no silent wrap-around): if the first
requested site `i ≥ 0` has `i + n > L`, the plan is an error. -/
theorem C08_ev_window_out_of_range_raises (L nops n : Nat) (hL : 0 < L) (i : Int) (rest : List Int)
    (_h0 : 0 ≤ i) (hn1 : 1 ≤ n) (hout : (L : Int) < i + n) :
    ∃ e, planGo L true nops n (i :: rest) = .error e := by
  simp only [planGo]
  cases hg : getOpIdx L true nops i with
  | error e => exact ⟨e, rfl⟩
  | ok k =>
    obtain ⟨e, he⟩ := windowOk_error L i hL n (n - 1) (by omega) (by omega)
    exact ⟨e, by simp [he]⟩

/-- **`sites1` / `sites2` of `correlation_function` after parsing** are sorted ascending and contain
exactly the requested sites; distinct sites give a STRICTLY ascending list (what the sweep
theorems `C08_corr_up_diag_*` assume). -/
theorem C08_corr_sites_sorted (L : Nat) (a : SitesArg) :
    (corrSitesArg L a).Pairwise (· ≤ ·) ∧
    (corrSitesArg L a).Perm (match a with | .none => List.range L | .int k => List.range k | .list l => l) ∧
    ((match a with | .none => List.range L | .int k => List.range k | .list l => l).Nodup →
      (corrSitesArg L a).Pairwise (· < ·)) := by
  have key : ∀ l : List Nat, (l.mergeSort (fun a b => decide (a ≤ b))).Pairwise (· ≤ ·) ∧
      (l.mergeSort (fun a b => decide (a ≤ b))).Perm l ∧
      (l.Nodup → (l.mergeSort (fun a b => decide (a ≤ b))).Pairwise (· < ·)) := by
    intro l
    have hs : (l.mergeSort (fun a b => decide (a ≤ b))).Pairwise (· ≤ ·) := by
      have := List.pairwise_mergeSort (le := fun (a b : Nat) => decide (a ≤ b))
        (fun a b c h1 h2 => by simp only [decide_eq_true_eq] at *; omega)
        (fun a b => by simp only [Bool.or_eq_true, decide_eq_true_eq]; omega) l
      exact this.imp (fun h => by simpa using h)
    refine ⟨hs, List.mergeSort_perm l _, fun hnd => ?_⟩
    have hnd' : (l.mergeSort (fun a b => decide (a ≤ b))).Nodup := (List.mergeSort_perm l _).nodup_iff.2 hnd
    have := hs.and hnd'
    exact this.imp (fun ⟨h1, h2⟩ => by omega)
  cases a with
  | none => exact key _
  | int k => exact key _
  | list l => exact key _

/-- **`j_gtr = sites2[sites2 > i]`** of a strictly ascending `sites2` is strictly ascending, lies
right of `i`, and is a sublist of `sites2`. -/
theorem C08_corr_jgtr_ok (i : Nat) (s2 : List Nat) (h : s2.Pairwise (· < ·)) :
    (jGtr i s2).Pairwise (· < ·) ∧ (∀ j, j ∈ jGtr i s2 ↔ (j ∈ s2 ∧ i < j)) := by
  refine ⟨h.filter _, fun j => ?_⟩
  simp [jGtr, List.mem_filter]

/-- **Which pairs `mutinf_two_site` returns**: `(i, j)` is a coordinate iff `i < L`, `i < j`,
`j - i ≤ max_range` (default `L`) and, for a finite chain, `j < L`. -/
theorem C08_mutinf_coords (L : Nat) (finite : Bool) (maxRange : Option Nat) (i j : Nat) :
    (i, j) ∈ mutinfCoords L finite maxRange ↔
      (i < L ∧ i < j ∧ j ≤ i + maxRange.getD L ∧ (finite = true → j < L)) := by
  simp only [mutinfCoords, List.mem_flatMap, List.mem_range, List.mem_map, List.mem_range'_1, Prod.mk.injEq]
  constructor
  · rintro ⟨i', hi', j', ⟨h1, h2⟩, rfl, rfl⟩
    cases finite
    · simp only [Bool.false_eq_true, if_false] at h2
      exact ⟨hi', by omega, by omega, by intro h; cases h⟩
    · simp only [if_true] at h2
      exact ⟨hi', by omega, by omega, by intro _; omega⟩
  · rintro ⟨h1, h2, h3, h4⟩
    refine ⟨i, h1, j, ⟨by omega, ?_⟩, rfl, rfl⟩
    cases finite
    · simp only [Bool.false_eq_true, if_false]; omega
    · have := h4 rfl
      simp only [if_true]; omega

/-- default `max_range` on a finite chain: every pair `i < j < L` exactly once, ordered by `i` then `j` -/
theorem C08_mutinf_coords_default_finite (L : Nat) :
    mutinfCoords L true none
      = (List.range L).flatMap (fun i => (List.range' (i + 1) (L - (i + 1))).map (fun j => (i, j))) := by
  simp only [mutinfCoords, Option.getD_none, if_true]
  congr 1
  funext i
  have : min (i + L + 1) L = L := by omega
  rw [this]

/-- **Default `j_R` of `term_correlation_function_right` on a finite chain**: for every offset `j`
in the default range, all of `term_L` (shifted by `i_L`) lies strictly left of all of `term_R`
(shifted by `j`), all of `term_R` is inside the chain; and the range starts with `term_R` directly
right of `term_L`. -/
theorem C08_tcf_default_jr (L : Nat) (iL : Int) (termL termR : List Int) (j : Int)
    (hj : j ∈ tcfDefaultJR L true iL termL termR) :
    (∀ t ∈ termL, ∀ u ∈ termR, iL + t < j + u) ∧ (∀ u ∈ termR, j + u < L) ∧
      iL + maxI termL + 1 - minI termR ≤ j := by
  simp only [tcfDefaultJR, if_true, mem_rangeI] at hj
  obtain ⟨h1, h2⟩ := hj
  refine ⟨fun t ht u hu => ?_, fun u hu => ?_, h1⟩
  · have a := le_maxI termL t ht
    have b := minI_le termR u hu
    omega
  · have a := le_maxI (termR ++ [0]) u (List.mem_append_left _ hu)
    omega

/-- **Known finding (doc-string vs code), witness.**  With explicit `sites` and one operator per
REQUESTED site (the doc-string example: three two-site operators for the sites 0, 2, 4 of a chain of
six) the code uses `ops[site % len(ops)]` — operators 0, 2, 1 — and not `ops[k]` for the `k`-th
requested site as the doc-string states.  (For the default `sites=None` both readings coincide,
`C08_ev_default_plan`.) -/
theorem C08_ev_ops_indexing_counterexample :
    evPlan 6 true [⟨false, 4⟩, ⟨false, 4⟩, ⟨false, 4⟩] (some [0, 2, 4]) none
      = .ok (2, [(0, 0), (2, 2), (4, 1)]) := by decide

/-! ### non-vacuity -/
namespace C08ExamplesExtArgs

example : evPlan 5 true [⟨false, 4⟩, ⟨false, 4⟩, ⟨false, 4⟩] none none
    = .ok (2, [(0, 0), (1, 1), (2, 2), (3, 0)]) := by decide
example : evPlan 3 false [⟨true, 0⟩, ⟨true, 0⟩] (some [0, 3, 4, -1]) none
    = .ok (1, [(0, 0), (3, 0), (4, 1), (-1, 0)]) := by decide
example : evPlan 5 true [⟨false, 4⟩] (some [4]) none = .error "ValueError: out of bounds for finite MPS" := by decide
example : evPlan 5 true [⟨false, 4⟩] none (some (1, 1)) = .error "ValueError: Len of axes does not match" := by decide
example : corrSitesArg 4 (.list [3, 0, 2]) = [0, 2, 3] := by
  simp [corrSitesArg, List.mergeSort, List.MergeSort.Internal.splitInTwo, List.splitAt, List.splitAt.go]
example : mutinfCoords 4 true (some 2) = [(0, 1), (0, 2), (1, 2), (1, 3), (2, 3)] := by decide
example : mutinfCoords 2 false (some 2) = [(0, 1), (0, 2), (1, 2), (1, 3)] := by decide
example : tcfDefaultJR 8 true 1 [0, 1] [0, 2] = [3, 4, 5] ∧ tcfDefaultJR 2 false 0 [0] [0] = [2, 4, 6, 8, 10, 12, 14, 16, 18, 20] := by
  decide

end C08ExamplesExtArgs
