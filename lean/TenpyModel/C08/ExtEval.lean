import TenpyModel.MPS.Eval
import TenpyModel.C08.ExtCorr
import TenpyModel.C08.ExtSample
/-
Array-memoised evaluation of the extension-round model functions for the line-protocol driver
`lean/drivers/C08.lean` (same pattern as `TenpyModel/MPS/Eval.lean`): the definitions of
`ExtCorr.lean` / `ExtSample.lean` with the intermediate matrices tabulated.  The driver cross-checks
them against the literal definitions on every run (`selfcheck` lines).  Not used by any theorem.
-/
namespace TenpyModel.MPS.Ext.EvalX
open TenpyModel.MPS TenpyModel.MPS.Eval TenpyModel.MPS.Ext

universe u
variable {α : Type u} [Zero α] [One α] [Add α] [Mul α]

/-- tabulated `rstep` (two stages: `B_bra^*·RP`, then `B_ket·…`) -/
def rstepE (cj : α → α) (R : Mat α) (sb sk : RSite α) : Array α :=
  let t1 := tabT3 sb.dL sk.d sk.dR (fun a' p b => sumN sb.dR (fun b' => cj (sb.M a' p b') * R b' b))
  let T1 := ofArrT3 sb.dL sk.d sk.dR t1
  tabMat sb.dL sk.dL (fun a' a => sumN sk.d (fun p => sumN sk.dR (fun b => sk.M a p b * T1 a' p b)))

/-- all suffix right environments: entry `k` is `rfold cj W (sbs.drop k) (sks.drop k)` with its
dimensions, tabulated -/
def rpAllE (cj : α → α) (W : Mat α) (nb nk : Nat) : List (RSite α) → List (RSite α) → List (Nat × Nat × Array α)
  | sb :: sbs, sk :: sks =>
    let rest := rpAllE cj W nb nk sbs sks
    match rest with
    | (m, n, arr) :: _ => (sb.dL, sk.dL, rstepE cj (ofArrMat m n arr) sb sk) :: rest
    | [] => []
  | _, _ => [(nb, nk, tabMat nb nk W)]

/-- `corrSweep` with the shared left part tabulated after every site -/
def corrSweepE (cj : α → α) (ops2 : Nat → Mat α) (str : Option (Nat → Mat α)) (RP : Nat → Mat α)
    (rmax : Nat) : Nat → Mat α → List (RSite α) → List (RSite α) → List Nat → List α
  | r, C, sb :: sbs, sk :: sks, j :: js =>
    if rmax < r then []
    else if r = j then
      let hit := tmStepE cj C sb (opSite (ops2 r) sk)
      let cij := closeRP sb.dR sk.dR (ofArrMat sb.dR sk.dR hit) (RP r)
      List.replicate ((js.takeWhile (fun j' => j' == r)).length + 1) cij ++
        (match js.dropWhile (fun j' => j' == r) with
         | [] => []
         | j2 :: js2 =>
           let arr := tmStepE cj C sb (strSite str r sk)
           corrSweepE cj ops2 str RP rmax (r + 1) (ofArrMat sb.dR sk.dR arr) sbs sks (j2 :: js2))
    else
      let arr := tmStepE cj C sb (strSite str r sk)
      corrSweepE cj ops2 str RP rmax (r + 1) (ofArrMat sb.dR sk.dR arr) sbs sks (j :: js)
  | _, _, _, _, _ => []

def corrUpDiagE (cj : α → α) (LP : Mat α) (sbI skI : RSite α) (opA : Mat α) (sof first : Bool)
    (opsB : Nat → Mat α) (str : Option (Nat → Mat α)) (RP : Nat → Mat α) (i : Nat)
    (sbs sks : List (RSite α)) (js : List Nat) : List α :=
  let arr := tmStepE cj LP sbI (opSite (firstOp skI.d opA (str.map (fun S => S i)) sof first) skI)
  corrSweepE cj opsB str RP (js.getLast?.getD 0) (i + 1) (ofArrMat sbI.dR skI.dR arr) sbs sks js

/-- `sampleRange` with `theta` tabulated after every site -/
def sampleRangeE (chiL : Nat) (w winv : Nat → α) (full : Bool) :
    Nat → Mat α → α → List (RSite α) → List Nat → α
  | i, Θ, tot, s :: ss, p :: ps =>
    match ss with
    | [] => if full then tot * w i * (mstep Θ s p 0 0 * winv i) else tot * w i
    | _ :: _ =>
      let arr := tabMat chiL s.dR (fun a b => winv i * mstep Θ s p a b)
      sampleRangeE chiL w winv full (i + 1) (ofArrMat chiL s.dR arr) (tot * w i) ss ps
  | _, _, tot, _, _ => tot

/-- `sampleNormSqs` with `theta` tabulated -/
def sampleNormSqsE (cj : α → α) (chiL : Nat) (winv : Nat → α) :
    Nat → Mat α → List (RSite α) → List Nat → List α
  | i, Θ, s :: ss, p :: ps =>
    let a0 := tabMat chiL s.dR (mstep Θ s p)
    let arr := tabMat chiL s.dR (fun a b => winv i * (ofArrMat chiL s.dR a0) a b)
    normsq cj chiL s.dR (ofArrMat chiL s.dR a0) ::
      sampleNormSqsE cj chiL winv (i + 1) (ofArrMat chiL s.dR arr) ss ps
  | _, _, _, _ => []

end TenpyModel.MPS.Ext.EvalX
