/-
C08 extension round — the glue around the measurement functions of `tenpy/networks/mps.py`:
argument parsing, defaults, operator selection, loop ranges, the branches that raise.
Import-free.

Anchors:
* `validSite`      — `MPSGeometry._to_valid_site_index(i, return_num_unit_cells=True)`
* `getOpIdx`       — `BaseMPSExpectationValue.get_op(op_list, i)`: which entry of `op_list`
* `evArgs`         — `_expectation_value_args(ops, sites, axes)`
* `evPlan`         — the loop of `expectation_value`: `(site, operator index)` per entry, `get_theta(i, n)`
                     must be inside a finite chain
* `corrSitesArg`   — `_correlation_function_args`: `None → range(L)`, `int k → range(k)`, `np.sort`
* `mutinfCoords`   — the double loop of `mutinf_two_site` (which pairs, in which order)
* `tcfDefaultJR`   — the default `j_R` of `term_correlation_function_right`
-/
namespace TenpyModel.MPS.Ext

/-- `_to_valid_site_index(i, return_num_unit_cells=True)` → `(i_in_unit_cell, num_unit_cells)`.
`divmod(i, L)`; finite: unit cell `-1` is still accepted (FutureWarning) and mapped to `0`, any other
non-zero unit cell raises `ValueError`. -/
def validSite (L : Nat) (finite : Bool) (i : Int) : Except String (Nat × Int) :=
  if L = 0 then .error "ZeroDivisionError"
  else
    let n := i / (L : Int)
    let r := (i % (L : Int)).toNat
    let n' := if finite && n == -1 then 0 else n
    if finite && n' != 0 then .error "ValueError: out of bounds for finite MPS" else .ok (r, n')

/-- `get_op(op_list, i)`: `op_list[i_in_unit_cell % len(op_list)]` -/
def getOpIdx (L : Nat) (finite : Bool) (nops : Nat) (i : Int) : Except String Nat :=
  match validSite L finite i with
  | .error e => .error e
  | .ok (r, _) => if nops = 0 then .error "ZeroDivisionError" else .ok (r % nops)

/-- what `_expectation_value_args` looks at in one entry of `ops` -/
structure OpDesc where
  isStr : Bool
  /-- number of legs of an array operator (`2 n`) -/
  rank : Nat
deriving DecidableEq, Repr

/-- `_expectation_value_args(ops, sites, axes)` → `(n, sites)`.
`n = 1` if any operator is a string, else `ops[s % len(ops)].rank // 2` with `s = sites[0]` (`0` for
`sites=None`); default sites `range(L - (n-1))` (finite) / `range(L)`; explicit `axes` must consist of
two lists of length `n`. -/
def evArgs (L : Nat) (finite : Bool) (ops : List OpDesc) (sites : Option (List Int))
    (axesLen : Option (Nat × Nat)) : Except String (Nat × List Int) :=
  let nE : Except String Nat :=
    if ops.any (·.isStr) then .ok 1
    else
      let sE : Except String Int := match sites with
        | none => .ok 0
        | some [] => .error "IndexError"
        | some (s :: _) => .ok s
      match sE with
      | .error e => .error e
      | .ok s =>
        if ops.length = 0 then .error "ZeroDivisionError"
        else .ok ((ops.getD (s % (ops.length : Int)).toNat ⟨false, 0⟩).rank / 2)
  match nE with
  | .error e => .error e
  | .ok n =>
    let ss : List Int := match sites with
      | some l => l
      | none => if finite then (List.range ((L : Int) - ((n : Int) - 1)).toNat).map (fun (k : Nat) => (k : Int))
                else (List.range L).map (fun (k : Nat) => (k : Int))
    match axesLen with
    | none => .ok (n, ss)
    | some (a, b) => if a ≠ n ∨ b ≠ n then .error "ValueError: Len of axes does not match" else .ok (n, ss)

/-- all of `get_theta(i, n)`'s sites valid -/
def windowOk (L : Nat) (finite : Bool) (i : Int) : Nat → Except String Unit
  | 0 => .ok ()
  | k + 1 => match windowOk L finite i k with
    | .error e => .error e
    | .ok _ => match validSite L finite (i + k) with
      | .error e => .error e
      | .ok _ => .ok ()

def planGo (L : Nat) (finite : Bool) (nops n : Nat) : List Int → Except String (List (Int × Nat))
  | [] => .ok []
  | i :: rest => match getOpIdx L finite nops i with
    | .error e => .error e
    | .ok k => match windowOk L finite i n with
      | .error e => .error e
      | .ok _ => match planGo L finite nops n rest with
        | .error e => .error e
        | .ok l => .ok ((i, k) :: l)

/-- the loop of `expectation_value`: per entry the site `i` and the index of the operator used;
`get_op` and `get_theta(i, n)` raise for sites outside a finite chain. -/
def evPlan (L : Nat) (finite : Bool) (ops : List OpDesc) (sites : Option (List Int))
    (axesLen : Option (Nat × Nat)) : Except String (Nat × List (Int × Nat)) :=
  match evArgs L finite ops sites axesLen with
  | .error e => .error e
  | .ok (n, ss) => match planGo L finite ops.length n ss with
    | .error e => .error e
    | .ok l => .ok (n, l)

/-- the `sites1` / `sites2` argument of `correlation_function` -/
inductive SitesArg where
  | none
  | int (k : Nat)
  | list (l : List Nat)

/-- `_correlation_function_args`: `None → range(0, L)`, `int k → range(0, k)`, then `np.sort`. -/
def corrSitesArg (L : Nat) : SitesArg → List Nat
  | .none => (List.range L).mergeSort (fun a b => decide (a ≤ b))
  | .int k => (List.range k).mergeSort (fun a b => decide (a ≤ b))
  | .list l => l.mergeSort (fun a b => decide (a ≤ b))

/-- `j_gtr = sites2[sites2 > i]` -/
def jGtr (i : Nat) (s2 : List Nat) : List Nat := s2.filter (fun j => decide (i < j))

/-- `mutinf_two_site`: `for i in range(L): jmax = i + max_range + 1 (clipped to L if finite);
for j in range(i+1, jmax): coord.append((i, j))`; `max_range=None → L`. -/
def mutinfCoords (L : Nat) (finite : Bool) (maxRange : Option Nat) : List (Nat × Nat) :=
  let mr := maxRange.getD L
  (List.range L).flatMap (fun i =>
    let jmax := if finite then min (i + mr + 1) L else i + mr + 1
    (List.range' (i + 1) (jmax - (i + 1))).map (fun j => (i, j)))

def maxI : List Int → Int
  | [] => 0
  | [a] => a
  | a :: rest => max a (maxI rest)

def minI : List Int → Int
  | [] => 0
  | [a] => a
  | a :: rest => min a (minI rest)

/-- `range(a, b)` over the integers -/
def rangeI (a b : Int) : List Int := (List.range (b - a).toNat).map (fun (k : Nat) => a + (k : Int))

/-- default `j_R` of `term_correlation_function_right` (site offsets of the two terms given):
finite: `j0 = i_L + max(term_L) + 1 - min(term_R)`, `range(j0, L - max(term_R + [0]))`;
infinite: `range(L, 11 L, L)`. -/
def tcfDefaultJR (L : Nat) (finite : Bool) (iL : Int) (termL termR : List Int) : List Int :=
  if finite then
    rangeI (iL + maxI termL + 1 - minI termR) ((L : Int) - maxI (termR ++ [0]))
  else (List.range 10).map (fun (k : Nat) => (((k + 1) * L : Nat) : Int))

end TenpyModel.MPS.Ext
