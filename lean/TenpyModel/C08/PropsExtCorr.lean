import TenpyModel.C08.ExtCorrProofs
/-!
# C08 — extension round, part 1: `_corr_up_diag` (one shared left environment for all `j`)

`correlation_function` does not evaluate its entries pair by pair: for a fixed `i` the helper
`_corr_up_diag` walks ONCE to the right, keeps the left part `C` (with the operator string applied),
and branches off one number per target site.  The model `corrUpDiag` / `corrSweep`
(`TenpyModel/C08/ExtCorr.lean`) has exactly that structure; the theorems say that the sharing is
invisible: every entry is the dense matrix element of the documented operator product.
-/
open TenpyModel.MPS TenpyModel.MPS.Ext

universe u
variable {α : Type u} [CommSemiring α]
set_option linter.unusedSectionVars false

/-- **The sweep serves every target site with the value of a separate walk for that site alone.**
For strictly ascending targets `js` (what `sites2[sites2 > i]` is after `np.sort` for distinct
sites) inside the chain, the list `_corr_up_diag` returns is, entry by entry, the result of the
single-target loop (`corrPair`: string on `r ≤ s < j`, `op2` on `j`, closed with `RP[j]`). -/
theorem C08_corr_sweep_pairs (cj : α → α) (ops2 : Nat → Mat α) (str : Option (Nat → Mat α)) (RP : Nat → Mat α)
    (sbs sks : List (RSite α)) (r : Nat) (C : Mat α) (js : List Nat)
    (hp : js.Pairwise (· < ·)) (hj : ∀ j ∈ js, r ≤ j ∧ j - r < sbs.length) (hl : sbs.length = sks.length) :
    corrSweep cj ops2 str RP (js.getLast?.getD 0) r C sbs sks js
      = js.map (fun j => corrPair cj ops2 str (RP j) j r C sbs sks) :=
  corrSweep_eq_pairs cj ops2 str RP _ sbs sks r C js hp
    (fun j hjm => ⟨(hj j hjm).1, le_getLast_of_pairwise js hp j hjm, (hj j hjm).2⟩) hl

/-- **`_corr_up_diag` = whole-chain transfer-matrix contraction, one per target.**  With
`LP = get_LP(i)` (fold over the sites left of `i`) and `RP[j] = get_RP(j)` (fold over the sites right
of `j`), entry `j` is the contraction of the WHOLE bra/ket chains with `upOps` inserted into the ket:
nothing left of `i`, `opA` (times `opstr[i]`) on `i`, `opstr[r]` on `i < r < j`, `opsB[j]` on `j`. -/
theorem C08_corr_up_diag_chain (cj : α → α) (E0 : Mat α) (wb wk : Vec α) (lb lk : List (RSite α)) (sbI skI : RSite α)
    (sbs sks : List (RSite α)) (opA : Mat α) (sof first : Bool) (opsB : Nat → Mat α)
    (str : Option (Nat → Mat α)) (RP : Nat → Mat α) (js : List Nat) (nb0 nk0 : Nat)
    (hll : lb.length = lk.length) (hl : sbs.length = sks.length)
    (hb : ChainOK sbI.dR sbs) (hk : ChainOK skI.dR sks)
    (hp : js.Pairwise (· < ·)) (hj : ∀ j ∈ js, lb.length < j ∧ j - lb.length - 1 < sbs.length)
    (hRP : ∀ j ∈ js, RP j = rfold cj (fun b' b => cj (wb b') * wk b)
        (sbs.drop (j - lb.length)) (sks.drop (j - lb.length))) :
    corrUpDiag cj (tmFold cj E0 lb lk) sbI skI opA sof first opsB str RP lb.length sbs sks js
      = js.map (fun j => closeMat cj (lastDim nb0 (lb ++ sbI :: sbs)) (lastDim nk0 (lk ++ skI :: sks))
          (tmFold cj E0 (lb ++ sbI :: sbs)
            (applyOps (upOps skI.d opA opsB str lb.length j sof first) (lk ++ skI :: sks))) wb wk) :=
  corrUpDiag_eq_chain cj E0 wb wk lb lk sbI skI sbs sks opA sof first opsB str RP js nb0 nk0 hll hl hb hk hp hj hRP

theorem dims_getD_mid (lk : List (RSite α)) (skI : RSite α) (sks : List (RSite α)) :
    (dims (lk ++ skI :: sks)).getD lk.length 0 = skI.d := by
  simp [dims, List.getD]

/-- **Upper triangle (`j > i`): every entry of the sweep is the dense value of the documented
product.**  `_corr_up_diag(ops1, ops2, i, j_gtr, opstr, str_on_first, True)` returns for each
`j ∈ j_gtr` the number `Σ_σ conj(bra σ) · (ops1[i] Π_{i≤r<j} opstr[r] ops2[j] ket)(σ)`
(`<` for `str_on_first=False`), although all targets share one left environment. -/
theorem C08_corr_up_diag_upper_dense {cj : α → α} (hcj : ConjLike cj) (vb vk wb wk : Vec α)
    (lb lk : List (RSite α)) (sbI skI : RSite α) (sbs sks : List (RSite α)) (ops1 ops2 : Nat → Mat α)
    (str : Option (Nat → Mat α)) (sof : Bool) (RP : Nat → Mat α) (js : List Nat) (nb0 nk0 : Nat)
    (hll : lb.length = lk.length) (hl : sbs.length = sks.length)
    (hb : ChainOK sbI.dR sbs) (hk : ChainOK skI.dR sks)
    (hp : js.Pairwise (· < ·)) (hj : ∀ j ∈ js, lb.length < j ∧ j - lb.length - 1 < sbs.length)
    (hRP : ∀ j ∈ js, RP j = rfold cj (fun b' b => cj (wb b') * wk b)
        (sbs.drop (j - lb.length)) (sks.drop (j - lb.length))) :
    corrUpDiag cj (tmFold cj (outer cj vb vk) lb lk) sbI skI (ops1 lb.length) sof true ops2 str RP lb.length sbs sks js
      = js.map (fun j => sumCfg (dims (lk ++ skI :: sks)) (fun σ =>
          cj (close (lastDim nb0 (lb ++ sbI :: sbs)) (contract vb (lb ++ sbI :: sbs) σ) wb) *
            close (lastDim nk0 (lk ++ skI :: sks))
              (fun b => docDense (dims (lk ++ skI :: sks)) ops1 ops2 str lb.length j sof
                (fun τ => contract vk (lk ++ skI :: sks) τ b) σ) wk)) := by
  rw [C08_corr_up_diag_chain cj _ wb wk lb lk sbI skI sbs sks _ sof true ops2 str RP js nb0 nk0 hll hl hb hk hp hj hRP]
  refine List.map_congr_left (fun j hjm => ?_)
  obtain ⟨h1, h2⟩ := hj j hjm
  have hlen : (lk ++ skI :: sks).length = lk.length + 1 + sks.length := by simp; omega
  have hco : corrOps (fun r => (dims (lk ++ skI :: sks)).getD r 0) ops1 ops2 str lb.length j sof
      = upOps skI.d (ops1 lb.length) ops2 str lb.length j sof true := by
    rw [upOps_eq_range _ _ _ _ _ _ _ _ h1]
    simp only [corrOps, h1, if_true]
    rw [hll, dims_getD_mid]
  rw [← hco]
  exact C08_corr_order hcj vb vk (lb ++ sbI :: sbs) (lk ++ skI :: sks) _ _ wb wk ops1 ops2 str lb.length j sof
    (by rw [hlen]; omega) (by rw [hlen]; omega)

/-- **Lower triangle (`i > j`): the second loop of `correlation_function`**,
`_corr_up_diag(ops2, ops1, j, i_gtr, opstr, str_on_first, False)`, returns for each `i ∈ i_gtr`
the dense value of `Π_{j≤r<i} opstr[r] · ops1[i] · ops2[j]` (on site `j` the string acts AFTER
`ops2[j]`). -/
theorem C08_corr_up_diag_lower_dense {cj : α → α} (hcj : ConjLike cj) (vb vk wb wk : Vec α)
    (lb lk : List (RSite α)) (sbJ skJ : RSite α) (sbs sks : List (RSite α)) (ops1 ops2 : Nat → Mat α)
    (str : Option (Nat → Mat α)) (sof : Bool) (RP : Nat → Mat α) (is : List Nat) (nb0 nk0 : Nat)
    (hll : lb.length = lk.length) (hl : sbs.length = sks.length)
    (hb : ChainOK sbJ.dR sbs) (hk : ChainOK skJ.dR sks)
    (hp : is.Pairwise (· < ·)) (hi : ∀ i ∈ is, lb.length < i ∧ i - lb.length - 1 < sbs.length)
    (hRP : ∀ i ∈ is, RP i = rfold cj (fun b' b => cj (wb b') * wk b)
        (sbs.drop (i - lb.length)) (sks.drop (i - lb.length))) :
    corrUpDiag cj (tmFold cj (outer cj vb vk) lb lk) sbJ skJ (ops2 lb.length) sof false ops1 str RP lb.length sbs sks is
      = is.map (fun i => sumCfg (dims (lk ++ skJ :: sks)) (fun σ =>
          cj (close (lastDim nb0 (lb ++ sbJ :: sbs)) (contract vb (lb ++ sbJ :: sbs) σ) wb) *
            close (lastDim nk0 (lk ++ skJ :: sks))
              (fun b => docDense (dims (lk ++ skJ :: sks)) ops1 ops2 str i lb.length sof
                (fun τ => contract vk (lk ++ skJ :: sks) τ b) σ) wk)) := by
  rw [C08_corr_up_diag_chain cj _ wb wk lb lk sbJ skJ sbs sks _ sof false ops1 str RP is nb0 nk0 hll hl hb hk hp hi hRP]
  refine List.map_congr_left (fun i him => ?_)
  obtain ⟨h1, h2⟩ := hi i him
  have hlen : (lk ++ skJ :: sks).length = lk.length + 1 + sks.length := by simp; omega
  have n1 : ¬ i < lb.length := by omega
  have n2 : ¬ i = lb.length := by omega
  have hco : corrOps (fun r => (dims (lk ++ skJ :: sks)).getD r 0) ops1 ops2 str i lb.length sof
      = upOps skJ.d (ops2 lb.length) ops1 str lb.length i sof false := by
    rw [upOps_eq_range _ _ _ _ _ _ _ _ h1]
    simp only [corrOps, n1, n2, if_false]
    rw [hll, dims_getD_mid]
  rw [← hco]
  exact C08_corr_order hcj vb vk (lb ++ sbJ :: sbs) (lk ++ skJ :: sks) _ _ wb wk ops1 ops2 str i lb.length sof
    (by rw [hlen]; omega) (by rw [hlen]; omega)

/-! ### non-vacuity -/
namespace C08ExamplesExtCorr
open C08Examples2

/-- right environments of the chain `[t0, t1, t2]` closed with `δ_0` vectors -/
def RPx : Nat → Mat Int := fun j =>
  rfold (fun x => x) (fun b' b => (delta b' 0 : Int) * delta b 0) ([t1, t2].drop (j - 0)) ([t1, t2].drop (j - 0))

/-- the sweep from site 0 over the targets 1 and 2 with the string `Z`: two different numbers, and the
second one differs from what one gets when the string is NOT applied on site 1 after branching off -/
example : corrUpDiag (fun x => x) (outer (fun x => x) (fun a => delta a 0) (fun a => delta a 0)) t0 t0 (opA 0) true true
      opB (some opZ) RPx 0 [t1, t2] [t1, t2] [1, 2] = [-628, 432] := by decide

example : corrPair (fun x => x) opB none (RPx 2) 2 1
      (tmStep (fun x => x) (outer (fun x => x) (fun a => delta a 0) (fun a => delta a 0)) t0
        (opSite (firstOp 2 (opA 0) (some (opZ 0)) true true) t0)) [t1, t2] [t1, t2] = -424 := by decide

/-- instance of the dense theorem (hypotheses discharged on the concrete chain) -/
example : corrUpDiag (fun x => x) (tmFold (fun x => x) (outer (fun x => x) (fun a => delta a 0) (fun a => delta a 0)) [] [])
      t0 t0 (opA ([] : List (RSite Int)).length) true true opB (some opZ) RPx ([] : List (RSite Int)).length [t1, t2] [t1, t2] [1, 2]
    = [1, 2].map (fun j => sumCfg (dims ([] ++ t0 :: [t1, t2])) (fun σ =>
        close (lastDim 1 ([] ++ t0 :: [t1, t2])) (contract (fun a => delta a 0) ([] ++ t0 :: [t1, t2]) σ) (fun a => delta a 0) *
          close (lastDim 1 ([] ++ t0 :: [t1, t2]))
            (fun b => docDense (dims ([] ++ t0 :: [t1, t2])) opA opB (some opZ) ([] : List (RSite Int)).length j true
              (fun τ => contract (fun a => delta a 0) ([] ++ t0 :: [t1, t2]) τ b) σ) (fun a => delta a 0))) :=
  C08_corr_up_diag_upper_dense (cj := fun x : Int => x) ConjLike.id _ _ _ _ [] [] t0 t0 [t1, t2] [t1, t2] opA opB (some opZ)
    true RPx [1, 2] 1 1 rfl rfl ⟨rfl, rfl, trivial⟩ ⟨rfl, rfl, trivial⟩ (by decide)
    (by intro j hj; simp only [List.mem_cons, List.not_mem_nil, or_false] at hj; rcases hj with rfl | rfl <;> decide)
    (by intro j hj; rfl)

end C08ExamplesExtCorr
