import TenpyModel.C08.Props
import TenpyModel.MPS.P2_Corr
import TenpyModel.MPS.P2_Rho
import TenpyModel.C12.Props2
/-!
# C08 — second round: operator order of `correlation_function`, `get_rho_segment`, windows of
infinite overlaps

* `C08_corr_order` — for every pair `(i, j)` (`i < j`, `i = j`, `i > j`), operator string or not,
  `str_on_first` or not, the number `correlation_function` computes is
  `⟨bra| ops1[i] · Π opstr[r] · ops2[j] |ket⟩` with the dense one-site operators multiplied in the
  documented order; `C08_corr_order_chain` is the same statement on the tensors;
  `C08_corr_order_JW` links the automatic Jordan–Wigner string to `C12_corr_autoJW`.
* `C08_rho_segment` — contiguous `get_rho_segment` = partial trace of the dense `|ψ⟩⟨ψ|`.
* `C08_overlap_infinite_window` — `n` applications of the unit-cell transfer matrix = dense overlap
  of the window of `n` unit cells.
-/
open TenpyModel.MPS

universe u
variable {α : Type u} [CommSemiring α]
set_option linter.unusedSectionVars false

/-- **Operator order of `correlation_function`, on the tensors.**  The operators the code places on
the sites (`corrOps`: `_corr_up_diag` with `apply_opstr_first = True` for `i < j`, the product
`op1·op2` for `i = j`, `_corr_up_diag` with exchanged operators and `apply_opstr_first = False` for
`i > j`) give exactly the chain obtained by applying the documented product factor by factor,
right-most factor first: `ops2[j]`, then the string on `min(i,j) ≤ r < max(i,j)` (`<` for
`str_on_first=False`), then `ops1[i]` for `i < j`;  `ops2[j]`, then `ops1[i]`, then the string for
`i > j` (on site `j` the string acts AFTER `ops2[j]`). -/
theorem C08_corr_order_chain (ops1 ops2 : Nat → Mat α) (str : Option (Nat → Mat α)) (i j : Nat) (sof : Bool)
    (ss : List (RSite α)) :
    applyOps (corrOps (fun r => (dims ss).getD r 0) ops1 ops2 str i j sof) ss
      = docProduct ops1 ops2 str i j sof ss :=
  corrOps_eq_docProduct ops1 ops2 str i j sof ss

/-- **`correlation_function` = dense expectation value of the documented operator product.**
Contracting bra and ket transfer matrices with the operators of `corrOps` inserted into the ket
equals `Σ_σ conj(bra σ) · (O ket)(σ)` where `O ket = docDense …` is
`ops1[i] Π_{i≤r<j} opstr[r] ops2[j]` (`i < j`), `Π_{j≤r<i} opstr[r] ops1[i] ops2[j]` (`i > j`),
`ops1[i] ops2[i]` (`i = j`) applied to the dense ket one site operator after the other
(`b` = open right bond index of the ket, closed with `wk`). -/
theorem C08_corr_order {cj : α → α} (hcj : ConjLike cj) (vb vk : Vec α) (sbs sks : List (RSite α))
    (nb nk : Nat) (wb wk : Vec α) (ops1 ops2 : Nat → Mat α) (str : Option (Nat → Mat α)) (i j : Nat)
    (sof : Bool) (hi : i < sks.length) (hj : j < sks.length) :
    overlapTM cj vb vk sbs (applyOps (corrOps (fun r => (dims sks).getD r 0) ops1 ops2 str i j sof) sks)
        nb nk wb wk
      = sumCfg (dims sks) (fun σ =>
          cj (close nb (contract vb sbs σ) wb) *
            close nk (fun b => docDense (dims sks) ops1 ops2 str i j sof (fun τ => contract vk sks τ b) σ) wk) := by
  rw [corrOps_eq_docProduct, C08_overlap hcj, dims_docProduct]
  apply sumCfg_congr_len
  intro σ hσ
  have hl : σ.length = sks.length := by rw [hσ]; simp [dims]
  congr 2
  funext b
  exact contract_docProduct ops1 ops2 str i j sof sks vk b σ hi hj hl

/-! ### the automatic Jordan–Wigner string -/

/-- `Site.get_op('A B C')`: the named factors multiplied from left to right -/
def evalName (ev : String → Mat α) (d : Nat) : TenpyModel.C12.Word → Mat α
  | [] => idMat
  | a :: w => w.foldl (fun acc b => matMul d acc (ev b)) (ev a)

theorem evalName_snoc (ev : String → Mat α) (d : Nat) (w : TenpyModel.C12.Word) (hw : w ≠ []) (x : String) :
    evalName ev d (w ++ [x]) = matMul d (evalName ev d w) (ev x) := by
  cases w with
  | nil => exact absurd rfl hw
  | cons a w => simp [evalName, List.foldl_append]

open TenpyModel.C12 in
/-- **`autoJW` of `correlation_function` places the Jordan–Wigner image** (link to
`C12_corr_autoJW`).  If the decision function returns `opstr = s` (`None` or `'JW'`), then for
`i ∈ sites1`, `j ∈ sites2`, `i < j` the operator the contraction uses on every site `i ≤ k ≤ j`
is the evaluation of the name word `prodAt k T` that the ordered product of the Jordan–Wigner
images of `ops1[i]`, `ops2[j]` puts on site `k` (nothing where that word is empty): `op1·JW` on
site `i`, `JW` strictly between, `op2` on site `j`. -/
theorem C08_corr_order_JW (ev : String → Mat α) (dims : Nat → Nat) (sites : JWSites) (ops1 ops2 : List Word)
    (sites1 sites2 : List Int) (sof : Bool) (s : Option String)
    (hr : corrAutoJW sites ops1 ops2 sites1 sites2 sof = .ok s)
    (i j : Nat) (hi : (i : Int) ∈ sites1) (hj : (j : Int) ∈ sites2) (hij : i < j)
    (hne1 : pyIdx ops1 i ≠ []) (hne2 : pyIdx ops2 j ≠ []) :
    let T : List SOp := [(pyIdx ops1 i, (i : Int), opNeedsJW (siteAt sites i) (pyIdx ops1 i)),
                         (pyIdx ops2 j, (j : Int), opNeedsJW (siteAt sites j) (pyIdx ops2 j))]
    ∀ k, i ≤ k → k ≤ j →
      (corrOps dims (fun r => evalName ev (dims r) (pyIdx ops1 r)) (fun r => evalName ev (dims r) (pyIdx ops2 r))
          (s.map (fun w _ => ev w)) i j sof)[k]?
        = some (if prodAt (k : Int) T = [] then none else some (evalName ev (dims k) (prodAt (k : Int) T))) := by
  intro T k hik hkj
  obtain ⟨_, h2, h3, h4⟩ := C12_corr_autoJW sites ops1 ops2 sites1 sites2 sof
  obtain ⟨_, hmid, hfirst⟩ := h4 s hr (i : Int) hi (j : Int) hj (by omega)
  have hlast : prodAt (j : Int) T = pyIdx ops2 j := by
    have n1 : ¬ ((j : Int) = (i : Int)) := by omega
    have n2 : ¬ ((j : Int) < (i : Int)) := by omega
    simp [T, prodAt, imgAt, n1, n2]
  have hsof : s = some "JW" → sof = true := fun hs => ((h2.1 (hs ▸ hr)).2.2.2)
  have hlook : (corrOps dims (fun r => evalName ev (dims r) (pyIdx ops1 r))
      (fun r => evalName ev (dims r) (pyIdx ops2 r)) (s.map (fun w _ => ev w)) i j sof)[k]?
      = some (corrUpDiagAt (dims i) (evalName ev (dims i) (pyIdx ops1 i)) (evalName ev (dims j) (pyIdx ops2 j))
          (s.map (fun w _ => ev w)) i j sof true k) := by
    simp only [corrOps, hij, if_true, List.getElem?_map]
    rw [List.getElem?_range (by omega)]; rfl
  rw [hlook]
  congr 1
  simp only [corrUpDiagAt]
  have n0 : ¬ k < i := by omega
  by_cases hki : k = i
  · subst hki
    have hp : prodAt (k : Int) T ≠ [] := by
      rw [show prodAt (k : Int) T = _ from hfirst]
      intro h; exact hne1 (List.append_eq_nil_iff.1 h).1
    rw [show prodAt (k : Int) T = _ from hfirst] at hp ⊢
    rcases h3 s hr with rfl | rfl
    · simp only [List.append_nil] at hp ⊢
      simp [hp]
    · have := hsof rfl
      subst this
      simp only [lt_irrefl, if_false, if_true, Option.map_some, hp, evalName_snoc ev (dims k) _ hne1]
  · by_cases hkj2 : k < j
    · have e := hmid (k : Int) (by omega) (by omega)
      rcases h3 s hr with rfl | rfl
      · simp [n0, hki, hkj2, show prodAt (k : Int) T = _ from e]
      · simp [n0, hki, hkj2, show prodAt (k : Int) T = _ from e, evalName]
    · have e : k = j := by omega
      subst e
      simp [n0, hki, hlast, hne2]

/-! ### reduced density matrix of a contiguous segment -/

/-- **`get_rho_segment` (contiguous) = partial trace of the dense `|ψ⟩⟨ψ|`.**  For a chain
`left ++ seg ++ right` with left-isometric `left` and right-isometric `right` tensors (the canonical
form), `seg` being the tensors `get_theta(i0, n)` contracts,
`Σ_{λ,ρ} ψ(λ σ ρ) conj ψ(λ σ' ρ) = Σ_{a,b} θ(a,σ,b) conj θ(a,σ',b)` — the right-hand side is
`tensordot(theta, theta.conj(), axes=(['vL','vR'],['vL*','vR*']))`. -/
theorem C08_rho_segment {cj : α → α} (hcj : ConjLike cj) (hcj1 : cj 1 = 1) (left seg right : List (RSite α))
    (hcl : ChainOK 1 left) (hcs : ChainOK (lastDim 1 left) seg)
    (hcr : ChainOK (lastDim (lastDim 1 left) seg) right)
    (hlast : lastDim (lastDim (lastDim 1 left) seg) right = 1) (hne : seg ≠ [])
    (hL : ∀ t ∈ left, LeftIso cj t) (hR : ∀ t ∈ right, RightIso cj t)
    (σ σ' : List Nat) (hσ : seg.length = σ.length) (hσ' : seg.length = σ'.length) :
    sumCfg (dims left) (fun l => sumCfg (dims right) (fun ρ =>
        ampOf (left ++ seg ++ right) (l ++ σ ++ ρ) * cj (ampOf (left ++ seg ++ right) (l ++ σ' ++ ρ))))
      = sumN (lastDim 1 left) (fun a => sumN (lastDim (lastDim 1 left) seg) (fun b =>
          contract (fun a' => delta a a') seg σ b * cj (contract (fun a' => delta a a') seg σ' b))) :=
  rho_segment_eq left seg right hcj hcj1 hcl hcs hcr hlast hne hL hR σ σ' hσ hσ'

/-! ### windows of an infinite overlap -/

/-- `n` copies of the unit cell -/
def repCell (n : Nat) (cell : List (RSite α)) : List (RSite α) := (List.replicate n cell).flatten

theorem tmFold_repCell (cj : α → α) (cb ck : List (RSite α)) (hlen : cb.length = ck.length) (n : Nat) :
    ∀ E : Mat α, tmFold cj E (repCell n cb) (repCell n ck) = (fun E => tmFold cj E cb ck)^[n] E := by
  induction n with
  | zero => intro E; rfl
  | succ n ih =>
    intro E
    simp only [repCell, List.replicate_succ, List.flatten_cons, Function.iterate_succ, Function.comp]
    rw [tmFold_append cj E cb ck _ _ hlen]
    exact ih _

/-- **Transfer-matrix power = overlap on a window of `n` unit cells** (`TransferMatrix.matvec`
applied `n` times to a rank-one start, closed with vectors): the dense inner product of bra and ket
on the `n·L` sites of the window.  (The overlap per unit cell of two infinite MPS is the dominant
eigenvalue of this map — the eigenvalue problem itself is outside the model.) -/
theorem C08_overlap_infinite_window {cj : α → α} (hcj : ConjLike cj) (cb ck : List (RSite α))
    (hlen : cb.length = ck.length) (vb vk : Vec α) (nb nk : Nat) (wb wk : Vec α) (n : Nat) :
    closeMat cj nb nk ((fun E => tmFold cj E cb ck)^[n] (outer cj vb vk)) wb wk
      = sumCfg (dims (repCell n ck)) (fun σ =>
          cj (close nb (contract vb (repCell n cb) σ) wb) * close nk (contract vk (repCell n ck) σ) wk) := by
  rw [← tmFold_repCell cj cb ck hlen n, ← C08_overlap hcj]
  rfl

/-! ### non-vacuity -/
namespace C08Examples2
open TenpyModel.MPS

/-- three sites over ℤ, bond dimensions 1-2-2-1 -/
def t0 : RSite Int := { dL := 1, d := 2, dR := 2, M := fun _ p b => if p = b then 1 else 2 }
def t1 : RSite Int := { dL := 2, d := 2, dR := 2, M := fun a p b => (a : Int) + 2 * p - b }
def t2 : RSite Int := { dL := 2, d := 2, dR := 1, M := fun a p _ => (a : Int) + 3 * p - 1 }

/-- non-commuting one-site operators: `A = [[0,1],[0,0]]`, `B = [[1,0],[2,1]]`, string `Z = diag(1,-1)` -/
def opA : Nat → Mat Int := fun _ p q => if p = 0 ∧ q = 1 then 1 else 0
def opB : Nat → Mat Int := fun _ p q => if p = q then 1 else if p = 1 ∧ q = 0 then 2 else 0
def opZ : Nat → Mat Int := fun _ p q => if p = q then (if p = 0 then 1 else -1) else 0

/-- `i > j` with a string: the code's value is the dense value of `Z_0 Z_1 · A_2 · B_0` (instance of
the theorem), and it differs from the value with `Z` and `B` exchanged on site 0. -/
example : overlapTM (fun x => x) (fun a => delta a 0) (fun a => delta a 0) [t0, t1, t2]
      (applyOps (corrOps (fun r => (dims [t0, t1, t2]).getD r 0) opA opB (some opZ) 2 0 true) [t0, t1, t2])
      1 1 (fun a => delta a 0) (fun a => delta a 0)
    = sumCfg (dims [t0, t1, t2]) (fun σ =>
        close 1 (contract (fun a => delta a 0) [t0, t1, t2] σ) (fun a => delta a 0) *
          close 1 (fun b => docDense (dims [t0, t1, t2]) opA opB (some opZ) 2 0 true
            (fun τ => contract (fun a => delta a 0) [t0, t1, t2] τ b) σ) (fun a => delta a 0)) :=
  C08_corr_order ConjLike.id _ _ _ _ 1 1 _ _ opA opB (some opZ) 2 0 true (by decide) (by decide)

example : overlapTM (fun x => x) (fun a => delta a 0) (fun a => delta a 0) [t0, t1, t2]
      (applyOps (corrOps (fun r => (dims [t0, t1, t2]).getD r 0) opA opB (some opZ) 2 0 true) [t0, t1, t2])
      1 1 (fun a => delta a 0) (fun a => delta a 0) = -372 ∧
    overlapTM (fun x => x) (fun a => delta a 0) (fun a => delta a 0) [t0, t1, t2]
      (applyOps [some (matMul 2 (opB 0) (opZ 0)), some (opZ 1), some (opA 2)] [t0, t1, t2])
      1 1 (fun a => delta a 0) (fun a => delta a 0) = 492 := by decide

/-- the operators placed for `i < j`, `i = j`, `i > j` (all three branches, decided) -/
example : (corrOps (fun _ => 2) opA opB (some opZ) 0 2 true).map (fun o => o.map (fun O => [O 0 0, O 0 1, O 1 0, O 1 1]))
      = [some [0, -1, 0, 0], some [1, 0, 0, -1], some [1, 0, 2, 1]] ∧
    (corrOps (fun _ => 2) opA opB (some opZ) 2 0 true).map (fun o => o.map (fun O => [O 0 0, O 0 1, O 1 0, O 1 1]))
      = [some [1, 0, -2, -1], some [1, 0, 0, -1], some [0, 1, 0, 0]] ∧
    (corrOps (fun _ => 2) opA opB (some opZ) 1 1 true).map (fun o => o.map (fun O => [O 0 0, O 0 1, O 1 0, O 1 1]))
      = [none, some [2, 1, 0, 0]] ∧
    (corrOps (fun _ => 2) opA opB (some opZ) 0 2 false).map (fun o => o.map (fun O => [O 0 0, O 0 1, O 1 0, O 1 1]))
      = [some [0, 1, 0, 0], some [1, 0, 0, -1], some [1, 0, 2, 1]] := by decide

example : applyOps (corrOps (fun r => (dims [t0, t1, t2]).getD r 0) opA opB (some opZ) 0 2 true) [t0, t1, t2]
    = docProduct opA opB (some opZ) 0 2 true [t0, t1, t2] :=
  C08_corr_order_chain opA opB (some opZ) 0 2 true [t0, t1, t2]

/-- `<c†_0 c_2>` on three fermion sites: `autoJW` returns `'JW'`, the contraction uses `Cd·JW`, `JW`, `C` -/
example :
    let f := ["JW", "C", "Cd"]
    let T : List TenpyModel.C12.SOp := [(["Cd"], (0 : Int), true), (["C"], (2 : Int), true)]
    TenpyModel.C12.corrAutoJW [f, f, f] [["Cd"]] [["C"]] [0, 1] [1, 2] true = .ok (some "JW") ∧
    TenpyModel.C12.prodAt 0 T = ["Cd", "JW"] ∧ TenpyModel.C12.prodAt 1 T = ["JW"] ∧
    TenpyModel.C12.prodAt 2 T = ["C"] := by decide

example (ev : String → Mat Int) :
    (corrOps (fun _ => 2) (fun r => evalName ev 2 (TenpyModel.C12.pyIdx [["Cd"]] r))
        (fun r => evalName ev 2 (TenpyModel.C12.pyIdx [["C"]] r))
        ((some "JW").map (fun w _ => ev w)) 0 2 true)[1]?
      = some (some (ev "JW")) := by
  have h := C08_corr_order_JW ev (fun _ => 2) [["JW", "C", "Cd"], ["JW", "C", "Cd"], ["JW", "C", "Cd"]]
    [["Cd"]] [["C"]] [0, 1] [1, 2] true (some "JW") (by decide) 0 2 (by decide) (by decide) (by decide)
    (by decide) (by decide) 1 (by decide) (by decide)
  rw [h]
  have : TenpyModel.C12.prodAt ((1 : Nat) : Int)
      [(TenpyModel.C12.pyIdx [["Cd"]] ((0 : Nat) : Int), ((0 : Nat) : Int),
          TenpyModel.C12.opNeedsJW (TenpyModel.C12.siteAt [["JW", "C", "Cd"], ["JW", "C", "Cd"], ["JW", "C", "Cd"]] ((0 : Nat) : Int))
            (TenpyModel.C12.pyIdx [["Cd"]] ((0 : Nat) : Int))),
        (TenpyModel.C12.pyIdx [["C"]] ((2 : Nat) : Int), ((2 : Nat) : Int),
          TenpyModel.C12.opNeedsJW (TenpyModel.C12.siteAt [["JW", "C", "Cd"], ["JW", "C", "Cd"], ["JW", "C", "Cd"]] ((2 : Nat) : Int))
            (TenpyModel.C12.pyIdx [["C"]] ((2 : Nat) : Int)))] = ["JW"] := by decide
  rw [this]; rfl

/-- a canonical three-site chain over ℤ: permutation isometry, centre tensor, permutation co-isometry -/
def lA : RSite Int := { dL := 1, d := 2, dR := 2, M := fun _ p b => if p = b then 1 else 0 }
def cTh : RSite Int := { dL := 2, d := 2, dR := 2, M := fun a p b => (a : Int) + 2 * p - 3 * b + 1 }
def rB : RSite Int := { dL := 2, d := 2, dR := 1, M := fun a p _ => if a = p then 1 else 0 }

theorem lA_iso : ∀ t ∈ [lA], LeftIso (fun x : Int => x) t := by
  intro t ht
  simp only [List.mem_singleton] at ht; subst ht
  intro b' b hb' hb
  have h1 : b' = 0 ∨ b' = 1 := by have : b' < 2 := hb'; omega
  have h2 : b = 0 ∨ b = 1 := by have : b < 2 := hb; omega
  rcases h1 with rfl | rfl <;> rcases h2 with rfl | rfl <;> decide

theorem rB_iso : ∀ t ∈ [rB], RightIso (fun x : Int => x) t := by
  intro t ht
  simp only [List.mem_singleton] at ht; subst ht
  intro a' a ha' ha
  have h1 : a' = 0 ∨ a' = 1 := by have : a' < 2 := ha'; omega
  have h2 : a = 0 ∨ a = 1 := by have : a < 2 := ha; omega
  rcases h1 with rfl | rfl <;> rcases h2 with rfl | rfl <;> decide

example : sumCfg (dims [lA]) (fun l => sumCfg (dims [rB]) (fun ρ =>
      ampOf ([lA] ++ [cTh] ++ [rB]) (l ++ [1] ++ ρ) * ampOf ([lA] ++ [cTh] ++ [rB]) (l ++ [0] ++ ρ)))
    = sumN 2 (fun a => sumN 2 (fun b =>
        contract (fun a' => delta a a') [cTh] [1] b * contract (fun a' => delta a a') [cTh] [0] b)) :=
  C08_rho_segment (cj := fun x : Int => x) ConjLike.id rfl [lA] [cTh] [rB] ⟨rfl, trivial⟩ ⟨rfl, trivial⟩
    ⟨rfl, trivial⟩ rfl (by simp) lA_iso rB_iso [1] [0] rfl rfl

example : sumN 2 (fun a => sumN 2 (fun b =>
    contract (fun a' => delta a a') [cTh] [1] b * contract (fun a' => delta a a') [cTh] [0] b)) = 10 := by decide

/-- two applications of the transfer matrix of the unit cell `[t1]` = overlap on two unit cells -/
example : closeMat (fun x => x) 2 2 ((fun E => tmFold (fun x => x) E [t1] [t1])^[2]
      (outer (fun x => x) (fun a => delta a 0) (fun a => delta a 1))) (fun a => delta a 1) (fun a => delta a 0)
    = sumCfg (dims (repCell 2 [t1])) (fun σ =>
        close 2 (contract (fun a => delta a 0) (repCell 2 [t1]) σ) (fun a => delta a 1) *
          close 2 (contract (fun a => delta a 1) (repCell 2 [t1]) σ) (fun a => delta a 0)) :=
  C08_overlap_infinite_window ConjLike.id [t1] [t1] rfl _ _ 2 2 _ _ 2

end C08Examples2
