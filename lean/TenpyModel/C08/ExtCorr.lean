import TenpyModel.MPS.Measure
/-
C08 extension round — model of `BaseMPSExpectationValue._corr_up_diag` (the sweep that serves *all*
`j` of one row of `correlation_function` with one shared left environment) and of the assembly of
the matrix `C` in `correlation_function` (masked assignments, on-site entries, `hermitian=True`
short cut, lower triangle with exchanged operators).

Import-free of Mathlib: executed by `lean/drivers/C08.lean`.

Anchors (`tenpy/networks/mps.py`):
* `firstOp`      — `_corr_up_diag`: `op1 = tensordot(op1, opstr1, axes)` with `axes = ['p*','p']` if
                   `apply_opstr_first` else `['p','p*']`, only if `opstr1 is not None and str_on_first`.
* `corrSweep`    — the loop `for r in range(i + 1, js[0] + 1)` of `_corr_up_diag` with the stack `js`.
* `corrUpDiag`   — the whole of `_corr_up_diag` (first site in `'Th'` form with `LP`, then the loop).
* `corrPair`     — the same loop for ONE target site `j` (the reference the sweep is proved against).
* `rstep/rfold`  — `MPSEnvironment._contract_RP` / `get_RP`.
* `corrMatrix`   — the body of `correlation_function` after argument parsing.
-/
namespace TenpyModel.MPS.Ext
open TenpyModel.MPS

universe u
variable {α : Type u}

section ring
variable [Zero α] [One α] [Add α] [Mul α]

/-- `npc.tensordot(A, B, axes=['p*','p'])`: product of two one-site operators of dimension `d` -/
def mmul (d : Nat) (A B : Mat α) : Mat α := fun p q => sumN d (fun r => A p r * B r q)

/-- `_contract_RP`: `RP' = B_ket · RP · B_bra^*`; `R b' b` has the bra index first. -/
def rstep (cj : α → α) (R : Mat α) (sb sk : RSite α) : Mat α :=
  fun a' a => sumN sk.d (fun p => sumN sk.dR (fun b =>
    sk.M a p b * sumN sb.dR (fun b' => cj (sb.M a' p b') * R b' b)))

/-- `get_RP`: right environment of the sites in the lists, innermost = right-most site. -/
def rfold (cj : α → α) (R : Mat α) : List (RSite α) → List (RSite α) → Mat α
  | [], [] => R
  | sb :: sbs, sk :: sks => rstep cj (rfold cj R sbs sks) sb sk
  | _, _ => fun _ _ => 0

/-- `npc.inner(B_bra.conj(), _contract_with_RP(op2·(C·B_ket), r))`: close the matrix `E b' b`
(legs `vR*`, `vR`) with the right environment `R b' b`. -/
def closeRP (nb nk : Nat) (E R : Mat α) : α :=
  sumN nb (fun b' => sumN nk (fun b => E b' b * R b' b))

/-- the operator `_corr_up_diag` puts on its first site `i`: `op1`, multiplied with `opstr[i]`
when `str_on_first` — `op1·opstr` (`axes=['p*','p']`) if `apply_opstr_first`, else `opstr·op1`. -/
def firstOp (d : Nat) (op1 : Mat α) (str1 : Option (Mat α)) (sof first : Bool) : Mat α :=
  match str1, sof with
  | some S, true => if first then mmul d op1 S else mmul d S op1
  | _, _ => op1

/-- `get_op(opstr, r)` applied to the ket tensor (nothing for `opstr is None`) -/
def strSite (str : Option (Nat → Mat α)) (r : Nat) (s : RSite α) : RSite α :=
  match str with
  | some S => opSite (S r) s
  | none => s

/-- The loop of `_corr_up_diag`.  `js` = the remaining target sites in ASCENDING order (the code
keeps them as a stack sorted descending and looks at / pops the top `js[-1]`), `rmax = js[0]` of the
code (the last iteration), `r` the current site, `C` the shared left part (legs `vR*`,`vR`),
`sbs/sks` the `'B'`-form tensors of bra/ket from site `r` on.

Per iteration: `C·B_ket`; if `r` is the top of the stack: branch off `Cij` with `op2` and the right
environment, append it once for EVERY copy of `r` on the stack and pop them (repaired behaviour,
`pending_fixes/C08-corr-duplicate-sites.diff`; the code as shipped pops a single copy, so that a
site listed twice in `sites2` shifts all later results); if entries remain: apply `opstr[r]` and
absorb `B_bra^*`. -/
def corrSweep (cj : α → α) (ops2 : Nat → Mat α) (str : Option (Nat → Mat α)) (RP : Nat → Mat α)
    (rmax : Nat) : Nat → Mat α → List (RSite α) → List (RSite α) → List Nat → List α
  | r, C, sb :: sbs, sk :: sks, j :: js =>
    if rmax < r then []
    else if r = j then
      List.replicate ((js.takeWhile (fun j' => j' == r)).length + 1)
          (closeRP sb.dR sk.dR (tmStep cj C sb (opSite (ops2 r) sk)) (RP r)) ++
        (match js.dropWhile (fun j' => j' == r) with
         | [] => []
         | j2 :: js2 =>
           corrSweep cj ops2 str RP rmax (r + 1) (tmStep cj C sb (strSite str r sk)) sbs sks (j2 :: js2))
    else corrSweep cj ops2 str RP rmax (r + 1) (tmStep cj C sb (strSite str r sk)) sbs sks (j :: js)
  | _, _, _, _, _ => []

/-- `_corr_up_diag(opsA, opsB, i, j_gtr, opstr, str_on_first, apply_opstr_first)`:
`LP` = `get_LP(i)` (identity for a plain MPS), `sbI/skI` = `get_B(i, 'Th')` of bra/ket,
`opA` = `opsA[i]`, `str1` = `opstr[i]`, then the sweep over the `'B'` tensors right of `i`. -/
def corrUpDiag (cj : α → α) (LP : Mat α) (sbI skI : RSite α) (opA : Mat α) (sof first : Bool)
    (opsB : Nat → Mat α) (str : Option (Nat → Mat α)) (RP : Nat → Mat α) (i : Nat)
    (sbs sks : List (RSite α)) (js : List Nat) : List α :=
  let C0 := tmStep cj LP sbI (opSite (firstOp skI.d opA (str.map (fun S => S i)) sof first) skI)
  corrSweep cj opsB str RP (js.getLast?.getD 0) (i + 1) C0 sbs sks js

/-- the loop for a single target `j` (reference): string on `r, …, j-1`, `op2` on `j`. -/
def corrPair (cj : α → α) (ops2 : Nat → Mat α) (str : Option (Nat → Mat α)) (RPj : Mat α) (j : Nat) :
    Nat → Mat α → List (RSite α) → List (RSite α) → α
  | r, C, sb :: sbs, sk :: sks =>
    if r = j then closeRP sb.dR sk.dR (tmStep cj C sb (opSite (ops2 j) sk)) RPj
    else corrPair cj ops2 str RPj j (r + 1) (tmStep cj C sb (strSite str r sk)) sbs sks
  | _, _, _, _ => 0

/-- operators of one pair on the sites `r0 … j`: string on `r0 ≤ r < j`, `op2` on `j` -/
def pairOps (ops2 : Nat → Mat α) (str : Option (Nat → Mat α)) : Nat → Nat → List (Option (Mat α))
  | r, 0 => [some (ops2 r)]
  | r, n + 1 => str.map (fun S => S r) :: pairOps ops2 str (r + 1) n

/-- operators `_corr_up_diag` uses for the pair `(i, j)`, `i < j`, on the sites `0 … j`. -/
def upOps (d : Nat) (opA : Mat α) (opsB : Nat → Mat α) (str : Option (Nat → Mat α)) (i j : Nat)
    (sof first : Bool) : List (Option (Mat α)) :=
  List.replicate i none ++
    some (firstOp d opA (str.map (fun S => S i)) sof first) :: pairOps opsB str (i + 1) (j - (i + 1))

/-! ### assembly of the matrix `C` in `correlation_function` -/

/-- `np.empty((len(sites1), len(sites2)))`: `none` = never written. -/
abbrev CMat (α : Type u) := Nat → Nat → Option α

/-- indices `k, k+1, …` of the entries of `s` that satisfy `p` -/
def maskPosFrom (p : Nat → Bool) : Nat → List Nat → List Nat
  | _, [] => []
  | k, a :: t => if p a then k :: maskPosFrom p (k + 1) t else maskPosFrom p (k + 1) t

/-- indices `y` of `s` whose entry satisfies `p` (`np.nonzero` of a boolean mask such as `sites2 > i`) -/
def maskPos (p : Nat → Bool) (s : List Nat) : List Nat := maskPosFrom p 0 s

/-- value assigned to position `y` by `C[pos] = vals` (k-th position gets k-th value) -/
def lookupAssign : List Nat → List α → Nat → Option α
  | p :: ps, v :: vs, y => if y = p then some v else lookupAssign ps vs y
  | _, _, _ => none

/-- numpy's broadcasting rule for `C[mask] = vals`: equal lengths, or a single value -/
def bcast (n : Nat) (vals : List α) : Except String (List α) :=
  if vals.length = n then .ok vals
  else match vals with
    | [v] => .ok (List.replicate n v)
    | _ => .error "shape mismatch: value array could not be broadcast to indexing result"

/-- `C[x, pos] = vals` -/
def assignRow (C : CMat α) (x : Nat) (pos : List Nat) (vals : List α) : Except String (CMat α) :=
  match bcast pos.length vals with
  | .error e => .error e
  | .ok vs => .ok (fun x' y => if x' = x then (match lookupAssign pos vs y with | some v => some v | none => C x' y)
                               else C x' y)

/-- `C[pos, y] = vals` -/
def assignCol (C : CMat α) (y : Nat) (pos : List Nat) (vals : List α) : Except String (CMat α) :=
  match bcast pos.length vals with
  | .error e => .error e
  | .ok vs => .ok (fun x y' => if y' = y then (match lookupAssign pos vs x with | some v => some v | none => C x y')
                               else C x y')

/-- what `correlation_function` gets from its helpers -/
structure CorrIn (α : Type u) where
  /-- `_corr_up_diag(ops1, ops2, i, j_gtr, opstr, str_on_first, True)` -/
  up : Nat → List Nat → List α
  /-- `_corr_up_diag(ops2, ops1, j, i_gtr, opstr, str_on_first, False)` -/
  lo : Nat → List Nat → List α
  /-- `expectation_value(op1·op2, i) / _normalize_exp_val(1.)` -/
  diag : Nat → α

/-- `j > i` part of one iteration of the first loop: `C[x, sites2 > i] = C_gtr`, and with
`hermitian`: `C[x+1:, x] = conj(C_gtr)` -/
def rowUp (cjv : α → α) (inp : CorrIn α) (s1 s2 : List Nat) (herm : Bool) (C : CMat α) (x : Nat) :
    Except String (CMat α) :=
  let i := s1.getD x 0
  let jgtr := s2.filter (fun j => decide (i < j))
  if jgtr.isEmpty then .ok C
  else
    match assignRow C x (maskPos (fun j => decide (i < j)) s2) (inp.up i jgtr) with
    | .error e => .error e
    | .ok C' =>
      if herm then assignCol C' x (List.range' (x + 1) (s1.length - (x + 1))) ((inp.up i jgtr).map cjv)
      else .ok C'

/-- `j == i` part: `C[x, sites2 == i] = <op1·op2>_i` -/
def rowDiag (inp : CorrIn α) (s1 s2 : List Nat) (C : CMat α) (x : Nat) : Except String (CMat α) :=
  let i := s1.getD x 0
  if (s2.filter (fun j => j == i)).isEmpty then .ok C
  else assignRow C x (maskPos (fun j => j == i) s2) [inp.diag i]

/-- one iteration `x, i` of the first loop of `correlation_function` -/
def rowStep (cjv : α → α) (inp : CorrIn α) (s1 s2 : List Nat) (herm : Bool) (C : CMat α) (x : Nat) :
    Except String (CMat α) :=
  match rowUp cjv inp s1 s2 herm C x with
  | .error e => .error e
  | .ok C1 => rowDiag inp s1 s2 C1 x

/-- one iteration `y, j` of the second loop (`if not hermitian`) -/
def colStep (inp : CorrIn α) (s1 s2 : List Nat) (C : CMat α) (y : Nat) : Except String (CMat α) :=
  let j := s2.getD y 0
  let igtr := s1.filter (fun i => decide (j < i))
  if igtr.isEmpty then .ok C
  else assignCol C y (maskPos (fun i => decide (j < i)) s1) (inp.lo j igtr)

def foldE {σ : Type u} (f : σ → Nat → Except String σ) : σ → List Nat → Except String σ
  | c, [] => .ok c
  | c, x :: xs => match f c x with
    | .ok c' => foldE f c' xs
    | .error e => .error e

/-- `correlation_function` after `_correlation_function_args` (sorted `sites1`, `sites2`) and the
`autoJW` decision: `hermitian` is switched off (with a warning) unless `sites1 == sites2`;
first loop over `sites1` (upper triangle, `hermitian` copy, diagonal), second loop over `sites2`
(lower triangle) unless `hermitian`; `_normalize_exp_val` multiplies every entry with `nrm`. -/
def corrMatrix (cjv : α → α) (inp : CorrIn α) (s1 s2 : List Nat) (herm0 : Bool) (nrm : α) :
    Except String (CMat α) :=
  let herm := herm0 && (s1 == s2)
  match foldE (rowStep cjv inp s1 s2 herm) (fun _ _ => none) (List.range s1.length) with
  | .error e => .error e
  | .ok C1 =>
    match (if herm then .ok C1 else foldE (colStep inp s1 s2) C1 (List.range s2.length)) with
    | .error e => .error e
    | .ok C2 => .ok (fun x y => (C2 x y).map (fun v => v * nrm))

end ring
end TenpyModel.MPS.Ext
