import TenpyModel.MPS.MeasureProofs
/-!
# C08 — MPS measurements equal dense quantum mechanics

Property theorems over the executable model (`TenpyModel/MPS/{Chain,Measure}.lean`) of
`MPSEnvironment._contract_LP/_contract_RP/full_contraction`, `MPS.overlap`,
`expectation_value(_multi_sites)`, `sample_measurements`.  `cj` is any conjugation-like map
(additive, multiplicative, `0 ↦ 0`): complex conjugation on ℂ/ℚ[i], the identity on ℝ/ℚ.
All chain lengths, all physical and bond dimensions, every commutative semiring.
-/
open TenpyModel.MPS

universe u
variable {α : Type u} [CommSemiring α]
set_option linter.unusedSectionVars false

/-- **Overlap.**  Contracting the bra/ket transfer matrices site by site (`_contract_LP`) from a
rank-one start and closing with vectors on the right equals the dense inner product
`Σ_σ conj(bra σ) · ket σ` — no canonical-form assumption, bra and ket may have different bond
dimensions.  (With `bra = ket` this is the squared norm.) -/
theorem C08_overlap {cj : α → α} (hcj : ConjLike cj) (vb vk : Vec α) (sbs sks : List (RSite α))
    (nb nk : Nat) (wb wk : Vec α) :
    overlapTM cj vb vk sbs sks nb nk wb wk
      = sumCfg (dims sks) (fun σ =>
          cj (close nb (contract vb sbs σ) wb) * close nk (contract vk sks σ) wk) :=
  overlapTM_eq_dense hcj vb vk sbs sks nb nk wb wk

/-- **One-site expectation value / matrix element** `⟨bra| O_k |ket⟩`: inserting `O` on site `k`
of the ket (`tensordot(op, B, ['p*','p'])`) and contracting the transfer matrices equals the
dense expression `Σ_σ conj(bra σ) Σ_q O(σ_k, q) ket(σ[k ↦ q])`. -/
theorem C08_expval_dense {cj : α → α} (hcj : ConjLike cj) (vb vk : Vec α) (sbs sks : List (RSite α))
    (nb nk : Nat) (wb wk : Vec α) (k : Nat) (O : Mat α) (hk : k < sks.length) :
    overlapTM cj vb vk sbs (applyAt k O sks) nb nk wb wk
      = sumCfg (dims sks) (fun σ =>
          cj (close nb (contract vb sbs σ) wb) *
            (if σ.length = sks.length then
              sumN ((dims sks).getD k 0) (fun q => O (σ.getD k 0) q * close nk (contract vk sks (σ.set k q)) wk)
             else 0)) := by
  rw [C08_overlap hcj, dims_applyAt]
  refine sumCfg_congr (fun σ => ?_)
  by_cases hl : σ.length = sks.length
  · simp only [hl, if_true]
    rw [contract_applyAt O sks k σ vk hk hl.symm, close_sumN_smul]
  · simp only [hl, if_false]
    -- configurations of the wrong length contribute nothing on either side
    have : contract vk (applyAt k O sks) σ = fun _ => 0 := by
      have hlen : (applyAt k O sks).length = sks.length := by
        have := congrArg List.length (dims_applyAt k O sks)
        simpa [dims] using this
      have : ∀ (ss : List (RSite α)) (τ : List Nat) (v : Vec α), τ.length ≠ ss.length →
          contract v ss τ = fun _ => 0 := by
        intro ss
        induction ss with
        | nil => intro τ v h; cases τ with
          | nil => simp at h
          | cons _ _ => rfl
        | cons s ss ih => intro τ v h; cases τ with
          | nil => rfl
          | cons p ps => simp only [contract]; exact ih ps _ (by simpa using h)
      exact this _ σ vk (by rw [hlen]; exact hl)
    rw [this, close_zero_left]

/-- **Product operators** (`expectation_value_multi_sites`, operator strings of
`correlation_function`, `apply_product_op`): one operator per site inserted into the ket gives
`Σ_σ conj(bra σ) Σ_τ Π_i O_i(σ_i, τ_i) ket τ`. -/
theorem C08_expval_multi {cj : α → α} (hcj : ConjLike cj) (vb vk : Vec α) (sbs sks : List (RSite α))
    (nb nk : Nat) (wb wk : Vec α) (Os : List (Mat α)) (hO : Os.length = sks.length) :
    overlapTM cj vb vk sbs (applyOps (Os.map some) sks) nb nk wb wk
      = sumCfg (dims sks) (fun σ =>
          cj (close nb (contract vb sbs σ) wb) *
            (if σ.length = sks.length then
               sumCfg (dims sks) (fun τ => prodOp Os σ τ * close nk (contract vk sks τ) wk)
             else 0)) := by
  have hd : dims (applyOps (Os.map some) sks) = dims sks := by
    clear vb vk sbs nb nk wb wk hcj
    induction Os generalizing sks with
    | nil => cases sks <;> rfl
    | cons O Os ih =>
      cases sks with
      | nil => rfl
      | cons s ss =>
        simp only [List.map_cons, applyOps, dims, List.map_cons] at ih ⊢
        rw [ih ss (by simpa using hO)]; rfl
  rw [C08_overlap hcj, hd]
  refine sumCfg_congr (fun σ => ?_)
  by_cases hl : σ.length = sks.length
  · simp only [hl, if_true]
    rw [contract_applyOps Os sks σ vk hO hl.symm]
    congr 1
    simp only [close]
    calc sumN nk (fun a => sumCfg (dims sks) (fun τ => prodOp Os σ τ * contract vk sks τ a) * wk a)
        = sumN nk (fun a => sumCfg (dims sks) (fun τ => prodOp Os σ τ * (contract vk sks τ a * wk a))) :=
          sumN_congr (fun a _ => by
            rw [mul_comm, mul_sumCfg]; exact sumCfg_congr (fun τ => by ring))
      _ = sumCfg (dims sks) (fun τ => sumN nk (fun a => prodOp Os σ τ * (contract vk sks τ a * wk a))) :=
          sumN_sumCfg_comm _ _ _
      _ = _ := sumCfg_congr (fun τ => by rw [mul_sumN])
  · simp only [hl, if_false]
    have hlen : (applyOps (Os.map some) sks).length = sks.length := by
      have := congrArg List.length hd; simpa [dims] using this
    have : ∀ (ss : List (RSite α)) (τ : List Nat) (v : Vec α), τ.length ≠ ss.length →
        contract v ss τ = fun _ => 0 := by
      intro ss
      induction ss with
      | nil => intro τ v h; cases τ with
        | nil => simp at h
        | cons _ _ => rfl
      | cons s ss ih => intro τ v h; cases τ with
        | nil => rfl
        | cons p ps => simp only [contract]; exact ih ps _ (by simpa using h)
    rw [this _ σ vk (by rw [hlen]; exact hl), close_zero_left]

theorem chainOK_append (n0 : Nat) (l1 l2 : List (RSite α)) :
    ChainOK n0 (l1 ++ l2) ↔ ChainOK n0 l1 ∧ ChainOK (lastDim n0 l1) l2 := by
  induction l1 generalizing n0 with
  | nil => simp [ChainOK, lastDim]
  | cons s l1 ih => simp only [List.cons_append, ChainOK, lastDim, ih, and_assoc]

theorem lastDim_append (n0 : Nat) (l1 l2 : List (RSite α)) :
    lastDim n0 (l1 ++ l2) = lastDim (lastDim n0 l1) l2 := by
  induction l1 generalizing n0 with
  | nil => rfl
  | cons s l1 ih => simp only [List.cons_append, lastDim, ih]

/-- **The canonical short cut** of `MPS.expectation_value`: if the sites left of `s` are
left-isometric (`'A'` form) and the sites right of it right-isometric (`'B'` form), both
environments collapse to identities and `⟨ψ|O_s|ψ⟩` is the local expression
`Σ_{a,p,b} conj(θ(a,p,b)) Σ_q O(p,q) θ(a,q,b)` in the tensor `θ = s.M` alone. -/
theorem C08_expval_canonical {cj : α → α} (left right : List (RSite α)) (s : RSite α) (O : Mat α)
    (n0 : Nat) (E : Mat α) (wb wk : Vec α)
    (hchain : ChainOK n0 (left ++ s :: right))
    (hL : ∀ t ∈ left, LeftIso cj t) (hR : ∀ t ∈ right, RightIso cj t)
    (hE : ∀ a' a, a' < n0 → a < n0 → E a' a = delta a' a)
    (hW : ∀ b' b, b' < lastDim n0 (left ++ s :: right) → b < lastDim n0 (left ++ s :: right) →
      cj (wb b') * wk b = delta b' b) :
    closeMat cj (lastDim n0 (left ++ s :: right)) (lastDim n0 (left ++ s :: right))
        (tmFold cj E (left ++ s :: right) (left ++ opSite O s :: right)) wb wk
      = sumN s.dL (fun a => sumN s.d (fun p => sumN s.dR (fun b =>
          cj (s.M a p b) * sumN s.d (fun q => O p q * s.M a q b)))) := by
  obtain ⟨hcl, hcr⟩ := (chainOK_append n0 left (s :: right)).1 hchain
  obtain ⟨hs, hcr'⟩ := hcr
  rw [tmFold_append cj E left left (s :: right) (opSite O s :: right) rfl]
  have hE1 := tmFold_id (cj := cj) left n0 E hcl hL hE
  rw [hs.symm] at hE1
  have hld : lastDim n0 (left ++ s :: right) = lastDim s.dR right := by
    rw [lastDim_append]; rfl
  rw [hld] at hW ⊢
  have hck : ChainOK s.dL (opSite O s :: right) := ⟨rfl, hcr'⟩
  have hcb : ChainOK s.dL (s :: right) := ⟨rfl, hcr'⟩
  have key := closeMat_tmFold_eq_rpFold cj wb wk (s :: right) (opSite O s :: right) s.dL s.dL
    (tmFold cj E left left) hcb hck rfl
  simp only [lastDim] at key
  have hdr : (opSite O s).dR = s.dR := rfl
  rw [hdr] at key
  rw [key]
  have hRid := rpFold_id (cj := cj) right s.dR (fun b' b => cj (wb b') * wk b) hcr' hR hW
  simp only [rpFold]
  calc sumN s.dL (fun a' => sumN s.dL (fun a => tmFold cj E left left a' a *
          rpStep cj (rpFold cj (fun b' b => cj (wb b') * wk b) right right) s (opSite O s) a' a))
      = sumN s.dL (fun a' => sumN s.dL (fun a => delta a' a *
          rpStep cj (rpFold cj (fun b' b => cj (wb b') * wk b) right right) s (opSite O s) a' a)) :=
        sumN_congr (fun a' ha' => sumN_congr (fun a ha => by rw [hE1 a' a ha' ha]))
    _ = sumN s.dL (fun a =>
          rpStep cj (rpFold cj (fun b' b => cj (wb b') * wk b) right right) s (opSite O s) a a) :=
        sumN_congr (fun a' ha' => by rw [sumN_delta_left']; simp [ha'])
    _ = _ := by
        refine sumN_congr (fun a _ => ?_)
        simp only [rpStep, opSite]
        refine sumN_congr (fun p _ => sumN_congr (fun b hb => ?_))
        have e : sumN s.dR (fun b' => cj (s.M a p b') *
            rpFold cj (fun b' b => cj (wb b') * wk b) right right b' b) = cj (s.M a p b) := by
          rw [sumN_congr (fun b' hb' => by rw [hRid b' b hb' hb]), sumN_delta_right]
          simp [hb]
        rw [e]; ring

/-- **A left-canonical chain is an isometry in the dense sense**:
`Σ_σ conj(V(σ; b')) V(σ; b) = δ(b', b)` for `V(σ; b)` the contraction of left-isometric sites —
the hypothesis `hV` of `C07_schmidt_certificate`. -/
theorem C08_left_isometry {cj : α → α} (hcj : ConjLike cj) (hcj1 : cj 1 = 1) (ts : List (RSite α))
    (hc : ChainOK 1 ts) (hiso : ∀ t ∈ ts, LeftIso cj t) (b' b : Nat)
    (hb' : b' < lastDim 1 ts) (hb : b < lastDim 1 ts) :
    sumCfg (dims ts) (fun σ =>
        cj (contract (fun a => delta a 0) ts σ b') * contract (fun a => delta a 0) ts σ b)
      = delta b' b := by
  have h1 := C08_overlap hcj (fun a => (delta a 0 : α)) (fun a => delta a 0) ts ts (lastDim 1 ts)
    (lastDim 1 ts) (fun a => delta a b') (fun a => delta a b)
  have hcl : ∀ (u : Vec α) (c : Nat), c < lastDim 1 ts → close (lastDim 1 ts) u (fun a => delta a c) = u c := by
    intro u c hc'; simp only [close]; rw [sumN_delta_right]; simp [hc']
  simp only [hcl _ b' hb', hcl _ b hb] at h1
  rw [← h1]
  simp only [overlapTM, closeMat]
  have hE : ∀ a' a, a' < 1 → a < 1 → outer cj (fun a => (delta a 0 : α)) (fun a => delta a 0) a' a = delta a' a := by
    intro a' a ha' ha
    have : a' = 0 := by omega
    have : a = 0 := by omega
    subst_vars; simp [outer, delta, hcj1]
  have hid := tmFold_id (cj := cj) ts 1 _ hc hiso hE
  calc sumN (lastDim 1 ts) (fun a' => sumN (lastDim 1 ts) (fun a =>
          tmFold cj (outer cj (fun a => delta a 0) (fun a => delta a 0)) ts ts a' a *
            (cj (delta a' b') * delta a b)))
      = sumN (lastDim 1 ts) (fun a' => sumN (lastDim 1 ts) (fun a =>
          delta a b * (delta a' a * cj (delta a' b')))) :=
        sumN_congr (fun a' ha' => sumN_congr (fun a ha => by rw [hid a' a ha' ha]; ring))
    _ = sumN (lastDim 1 ts) (fun a' => delta a' b * cj (delta a' b')) :=
        sumN_congr (fun a' _ => by rw [sumN_delta_left]; simp [hb])
    _ = cj (delta b b') := by rw [sumN_delta_left]; simp [hb]
    _ = delta b' b := by
        unfold delta; by_cases h : b = b'
        · subst h; simp [hcj1]
        · have : ¬ b' = b := fun e => h e.symm
          simp [h, this, hcj.zero]

/-- **Born weights of `sample_measurements`** (finite chain, all sites measured): whatever
non-zero numbers `w i` the projected wave functions are divided by after each site, the returned
`total_weight = Π_i w_i · θ[0,0] / w_{L-1}` is exactly the amplitude `⟨σ|ψ⟩` of the sampled
configuration (and `|·|²` of it the probability when `complex_amplitude=False`). -/
theorem C08_born (w winv : Nat → α) (hw : ∀ i, w i * winv i = 1) (ss : List (RSite α))
    (σ : List Nat) (hne : ss ≠ []) (hl : ss.length = σ.length) (v : Vec α) :
    sampleGo w winv 0 v 1 ss σ = contract v ss σ 0 := by
  rw [sampleGo_eq w winv hw ss 0 v 1 σ hne hl, one_mul]

/-! ### non-vacuity -/
namespace C08Examples

/-- a two-site chain over ℤ with bond dimension 2 -/
def s0 : RSite Int := { dL := 1, d := 2, dR := 2, M := fun _ p b => if p = b then 1 else 2 }
def s1 : RSite Int := { dL := 2, d := 2, dR := 1, M := fun a p _ => (a : Int) + 3 * p - 1 }

/-- transfer-matrix value and dense sum computed separately agree (both sides evaluated) -/
example : overlapTM (fun x => x) (fun a => delta a 0) (fun a => delta a 0) [s0, s1] [s0, s1] 1 1
    (fun a => delta a 0) (fun a => delta a 0) = 118 := by decide

example : sumCfg (dims [s0, s1]) (fun σ =>
    close 1 (contract (fun a => delta a 0) [s0, s1] σ) (fun a => delta a 0) *
    close 1 (contract (fun a => delta a 0) [s0, s1] σ) (fun a => delta a 0)) = 118 := by decide

/-- a left-isometric site over ℤ (a permutation), hypothesis of `C08_expval_canonical` -/
def iso : RSite Int := { dL := 1, d := 2, dR := 2, M := fun _ p b => if p = b then 1 else 0 }
example : LeftIso (fun x => x) iso := by
  intro b' b hb' hb
  have h1 : b' = 0 ∨ b' = 1 := by simp [iso] at hb'; omega
  have h2 : b = 0 ∨ b = 1 := by simp [iso] at hb; omega
  rcases h1 with rfl | rfl <;> rcases h2 with rfl | rfl <;> decide

end C08Examples
