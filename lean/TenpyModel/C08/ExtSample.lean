import TenpyModel.MPS.Measure
/-
C08 extension round — model of `MPS.sample_measurements` on an arbitrary window
`first_site … last_site` (non-trivial left bond: `theta` is a matrix per outcome prefix), with a
list of measurement bases `ops` and the `complex_amplitude` flag.

Anchors (`tenpy/networks/mps.py :: MPS.sample_measurements`):
* `sampleOpIdx`    — `ops[(i - first_site) % len(ops)]`
* `basisSites`     — `theta = tensordot(V.conj(), theta, ['p*','p'])` (`V` from `npc.eigh(op)`), site by site
* `mstep`          — `theta.take_slice(sigma, 'p')` of `tensordot(theta, B, ['vR','vL'])`
* `sampleNormSqs`  — the squared norms `npc.norm(theta)**2` of the projected, renormalised `theta`
* `sampleRange`    — the loop: `total_weight *= weight`; `theta /= norm`; on the last site of a finite
                     chain sampled completely `total_weight * theta[0,0] / weight`
* `sampleMeasure`  — the whole function for a given outcome (the random draw is an input)
-/
namespace TenpyModel.MPS.Ext
open TenpyModel.MPS

universe u
variable {α : Type u}

/-- index into `ops` used on site `i` of a window starting at `first`:
`ops[(i - first_site) % len(ops)]` -/
def sampleOpIdx (first nops i : Nat) : Nat := (i - first) % nops

section ring
variable [Zero α] [One α] [Add α] [Mul α]

/-- `tensordot(theta, B, ['vR','vL']).take_slice(p, 'p')` for `theta` with an open left leg:
row `a` of the new matrix is `vstep` of row `a`. -/
def mstep (Θ : Mat α) (s : RSite α) (p : Nat) : Mat α := fun a => vstep (Θ a) s p

/-- `npc.norm(theta)**2` of a matrix with `m × n` entries -/
def normsq (cj : α → α) (m n : Nat) (Θ : Mat α) : α :=
  sumN m (fun a => sumN n (fun b => Θ a b * cj (Θ a b)))

/-- measurement bases: site `i` of the window is rotated with `V†` of `ops[(i-first) % len(ops)]`
(`Vd k i` = the matrix `conj(V)^T` of operator number `k` on site `i`); `none` = `ops is None`. -/
def basisSites (Vd : Option (Nat → Nat → Mat α)) (nops first : Nat) : Nat → List (RSite α) → List (RSite α)
  | _, [] => []
  | i, s :: ss =>
    (match Vd with
     | some V => opSite (V (sampleOpIdx first nops i) i) s
     | none => s) :: basisSites Vd nops first (i + 1) ss

/-- the squared norms the code takes the square root of, in loop order: after projecting site `i`
on the drawn outcome; the next `theta` is the projected one times `winv i` (`theta / norm`) times
the next `B`. `chiL` = dimension of the open left leg of `theta`. -/
def sampleNormSqs (cj : α → α) (chiL : Nat) (winv : Nat → α) : Nat → Mat α → List (RSite α) → List Nat → List α
  | i, Θ, s :: ss, p :: ps =>
    normsq cj chiL s.dR (mstep Θ s p) ::
      sampleNormSqs cj chiL winv (i + 1) (fun a b => winv i * mstep Θ s p a b) ss ps
  | _, _, _, _ => []

/-- The loop of `sample_measurements` for the outcome `σ`: `w i` = `npc.norm(theta)` after the
projection on site `i`, `winv i` its inverse.  `Θ` = the part of `theta` left of the current site
(identity on `vL` at the start), `tot` = `total_weight`.  `full` = finite chain sampled from site 0
to `L-1` (then the phase `theta[0,0] / weight` is multiplied in on the last site). -/
def sampleRange (w winv : Nat → α) (full : Bool) : Nat → Mat α → α → List (RSite α) → List Nat → α
  | i, Θ, tot, s :: ss, p :: ps =>
    match ss with
    | [] => if full then tot * w i * (mstep Θ s p 0 0 * winv i) else tot * w i
    | _ :: _ => sampleRange w winv full (i + 1) (fun a b => winv i * mstep Θ s p a b) (tot * w i) ss ps
  | _, _, tot, _, _ => tot

/-- `sample_measurements(first_site, last_site, ops, …, complex_amplitude)` for a drawn outcome:
`θ` = `get_theta(first_site, 1)`, `Bs` = `get_B(i)` for `first_site < i ≤ last_site`;
`np.abs(total_weight)**2` for `complex_amplitude=False`. -/
def sampleMeasure (cj : α → α) (w winv : Nat → α) (L first last : Nat) (finite : Bool) (θ : RSite α)
    (Bs : List (RSite α)) (Vd : Option (Nat → Nat → Mat α)) (nops : Nat) (σ : List Nat) (complexAmp : Bool) : α :=
  let full := finite && first == 0 && last + 1 == L
  let sites := basisSites Vd nops first first (θ :: Bs)
  let W := sampleRange w winv full first (fun a a' => delta a a') 1 sites σ
  if complexAmp then W else W * cj W

end ring
end TenpyModel.MPS.Ext
