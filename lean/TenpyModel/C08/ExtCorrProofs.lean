import TenpyModel.C08.ExtCorr
import TenpyModel.C08.Props2
/-!
Lemmas for the extension round of C08: the `_corr_up_diag` sweep (`corrSweep`) against the
single-target loop (`corrPair`), and the single-target loop against the transfer-matrix contraction
of the whole chain with the operators of the pair inserted.
-/
namespace TenpyModel.MPS.Ext
open TenpyModel.MPS

universe u
variable {α : Type u} [CommSemiring α]
set_option linter.unusedSectionVars false

theorem rfold_eq_rpFold (cj : α → α) (R : Mat α) :
    ∀ (sbs sks : List (RSite α)), rfold cj R sbs sks = rpFold cj R sbs sks := by
  intro sbs
  induction sbs with
  | nil => intro sks; cases sks <;> rfl
  | cons sb sbs ih =>
    intro sks
    cases sks with
    | nil => rfl
    | cons sk sks => simp only [rfold, rpFold, ih]; rfl

theorem mmul_eq_matMul (d : Nat) (A B : Mat α) : mmul d A B = matMul d A B := rfl

/-- every element of a strictly ascending list is `≤` its last element (`js[0]` of the stack) -/
theorem le_getLast_of_pairwise : ∀ (js : List Nat), js.Pairwise (· < ·) → ∀ j ∈ js, j ≤ js.getLast?.getD 0 := by
  intro js
  induction js with
  | nil => intro _ j hj; cases hj
  | cons a js ih =>
    intro hp j hj
    cases js with
    | nil =>
      simp only [List.mem_singleton] at hj
      subst hj; simp
    | cons b js =>
      have hp' := (List.pairwise_cons.1 hp)
      have hlast : (a :: b :: js).getLast?.getD 0 = (b :: js).getLast?.getD 0 := by
        simp [List.getLast?_cons_cons]
      rw [hlast]
      rcases List.mem_cons.1 hj with rfl | hj'
      · have h1 := hp'.1 b List.mem_cons_self
        have h2 := ih hp'.2 b List.mem_cons_self
        omega
      · exact ih hp'.2 j hj'

theorem corrPair_step (cj : α → α) (ops2 : Nat → Mat α) (str : Option (Nat → Mat α)) (R : Mat α) (j r : Nat)
    (C : Mat α) (sb sk : RSite α) (sbs sks : List (RSite α)) (h : r ≠ j) :
    corrPair cj ops2 str R j r C (sb :: sbs) (sk :: sks)
      = corrPair cj ops2 str R j (r + 1) (tmStep cj C sb (strSite str r sk)) sbs sks := by
  simp only [corrPair, h, if_false]

/-- **the sweep serves every target with the value of the single-target loop** -/
theorem corrSweep_eq_pairs (cj : α → α) (ops2 : Nat → Mat α) (str : Option (Nat → Mat α)) (RP : Nat → Mat α)
    (rmax : Nat) :
    ∀ (sbs sks : List (RSite α)) (r : Nat) (C : Mat α) (js : List Nat),
      js.Pairwise (· < ·) → (∀ j ∈ js, r ≤ j ∧ j ≤ rmax ∧ j - r < sbs.length) → sbs.length = sks.length →
      corrSweep cj ops2 str RP rmax r C sbs sks js
        = js.map (fun j => corrPair cj ops2 str (RP j) j r C sbs sks) := by
  intro sbs
  induction sbs with
  | nil =>
    intro sks r C js _ hj _
    cases js with
    | nil => cases sks <;> rfl
    | cons j js =>
      have := (hj j List.mem_cons_self).2.2
      simp at this
  | cons sb sbs ih =>
    intro sks r C js hp hj hl
    cases sks with
    | nil => simp at hl
    | cons sk sks =>
      have hl' : sbs.length = sks.length := by simpa using hl
      cases js with
      | nil => rfl
      | cons j js =>
        obtain ⟨hrj, hjm, hjl⟩ := hj j List.mem_cons_self
        have hp' := List.pairwise_cons.1 hp
        have hnot : ¬ rmax < r := by omega
        by_cases hrj' : r = j
        · subst hrj'
          have htail : ∀ j' ∈ js, corrPair cj ops2 str (RP j') j' r C (sb :: sbs) (sk :: sks)
              = corrPair cj ops2 str (RP j') j' (r + 1) (tmStep cj C sb (strSite str r sk)) sbs sks := by
            intro j' hj'
            have := hp'.1 j' hj'
            exact corrPair_step cj ops2 str (RP j') j' r C sb sk sbs sks (by omega)
          have htw : js.takeWhile (fun j' => j' == r) = [] := by
            cases js with
            | nil => rfl
            | cons j2 js2 =>
              have := hp'.1 j2 List.mem_cons_self
              have hne : (j2 == r) = false := by simp; omega
              simp [List.takeWhile, hne]
          have hdw : js.dropWhile (fun j' => j' == r) = js := by
            cases js with
            | nil => rfl
            | cons j2 js2 =>
              have := hp'.1 j2 List.mem_cons_self
              have hne : (j2 == r) = false := by simp; omega
              simp [List.dropWhile, hne]
          have hhead : corrPair cj ops2 str (RP r) r r C (sb :: sbs) (sk :: sks)
              = closeRP sb.dR sk.dR (tmStep cj C sb (opSite (ops2 r) sk)) (RP r) := by
            simp only [corrPair, if_true]
          rw [List.map_cons, hhead, List.map_congr_left htail]
          simp only [corrSweep, hnot, if_false, if_true, htw, hdw, List.length_nil, Nat.zero_add,
            List.replicate_one, List.singleton_append]
          cases js with
          | nil => rfl
          | cons j2 js2 =>
            have hrec := ih sks (r + 1) (tmStep cj C sb (strSite str r sk)) (j2 :: js2) hp'.2
              (fun j' hj' => by
                obtain ⟨_, h2, h3⟩ := hj j' (List.mem_cons_of_mem _ hj')
                have := hp'.1 j' hj'
                simp only [List.length_cons] at h3
                exact ⟨by omega, h2, by omega⟩) hl'
            simp only [hrec]
        · have hlt : r < j := by omega
          have hrec := ih sks (r + 1) (tmStep cj C sb (strSite str r sk)) (j :: js) hp
            (fun j' hj' => by
              obtain ⟨h1, h2, h3⟩ := hj j' hj'
              have : r < j' := by
                rcases List.mem_cons.1 hj' with rfl | hj''
                · exact hlt
                · have := hp'.1 j' hj''; omega
              simp only [List.length_cons] at h3
              exact ⟨by omega, h2, by omega⟩) hl'
          simp only [corrSweep, hnot, hrj', if_false]
          rw [hrec]
          refine List.map_congr_left (fun j' hj' => ?_)
          have : r ≠ j' := by
            rcases List.mem_cons.1 hj' with rfl | hj''
            · exact hrj'
            · have := hp'.1 j' hj''; omega
          exact (corrPair_step cj ops2 str (RP j') j' r C sb sk sbs sks this).symm

theorem applyOps_nil (ss : List (RSite α)) : applyOps ([] : List (Option (Mat α))) ss = ss := by
  cases ss <;> rfl

theorem applyOps_cons_str (str : Option (Nat → Mat α)) (r : Nat) (os : List (Option (Mat α))) (s : RSite α)
    (ss : List (RSite α)) :
    applyOps (str.map (fun S => S r) :: os) (s :: ss) = strSite str r s :: applyOps os ss := by
  cases str <;> rfl

theorem strSite_dR (str : Option (Nat → Mat α)) (r : Nat) (s : RSite α) : (strSite str r s).dR = s.dR := by
  cases str <;> rfl

/-- **single-target loop = transfer-matrix contraction of the rest of the chain** with the
operators of the pair inserted, when the right environment is the one `get_RP` builds. -/
theorem corrPair_eq_closeMat (cj : α → α) (ops2 : Nat → Mat α) (str : Option (Nat → Mat α)) (wb wk : Vec α)
    (j : Nat) :
    ∀ (sbs sks : List (RSite α)) (r : Nat) (C : Mat α) (nb nk : Nat), r ≤ j → j - r < sbs.length →
      sbs.length = sks.length → ChainOK nb sbs → ChainOK nk sks →
      corrPair cj ops2 str
          (rfold cj (fun b' b => cj (wb b') * wk b) (sbs.drop (j - r + 1)) (sks.drop (j - r + 1))) j r C sbs sks
        = closeMat cj (lastDim nb sbs) (lastDim nk sks)
            (tmFold cj C sbs (applyOps (pairOps ops2 str r (j - r)) sks)) wb wk := by
  intro sbs
  induction sbs with
  | nil => intro sks r C nb nk _ h; simp at h
  | cons sb sbs ih =>
    intro sks r C nb nk hrj hjl hl hb hk
    cases sks with
    | nil => simp at hl
    | cons sk sks =>
      have hl' : sbs.length = sks.length := by simpa using hl
      by_cases h : r = j
      · subst h
        simp only [Nat.sub_self, Nat.zero_add, List.drop_succ_cons, List.drop_zero, corrPair, if_true, pairOps,
          applyOps, tmFold, lastDim]
        have key := closeMat_tmFold_eq_rpFold cj wb wk sbs sks sb.dR sk.dR
          (tmStep cj C sb (opSite (ops2 r) sk)) hb.2 hk.2 hl'
        rw [key, rfold_eq_rpFold]
        rfl
      · have hlt : r < j := by omega
        have e1 : j - r + 1 = (j - (r + 1) + 1) + 1 := by omega
        have e2 : j - r = (j - (r + 1)) + 1 := by omega
        rw [corrPair_step cj ops2 str _ j r C sb sk sbs sks h, e1, List.drop_succ_cons, List.drop_succ_cons, e2]
        simp only [pairOps, applyOps_cons_str, tmFold, lastDim]
        have hk' : ChainOK (strSite str r sk).dR sks := by rw [strSite_dR]; exact hk.2
        have := ih sks (r + 1) (tmStep cj C sb (strSite str r sk)) sb.dR (strSite str r sk).dR (by omega)
          (by simp only [List.length_cons] at hjl; omega) hl' hb.2 hk'
        rw [strSite_dR] at this
        exact this

theorem applyOps_replicate_none (os : List (Option (Mat α))) :
    ∀ (l1 l2 : List (RSite α)), applyOps (List.replicate l1.length none ++ os) (l1 ++ l2) = l1 ++ applyOps os l2 := by
  intro l1
  induction l1 with
  | nil => intro l2; rfl
  | cons s l1 ih => intro l2; simp only [List.length_cons, List.replicate_succ, List.cons_append, applyOps, ih]

/-- `_corr_up_diag` for all its targets = the whole-chain contraction with `upOps` inserted. -/
theorem corrUpDiag_eq_chain (cj : α → α) (E0 : Mat α) (wb wk : Vec α) (lb lk : List (RSite α)) (sbI skI : RSite α)
    (sbs sks : List (RSite α)) (opA : Mat α) (sof first : Bool) (opsB : Nat → Mat α)
    (str : Option (Nat → Mat α)) (RP : Nat → Mat α) (js : List Nat) (nb0 nk0 : Nat)
    (hll : lb.length = lk.length) (hl : sbs.length = sks.length)
    (hb : ChainOK sbI.dR sbs) (hk : ChainOK skI.dR sks)
    (hp : js.Pairwise (· < ·)) (hj : ∀ j ∈ js, lb.length < j ∧ j - lb.length - 1 < sbs.length)
    (hRP : ∀ j ∈ js, RP j = rfold cj (fun b' b => cj (wb b') * wk b)
        (sbs.drop (j - lb.length)) (sks.drop (j - lb.length))) :
    corrUpDiag cj (tmFold cj E0 lb lk) sbI skI opA sof first opsB str RP lb.length sbs sks js
      = js.map (fun j => closeMat cj (lastDim nb0 (lb ++ sbI :: sbs)) (lastDim nk0 (lk ++ skI :: sks))
          (tmFold cj E0 (lb ++ sbI :: sbs)
            (applyOps (upOps skI.d opA opsB str lb.length j sof first) (lk ++ skI :: sks))) wb wk) := by
  unfold corrUpDiag
  rw [corrSweep_eq_pairs cj opsB str RP _ sbs sks (lb.length + 1) _ js hp
    (fun j hjm => ⟨by have := (hj j hjm).1; omega, le_getLast_of_pairwise js hp j hjm,
      by have := hj j hjm; omega⟩) hl]
  refine List.map_congr_left (fun j hjm => ?_)
  obtain ⟨h1, h2⟩ := hj j hjm
  have e : j - lb.length = j - (lb.length + 1) + 1 := by omega
  rw [hRP j hjm, e]
  rw [corrPair_eq_closeMat cj opsB str wb wk j sbs sks (lb.length + 1) _ sbI.dR skI.dR (by omega) (by omega) hl hb hk]
  simp only [upOps]
  have hlk : List.replicate lb.length (none : Option (Mat α)) = List.replicate lk.length none := by rw [hll]
  rw [hlk, applyOps_replicate_none]
  simp only [applyOps]
  rw [tmFold_append cj E0 lb lk _ _ hll, lastDim_append, lastDim_append]
  rfl

/-! ### `upOps` is the operator table of the pair model (`corrUpDiagAt`) -/

theorem getElem?_pairOps (ops2 : Nat → Mat α) (str : Option (Nat → Mat α)) :
    ∀ (n r k : Nat), (pairOps ops2 str r n)[k]? =
      if k < n then some (str.map (fun S => S (r + k))) else if k = n then some (some (ops2 (r + n))) else none := by
  intro n
  induction n with
  | zero =>
    intro r k
    cases k with
    | zero => simp [pairOps]
    | succ k => simp [pairOps]
  | succ n ih =>
    intro r k
    cases k with
    | zero => simp [pairOps]
    | succ k =>
      simp only [pairOps, List.getElem?_cons_succ, ih]
      have e1 : r + 1 + k = r + (k + 1) := by omega
      have e2 : r + 1 + n = r + (n + 1) := by omega
      rw [e1, e2]
      by_cases h1 : k < n
      · have : k + 1 < n + 1 := by omega
        simp [h1, this]
      · by_cases h2 : k = n
        · subst h2; simp
        · have a1 : ¬ k + 1 < n + 1 := by omega
          have a2 : ¬ k + 1 = n + 1 := by omega
          simp [h1, h2, a1]

theorem firstOp_eq (d : Nat) (opA : Mat α) (str : Option (Nat → Mat α)) (i : Nat) (sof first : Bool) :
    firstOp d opA (str.map (fun S => S i)) sof first
      = (match str, sof with
          | some S, true => if first then matMul d opA (S i) else matMul d (S i) opA
          | _, _ => opA) := by
  cases str <;> cases sof <;> rfl

theorem upOps_eq_range (d : Nat) (opA : Mat α) (opsB : Nat → Mat α) (str : Option (Nat → Mat α)) (i j : Nat)
    (sof first : Bool) (hij : i < j) :
    upOps d opA opsB str i j sof first
      = (List.range (j + 1)).map (corrUpDiagAt d opA (opsB j) str i j sof first) := by
  apply List.ext_getElem?
  intro k
  simp only [upOps, List.getElem?_map]
  by_cases hk : k < i
  · rw [List.getElem?_append_left (by simpa using hk), List.getElem?_replicate, if_pos hk,
      List.getElem?_range (by omega)]
    simp [corrUpDiagAt, hk]
  · rw [List.getElem?_append_right (by simpa using hk)]
    simp only [List.length_replicate]
    by_cases hki : k = i
    · subst hki
      rw [Nat.sub_self, List.getElem?_cons_zero, List.getElem?_range (by omega)]
      simp only [Option.map_some, corrUpDiagAt, lt_irrefl, if_false, if_true]
      cases str <;> cases sof <;> rfl
    · have hgt : i < k := by omega
      obtain ⟨m, hm⟩ : ∃ m, k - i = m + 1 := ⟨k - i - 1, by omega⟩
      rw [hm, List.getElem?_cons_succ, getElem?_pairOps]
      have e : i + 1 + m = k := by omega
      by_cases hkj : k < j
      · have c1 : m < j - (i + 1) := by omega
        rw [if_pos c1, e, List.getElem?_range (by omega)]
        simp [corrUpDiagAt, hk, hki, hkj]
      · by_cases hkj2 : k = j
        · have c1 : ¬ m < j - (i + 1) := by omega
          have c2 : m = j - (i + 1) := by omega
          have e2 : i + 1 + (j - (i + 1)) = j := by omega
          rw [if_neg c1, if_pos c2, e2, List.getElem?_range (by omega)]
          simp [corrUpDiagAt, hk, hki, hkj]
        · have c1 : ¬ m < j - (i + 1) := by omega
          have c2 : ¬ m = j - (i + 1) := by omega
          have : (List.range (j + 1))[k]? = none := by simp; omega
          rw [if_neg c1, if_neg c2, this]
          rfl

end TenpyModel.MPS.Ext
