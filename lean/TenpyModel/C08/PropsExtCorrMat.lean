import TenpyModel.C08.ExtCorrMatProofs
/-!
# C08 — extension round, part 4: the matrix `C` of `correlation_function`

`correlation_function` fills `C = np.empty(...)` by masked assignments: per row `x` the entries right
of the diagonal (`sites2 > i`) from one `_corr_up_diag` sweep, the on-site entries (`sites2 == i`),
with `hermitian=True` the conjugated sweep into COLUMN `x` below the diagonal, otherwise a second
loop over the columns with exchanged operators.  Model: `corrMatrix` (`TenpyModel/C08/ExtCorr.lean`).

The theorems say: every entry of the returned matrix is written (nothing of `np.empty` survives),
and it holds the value of the right helper for the right pair of sites, times the norm factor.
-/
open TenpyModel.MPS TenpyModel.MPS.Ext

universe u
variable {α : Type u} [Mul α]

/-- **Without the `hermitian` short cut** (flag off, or switched off because `sites1 != sites2`):
if the sweeps return one value per requested target (`up i js = js.map (U i)` for the targets the
code asks for, likewise `lo`), then `correlation_function` returns a completely filled matrix with
`C[x, y] = U(i, j)` for `i < j`, the on-site value for `i = j`, `Lo(j, i)` for `i > j`
(`i = sites1[x]`, `j = sites2[y]`), each times `norm(bra)·norm(ket)`. -/
theorem C08_corr_matrix_entries (cjv : α → α) (inp : CorrIn α) (U Lo : Nat → Nat → α) (s1 s2 : List Nat)
    (herm0 : Bool) (nrm : α) (hh : (herm0 && (s1 == s2)) = false)
    (hup : ∀ x, x < s1.length → inp.up (s1.getD x 0) (s2.filter (fun j => decide (s1.getD x 0 < j)))
      = (s2.filter (fun j => decide (s1.getD x 0 < j))).map (U (s1.getD x 0)))
    (hlo : ∀ y, y < s2.length → inp.lo (s2.getD y 0) (s1.filter (fun i => decide (s2.getD y 0 < i)))
      = (s1.filter (fun i => decide (s2.getD y 0 < i))).map (Lo (s2.getD y 0))) :
    ∃ C, corrMatrix cjv inp s1 s2 herm0 nrm = .ok C ∧
      ∀ x y, x < s1.length → y < s2.length →
        C x y = some ((if s1.getD x 0 < s2.getD y 0 then U (s1.getD x 0) (s2.getD y 0)
                       else if s2.getD y 0 = s1.getD x 0 then inp.diag (s1.getD x 0)
                       else Lo (s2.getD y 0) (s1.getD x 0)) * nrm) := by
  -- state after `k` iterations of the first loop
  let R : Nat → CMat α := fun k x y =>
    if x < k ∧ y < s2.length ∧ s1.getD x 0 ≤ s2.getD y 0
      then some (if s1.getD x 0 < s2.getD y 0 then U (s1.getD x 0) (s2.getD y 0) else inp.diag (s1.getD x 0))
      else none
  have hrow : foldE (rowStep cjv inp s1 s2 false) (R 0) (List.range s1.length) = .ok (R s1.length) := by
    refine foldE_invariant _ R _ (fun k hk => ?_)
    simp only [rowStep, rowUp_plain cjv inp U s1 s2 _ k (hup k hk), rowDiag_eq]
    congr 1
    funext x y
    simp only [R]
    by_cases hx : x = k
    · subst hx
      have n1 : ¬ x < x := by omega
      have n2 : x < x + 1 := by omega
      simp only [n1, n2, true_and, false_and, if_false]
      by_cases hy : y < s2.length
      · simp only [hy, true_and]
        split_ifs <;> first | rfl | omega
      · simp [hy]
    · have e : x < k + 1 ↔ x < k := by omega
      simp only [hx, false_and, if_false, e]
  have hR0 : R 0 = (fun _ _ => none) := by
    funext x y; simp [R]
  -- state after `k` iterations of the second loop
  let Q : Nat → CMat α := fun k x y =>
    if y < k ∧ x < s1.length ∧ s2.getD y 0 < s1.getD x 0 then some (Lo (s2.getD y 0) (s1.getD x 0))
    else R s1.length x y
  have hcol : foldE (colStep inp s1 s2) (Q 0) (List.range s2.length) = .ok (Q s2.length) := by
    refine foldE_invariant _ Q _ (fun k hk => ?_)
    simp only [colStep_eq inp Lo s1 s2 _ k (hlo k hk)]
    congr 1
    funext x y
    simp only [Q]
    by_cases hy : y = k
    · subst hy
      have n1 : ¬ y < y := by omega
      have n2 : y < y + 1 := by omega
      simp only [n1, n2, true_and, false_and, if_false]
    · have e : y < k + 1 ↔ y < k := by omega
      simp only [hy, false_and, if_false, e]
  have hQ0 : Q 0 = R s1.length := by
    funext x y; simp [Q]
  refine ⟨fun x y => (Q s2.length x y).map (fun v => v * nrm), ?_, ?_⟩
  · simp only [corrMatrix, hh, ← hR0, hrow, Bool.false_eq_true, if_false, ← hQ0, hcol]
  · intro x y hx hy
    simp only [Q, R, hx, hy, true_and]
    split_ifs <;> first | rfl | omega

/-- **With `hermitian=True`** (`sites1 == sites2 = s`, strictly ascending): no second loop; the
matrix is completely filled with `C[x, y] = U(s_x, s_y)` above the diagonal, the on-site value on
it, and `conj(U(s_y, s_x))` BELOW it (entry `(x, y)`, `x > y`, is the conjugate of entry
`(y, x)`), each times the norm factor. -/
theorem C08_corr_matrix_hermitian (cjv : α → α) (inp : CorrIn α) (U : Nat → Nat → α) (s : List Nat)
    (hs : s.Pairwise (· < ·)) (nrm : α)
    (hup : ∀ x, x < s.length → inp.up (s.getD x 0) (s.filter (fun j => decide (s.getD x 0 < j)))
      = (s.filter (fun j => decide (s.getD x 0 < j))).map (U (s.getD x 0))) :
    ∃ C, corrMatrix cjv inp s s true nrm = .ok C ∧
      ∀ x y, x < s.length → y < s.length →
        C x y = some ((if x < y then U (s.getD x 0) (s.getD y 0)
                       else if x = y then inp.diag (s.getD x 0)
                       else cjv (U (s.getD y 0) (s.getD x 0))) * nrm) := by
  let H : Nat → CMat α := fun k x y =>
    if x < s.length ∧ y < s.length then
      (if x < y ∧ x < k then some (U (s.getD x 0) (s.getD y 0))
       else if x = y ∧ x < k then some (inp.diag (s.getD x 0))
       else if y < x ∧ y < k then some (cjv (U (s.getD y 0) (s.getD x 0)))
       else none)
    else none
  have hrow : foldE (rowStep cjv inp s s true) (H 0) (List.range s.length) = .ok (H s.length) := by
    refine foldE_invariant _ H _ (fun k hk => ?_)
    simp only [rowStep, rowUp_herm cjv inp U s hs _ k hk (hup k hk), rowDiag_eq]
    congr 1
    funext x y
    simp only [H]
    by_cases hy : y < s.length
    · obtain ⟨e1, e2⟩ := getD_lt_iff s hs k y hk hy
      simp only [e1, e2, hy, and_true, true_and]
      by_cases hx : x = k
      · subst hx
        simp only [hk, true_and]
        split_ifs <;> first | rfl | omega
      · simp only [hx, false_and, if_false]
        by_cases hyk : y = k
        · subst hyk
          simp only [true_and]
          split_ifs <;> first | rfl | omega
        · simp only [hyk, false_and, if_false]
          split_ifs <;> first | rfl | omega
    · have c1 : ¬ (y = k ∧ k + 1 ≤ x ∧ x < s.length) := by intro h; omega
      simp [hy, c1]
  have hH0 : H 0 = (fun _ _ => none) := by
    funext x y; simp [H]
  have hh : (true && (s == s)) = true := by simp
  refine ⟨fun x y => (H s.length x y).map (fun v => v * nrm), ?_, ?_⟩
  · simp only [corrMatrix, hh, ← hH0, hrow, if_true]
  · intro x y hx hy
    simp only [H, hx, hy, and_self, if_true, and_true]
    split_ifs <;> first | rfl | omega

/-! ### non-vacuity -/
namespace C08ExamplesExtCorrMat

/-- helpers returning recognisable numbers: `up i js = [100 i + j]`, `lo j is = [-(100 i + j)]`, `diag i = 7 i` -/
def inp0 : CorrIn Int :=
  { up := fun i js => js.map (fun (j : Nat) => (100 * (i : Int) + (j : Int))),
    lo := fun j is => is.map (fun (i : Nat) => -(100 * (i : Int) + (j : Int))),
    diag := fun i => 7 * i }

def showM (n1 n2 : Nat) (r : Except String (CMat Int)) : Option (List (List (Option Int))) :=
  match r with
  | .ok C => some ((List.range n1).map (fun x => (List.range n2).map (fun y => C x y)))
  | .error _ => none

example : showM 3 3 (corrMatrix (fun v => -v) inp0 [0, 2, 3] [1, 2, 4] false 1)
    = some [[some 1, some 2, some 4], [some (-201), some 14, some 204], [some (-301), some (-302), some 304]] := by
  decide

/-- hermitian flag with `sites1 == sites2`: lower triangle = `cjv` of the upper one (here `cjv v = -v`) -/
example : showM 3 3 (corrMatrix (fun v => -v) inp0 [0, 2, 3] [0, 2, 3] true 1)
    = some [[some 0, some 2, some 3], [some (-2), some 14, some 203], [some (-3), some (-203), some 21]] := by
  decide

/-- hermitian flag with `sites1 != sites2` is switched off: same as without the flag -/
example : showM 2 2 (corrMatrix (fun v => -v) inp0 [0, 2] [1, 2] true 1)
    = showM 2 2 (corrMatrix (fun v => -v) inp0 [0, 2] [1, 2] false 1) := by decide

/-- a helper that returns too few values for the mask is rejected like numpy does (shape mismatch) … -/
example : showM 1 3 (corrMatrix (fun v => v) { inp0 with up := fun i js => (js.take 2).map (fun (j : Nat) => (100 * (i : Int) + (j : Int))) }
    [0] [1, 2, 3] false 1) = none := by decide

/-- … but a SINGLE value is broadcast silently (the duplicate-site defect of `_corr_up_diag`) -/
example : showM 1 3 (corrMatrix (fun v => v) { inp0 with up := fun i js => (js.take 1).map (fun (j : Nat) => (100 * (i : Int) + (j : Int))) }
    [0] [1, 2, 3] false 1) = some [[some 1, some 1, some 1]] := by decide

end C08ExamplesExtCorrMat
