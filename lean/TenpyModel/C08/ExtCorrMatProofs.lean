import TenpyModel.C08.ExtCorr
import Mathlib.Tactic.SplitIfs
/-!
Lemmas on the assembly of the matrix `C` in `correlation_function` (`corrMatrix`): masked
assignments as point-wise overrides, the loops as invariants.
-/
namespace TenpyModel.MPS.Ext
open TenpyModel.MPS

universe u
variable {α : Type u}

/-! ### masked assignment -/

theorem lookupAssign_maskPosFrom (p : Nat → Bool) (f : Nat → α) :
    ∀ (s : List Nat) (k y : Nat),
      lookupAssign (maskPosFrom p k s) ((s.filter p).map f) y
        = if k ≤ y ∧ y - k < s.length ∧ p (s.getD (y - k) 0) = true then some (f (s.getD (y - k) 0)) else none := by
  intro s
  induction s with
  | nil => intro k y; simp [maskPosFrom, lookupAssign]
  | cons a t ih =>
    intro k y
    have hstep : ∀ (hy : y ≠ k),
        (if k + 1 ≤ y ∧ y - (k + 1) < t.length ∧ p (t.getD (y - (k + 1)) 0) = true
          then some (f (t.getD (y - (k + 1)) 0)) else none)
        = (if k ≤ y ∧ y - k < (a :: t).length ∧ p ((a :: t).getD (y - k) 0) = true
          then some (f ((a :: t).getD (y - k) 0)) else none) := by
      intro hy
      by_cases hlt : k < y
      · have e : y - k = (y - (k + 1)) + 1 := by omega
        rw [e, List.getD_cons_succ]
        simp only [List.length_cons]
        by_cases hc : k + 1 ≤ y ∧ y - (k + 1) < t.length ∧ p (t.getD (y - (k + 1)) 0) = true
        · have hc' : k ≤ y ∧ y - (k + 1) + 1 < t.length + 1 ∧ p (t.getD (y - (k + 1)) 0) = true :=
            ⟨by omega, by omega, hc.2.2⟩
          rw [if_pos hc, if_pos hc']
        · have hc' : ¬ (k ≤ y ∧ y - (k + 1) + 1 < t.length + 1 ∧ p (t.getD (y - (k + 1)) 0) = true) := by
            intro h; exact hc ⟨by omega, by omega, h.2.2⟩
          rw [if_neg hc, if_neg hc']
      · have c1 : ¬ (k + 1 ≤ y ∧ y - (k + 1) < t.length ∧ p (t.getD (y - (k + 1)) 0) = true) := by
          intro h; omega
        have c2 : ¬ (k ≤ y ∧ y - k < (a :: t).length ∧ p ((a :: t).getD (y - k) 0) = true) := by
          intro h; omega
        rw [if_neg c1, if_neg c2]
    by_cases hp : p a = true
    · simp only [maskPosFrom, hp, if_true, List.filter_cons_of_pos hp, List.map_cons, lookupAssign]
      by_cases hy : y = k
      · subst hy
        simp [hp]
      · rw [if_neg hy, ih (k + 1) y]
        exact hstep hy
    · simp only [maskPosFrom, hp, List.filter_cons_of_neg hp, Bool.false_eq_true, if_false]
      rw [ih (k + 1) y]
      by_cases hy : y = k
      · subst hy
        have c1 : ¬ (y + 1 ≤ y ∧ y - (y + 1) < t.length ∧ p (t.getD (y - (y + 1)) 0) = true) := by
          intro h; omega
        rw [if_neg c1]
        simp [hp]
      · exact hstep hy

theorem length_maskPosFrom (p : Nat → Bool) : ∀ (s : List Nat) (k : Nat),
    (maskPosFrom p k s).length = (s.filter p).length := by
  intro s
  induction s with
  | nil => intro k; rfl
  | cons a t ih =>
    intro k
    by_cases hp : p a = true
    · simp [maskPosFrom, hp, ih]
    · simp [maskPosFrom, hp, ih]

theorem bcast_eq (n : Nat) (vals : List α) (h : vals.length = n) : bcast n vals = .ok vals := by
  simp [bcast, h]

theorem bcast_one (n : Nat) (v : α) (hn : 0 < n) : bcast n [v] = .ok (List.replicate n v) := by
  by_cases h1 : n = 1
  · subst h1; simp [bcast]
  · have : ¬ 1 = n := by omega
    simp [bcast, this]

/-- `C[x, mask] = [f s_y for the selected y]` as a point-wise override -/
theorem assignRow_mask (C : CMat α) (x : Nat) (p : Nat → Bool) (s : List Nat) (f : Nat → α) :
    assignRow C x (maskPos p s) ((s.filter p).map f)
      = .ok (fun x' y => if x' = x ∧ y < s.length ∧ p (s.getD y 0) = true then some (f (s.getD y 0)) else C x' y) := by
  have hb : bcast (maskPos p s).length ((s.filter p).map f) = .ok ((s.filter p).map f) :=
    bcast_eq _ _ (by simp [maskPos, length_maskPosFrom])
  simp only [assignRow, hb]
  congr 1
  funext x' y
  by_cases hx : x' = x
  · simp only [hx, if_true, true_and, maskPos, lookupAssign_maskPosFrom, Nat.zero_le, Nat.sub_zero]
    split_ifs <;> rfl
  · simp [hx]

theorem assignCol_mask (C : CMat α) (y : Nat) (p : Nat → Bool) (s : List Nat) (f : Nat → α) :
    assignCol C y (maskPos p s) ((s.filter p).map f)
      = .ok (fun x y' => if y' = y ∧ x < s.length ∧ p (s.getD x 0) = true then some (f (s.getD x 0)) else C x y') := by
  have hb : bcast (maskPos p s).length ((s.filter p).map f) = .ok ((s.filter p).map f) :=
    bcast_eq _ _ (by simp [maskPos, length_maskPosFrom])
  simp only [assignCol, hb]
  congr 1
  funext x y'
  by_cases hy : y' = y
  · simp only [hy, if_true, true_and, maskPos, lookupAssign_maskPosFrom, Nat.zero_le, Nat.sub_zero]
    split_ifs <;> rfl
  · simp [hy]

/-- a single value broadcast over a non-empty mask -/
theorem assignRow_const (C : CMat α) (x : Nat) (p : Nat → Bool) (s : List Nat) (v : α) (hne : s.filter p ≠ []) :
    assignRow C x (maskPos p s) [v]
      = .ok (fun x' y => if x' = x ∧ y < s.length ∧ p (s.getD y 0) = true then some v else C x' y) := by
  have hlen : (maskPos p s).length = (s.filter p).length := by simp [maskPos, length_maskPosFrom]
  have hpos : 0 < (maskPos p s).length := by rw [hlen]; exact List.length_pos_iff.2 hne
  have hb : bcast (maskPos p s).length [v] = .ok ((s.filter p).map (fun _ => v)) := by
    rw [bcast_one _ _ hpos, hlen, List.map_const']
  have hb2 : bcast (maskPos p s).length ((s.filter p).map (fun _ => v)) = .ok ((s.filter p).map (fun _ => v)) :=
    bcast_eq _ _ (by simp [maskPos, length_maskPosFrom])
  have h2 := assignRow_mask C x p s (fun _ => v)
  simp only [assignRow, hb2] at h2
  simp only [assignRow, hb]
  exact h2

theorem lookupAssign_map_self (g : Nat → α) : ∀ (l : List Nat) (y : Nat),
    lookupAssign l (l.map g) y = if y ∈ l then some (g y) else none := by
  intro l
  induction l with
  | nil => intro y; simp [lookupAssign]
  | cons a l ih =>
    intro y
    simp only [List.map_cons, lookupAssign, ih, List.mem_cons]
    by_cases h : y = a
    · subst h; simp
    · simp [h]

/-- `C[a : a+m, y] = [g a, …, g (a+m-1)]` -/
theorem assignCol_range (C : CMat α) (y a m : Nat) (g : Nat → α) :
    assignCol C y (List.range' a m) ((List.range' a m).map g)
      = .ok (fun x y' => if y' = y ∧ a ≤ x ∧ x < a + m then some (g x) else C x y') := by
  have hb : bcast (List.range' a m).length ((List.range' a m).map g) = .ok ((List.range' a m).map g) :=
    bcast_eq _ _ (by simp)
  simp only [assignCol, hb]
  congr 1
  funext x y'
  by_cases hy : y' = y
  · simp only [hy, if_true, true_and, lookupAssign_map_self, List.mem_range'_1]
    split_ifs <;> rfl
  · simp [hy]

/-! ### strictly ascending site lists -/

theorem getD_mem (s : List Nat) (y : Nat) (hy : y < s.length) : s.getD y 0 ∈ s := by
  simp [List.getD, List.getElem?_eq_getElem hy]

theorem getD_eq (s : List Nat) (y : Nat) (hy : y < s.length) : s.getD y 0 = s[y] := by
  simp [List.getD, List.getElem?_eq_getElem hy]

theorem getD_lt_of_pairwise : ∀ (s : List Nat), s.Pairwise (· < ·) → ∀ x y, x < y → y < s.length →
    s.getD x 0 < s.getD y 0 := by
  intro s
  induction s with
  | nil => intro _ x y _ h; simp at h
  | cons a t ih =>
    intro hp x y hxy hy
    have hp' := List.pairwise_cons.1 hp
    cases y with
    | zero => omega
    | succ y =>
      have hyt : y < t.length := by simpa using hy
      cases x with
      | zero =>
        simp only [List.getD_cons_zero, List.getD_cons_succ]
        have hm : t.getD y 0 ∈ t := getD_mem t y hyt
        exact hp'.1 _ hm
      | succ x =>
        simp only [List.getD_cons_succ]
        exact ih hp'.2 x y (by omega) hyt

theorem getD_lt_iff (s : List Nat) (hp : s.Pairwise (· < ·)) (x y : Nat) (hx : x < s.length) (hy : y < s.length) :
    (s.getD x 0 < s.getD y 0 ↔ x < y) ∧ (s.getD y 0 = s.getD x 0 ↔ x = y) := by
  rcases Nat.lt_trichotomy x y with h | h | h
  · have := getD_lt_of_pairwise s hp x y h hy
    exact ⟨⟨fun _ => h, fun _ => this⟩, ⟨fun e => by omega, fun e => by omega⟩⟩
  · subst h; exact ⟨⟨fun e => by omega, fun e => by omega⟩, ⟨fun _ => rfl, fun _ => rfl⟩⟩
  · have := getD_lt_of_pairwise s hp y x h hx
    exact ⟨⟨fun e => by omega, fun e => by omega⟩, ⟨fun e => by omega, fun e => by omega⟩⟩

theorem drop_eq_range'_map (s : List Nat) (a : Nat) :
    s.drop a = (List.range' a (s.length - a)).map (fun k => s.getD k 0) := by
  apply List.ext_getElem?
  intro k
  simp only [List.getElem?_drop, List.getElem?_map, List.getElem?_range']
  by_cases h : k < s.length - a
  · have h2 : a + k < s.length := by omega
    simp [h, getD_eq s _ h2, List.getElem?_eq_getElem h2]
  · have h2 : s.length ≤ a + k := by omega
    simp [h, List.getElem?_eq_none h2]

/-- `sites[sites > sites[x]]` of a strictly ascending list = everything after position `x` -/
theorem filter_gt_eq_drop : ∀ (s : List Nat), s.Pairwise (· < ·) → ∀ x, x < s.length →
    s.filter (fun j => decide (s.getD x 0 < j)) = s.drop (x + 1) := by
  intro s
  induction s with
  | nil => intro _ x h; simp at h
  | cons a t ih =>
    intro hp x hx
    have hp' := List.pairwise_cons.1 hp
    cases x with
    | zero =>
      simp only [List.getD_cons_zero, Nat.lt_irrefl, decide_false, Nat.zero_add, List.drop_succ_cons, List.drop_zero]
      rw [List.filter_cons_of_neg (by simp)]
      exact List.filter_eq_self.2 (fun j hj => by simpa using hp'.1 j hj)
    | succ x =>
      have hxt : x < t.length := by simpa using hx
      simp only [List.getD_cons_succ, List.drop_succ_cons]
      have hm : t.getD x 0 ∈ t := getD_mem t x hxt
      have : ¬ (t.getD x 0 < a) := by have := hp'.1 _ hm; omega
      rw [List.filter_cons_of_neg (by simpa using this)]
      exact ih hp'.2 x hxt

/-! ### the loops -/

theorem foldE_append {σ : Type u} (f : σ → Nat → Except String σ) : ∀ (l1 l2 : List Nat) (c : σ),
    foldE f c (l1 ++ l2) = (match foldE f c l1 with
      | .ok c' => foldE f c' l2
      | .error e => .error e) := by
  intro l1
  induction l1 with
  | nil => intro l2 c; rfl
  | cons a l1 ih =>
    intro l2 c
    simp only [List.cons_append, foldE]
    cases f c a with
    | ok c' => exact ih l2 c'
    | error e => rfl

/-- a loop whose `k`-th iteration turns the state `R k` into `R (k+1)` -/
theorem foldE_invariant {σ : Type u} (f : σ → Nat → Except String σ) (R : Nat → σ) (n : Nat)
    (h : ∀ k, k < n → f (R k) k = .ok (R (k + 1))) : foldE f (R 0) (List.range n) = .ok (R n) := by
  induction n with
  | zero => rfl
  | succ n ih =>
    rw [List.range_succ, foldE_append, ih (fun k hk => h k (by omega))]
    simp only [foldE, h n (by omega)]

/-- the `j > i` part without the hermitian copy, as a point-wise override -/
theorem rowUp_plain (cjv : α → α) (inp : CorrIn α) (U : Nat → Nat → α) (s1 s2 : List Nat) (C : CMat α) (x : Nat)
    (hup : inp.up (s1.getD x 0) (s2.filter (fun j => decide (s1.getD x 0 < j)))
      = (s2.filter (fun j => decide (s1.getD x 0 < j))).map (U (s1.getD x 0))) :
    rowUp cjv inp s1 s2 false C x
      = .ok (fun x' y => if x' = x ∧ y < s2.length ∧ s1.getD x 0 < s2.getD y 0
          then some (U (s1.getD x 0) (s2.getD y 0)) else C x' y) := by
  simp only [rowUp, hup, assignRow_mask, Bool.false_eq_true, if_false]
  by_cases he : (s2.filter (fun j => decide (s1.getD x 0 < j))).isEmpty = true
  · rw [if_pos he]
    congr 1
    funext x' y
    have hnil := List.isEmpty_iff.1 he
    have : ¬ (x' = x ∧ y < s2.length ∧ s1.getD x 0 < s2.getD y 0) := by
      intro ⟨_, hy, hlt⟩
      have hm : s2.getD y 0 ∈ s2.filter (fun j => decide (s1.getD x 0 < j)) := by
        rw [List.mem_filter]
        exact ⟨getD_mem s2 y hy, by simpa using hlt⟩
      rw [hnil] at hm; cases hm
    rw [if_neg this]
  · rw [if_neg he]
    congr 1
    funext x' y
    simp only [decide_eq_true_eq]

theorem rowDiag_eq (inp : CorrIn α) (s1 s2 : List Nat) (C : CMat α) (x : Nat) :
    rowDiag inp s1 s2 C x
      = .ok (fun x' y => if x' = x ∧ y < s2.length ∧ s2.getD y 0 = s1.getD x 0
          then some (inp.diag (s1.getD x 0)) else C x' y) := by
  simp only [rowDiag]
  by_cases he : (s2.filter (fun j => j == s1.getD x 0)).isEmpty = true
  · rw [if_pos he]
    congr 1
    funext x' y
    have hnil := List.isEmpty_iff.1 he
    have : ¬ (x' = x ∧ y < s2.length ∧ s2.getD y 0 = s1.getD x 0) := by
      intro ⟨_, hy, heq⟩
      have hm : s2.getD y 0 ∈ s2.filter (fun j => j == s1.getD x 0) := by
        rw [List.mem_filter]
        exact ⟨getD_mem s2 y hy, by simpa using heq⟩
      rw [hnil] at hm; cases hm
    rw [if_neg this]
  · rw [if_neg he, assignRow_const _ _ _ _ _ (by intro h; exact he (List.isEmpty_iff.2 h))]
    congr 1
    funext x' y
    simp only [beq_iff_eq]

theorem colStep_eq (inp : CorrIn α) (Lo : Nat → Nat → α) (s1 s2 : List Nat) (C : CMat α) (y : Nat)
    (hlo : inp.lo (s2.getD y 0) (s1.filter (fun i => decide (s2.getD y 0 < i)))
      = (s1.filter (fun i => decide (s2.getD y 0 < i))).map (Lo (s2.getD y 0))) :
    colStep inp s1 s2 C y
      = .ok (fun x y' => if y' = y ∧ x < s1.length ∧ s2.getD y 0 < s1.getD x 0
          then some (Lo (s2.getD y 0) (s1.getD x 0)) else C x y') := by
  simp only [colStep, hlo, assignCol_mask]
  by_cases he : (s1.filter (fun i => decide (s2.getD y 0 < i))).isEmpty = true
  · rw [if_pos he]
    congr 1
    funext x y'
    have hnil := List.isEmpty_iff.1 he
    have : ¬ (y' = y ∧ x < s1.length ∧ s2.getD y 0 < s1.getD x 0) := by
      intro ⟨_, hx, hlt⟩
      have hm : s1.getD x 0 ∈ s1.filter (fun i => decide (s2.getD y 0 < i)) := by
        rw [List.mem_filter]
        exact ⟨getD_mem s1 x hx, by simpa using hlt⟩
      rw [hnil] at hm; cases hm
    rw [if_neg this]
  · rw [if_neg he]
    congr 1
    funext x y'
    simp only [decide_eq_true_eq]

/-- the `j > i` part WITH the hermitian copy, `sites1 = sites2 = s` strictly ascending -/
theorem rowUp_herm (cjv : α → α) (inp : CorrIn α) (U : Nat → Nat → α)
    (s : List Nat) (hs : s.Pairwise (· < ·)) (C : CMat α) (x : Nat) (hx : x < s.length)
    (hup : inp.up (s.getD x 0) (s.filter (fun j => decide (s.getD x 0 < j)))
      = (s.filter (fun j => decide (s.getD x 0 < j))).map (U (s.getD x 0))) :
    rowUp cjv inp s s true C x
      = .ok (fun x' y =>
          if y = x ∧ x + 1 ≤ x' ∧ x' < s.length then some (cjv (U (s.getD x 0) (s.getD x' 0)))
          else if x' = x ∧ y < s.length ∧ s.getD x 0 < s.getD y 0 then some (U (s.getD x 0) (s.getD y 0))
          else C x' y) := by
  have hfd := filter_gt_eq_drop s hs x hx
  simp only [rowUp, hup, assignRow_mask, if_true]
  by_cases he : (s.filter (fun j => decide (s.getD x 0 < j))).isEmpty = true
  · rw [if_pos he]
    congr 1
    funext x' y
    have hnil := List.isEmpty_iff.1 he
    rw [hfd] at hnil
    have hlen : s.length ≤ x + 1 := by
      have := congrArg List.length hnil
      simp at this; omega
    have c1 : ¬ (y = x ∧ x + 1 ≤ x' ∧ x' < s.length) := by intro h; omega
    have c2 : ¬ (x' = x ∧ y < s.length ∧ s.getD x 0 < s.getD y 0) := by
      intro ⟨_, hy, hlt⟩
      have := ((getD_lt_iff s hs x y hx hy).1).1 hlt
      omega
    rw [if_neg c1, if_neg c2]
  · rw [if_neg he]
    have hvals : ((s.filter (fun j => decide (s.getD x 0 < j))).map (U (s.getD x 0))).map cjv
        = (List.range' (x + 1) (s.length - (x + 1))).map (fun k => cjv (U (s.getD x 0) (s.getD k 0))) := by
      rw [hfd, drop_eq_range'_map]
      simp [List.map_map, Function.comp_def]
    rw [hvals, assignCol_range]
    congr 1
    funext x' y
    have e : x + 1 + (s.length - (x + 1)) = s.length := by omega
    simp only [decide_eq_true_eq, e]

end TenpyModel.MPS.Ext
