import TenpyModel.MPS.OverlapProofs
/-!
# C08 — `MPS.overlap` on the bookkeeping layer

`MPS.overlap(other)` (finite bc) = `MPSEnvironment(self, other).full_contraction(0)`: `'A'`-form
tensor on site 0, the singular values of bond 1, `'B'`-form tensors to the right, contracted by
transfer matrices, times both norms.  The theorem ties it to the states the two MPS denote.
-/
open TenpyModel.MPS TenpyModel.MPS.MPSM

universe u
variable {α : Type u} [CommSemiring α]
set_option linter.unusedSectionVars false

theorem envSites_length (M : MPSM α) (hL : 0 < M.L) : (M.envSites 0).length = M.L := by
  simp only [envSites, formSites, Nat.zero_add, List.dropLast, List.getLast?_singleton, Option.map_some,
    Option.toList_some, List.nil_append, List.cons_append, List.length_cons, formSites_length]
  omega

/-- **`MPS.overlap` = dense inner product of the denoted states, norms included**, for two finite
MPS in arbitrary (possibly different, mixed) stored forms with arbitrary bond dimensions:
`overlap(bra, ket) = Σ_σ conj(toState bra σ) · toState ket σ`. -/
theorem C08_overlap_mps {cj : α → α} (hcj : ConjLike cj) (bra ket : MPSM α)
    (hWb : bra.WF) (hWk : ket.WF) (hbb : bra.bc ≠ BC.infinite) (hbk : ket.bc ≠ BC.infinite)
    (hL : 0 < ket.L) (hLL : bra.L = ket.L)
    (hcb : ChainOK 1 (bra.envSites 0)) (hck : ChainOK 1 (ket.envSites 0))
    (hlb : lastDim 1 (bra.envSites 0) = 1) (hlk : lastDim 1 (ket.envSites 0) = 1)
    (hχb : 0 < (bra.getSR ((bra.L : Int) - 1)).chi) (hχk : 0 < (ket.getSR ((ket.L : Int) - 1)).chi) :
    MPSM.overlap cj bra ket
      = sumCfg (dims (ket.envSites 0)) (fun σ => cj (bra.toState σ) * ket.toState σ) := by
  unfold MPSM.overlap
  rw [overlapTM_eq_dense hcj]
  have hcl : ∀ u : Vec α, close 1 u (fun a => delta a 0) = u 0 := by
    intro u; simp [close, sumN_one, delta]
  simp only [hcl]
  have hLb : 0 < bra.L := by omega
  have hlen : (dims (ket.envSites 0)).length = ket.L := by
    simp only [dims, List.length_map, envSites_length ket hL]
  calc sumCfg (dims (ket.envSites 0)) (fun σ =>
          cj (contract (fun a => delta a 0) (bra.envSites 0) σ 0) *
            contract (fun a => delta a 0) (ket.envSites 0) σ 0) * cj bra.norm * ket.norm
      = sumCfg (dims (ket.envSites 0)) (fun σ => cj bra.norm * ket.norm *
          (cj (contract (fun a => delta a 0) (bra.envSites 0) σ 0) *
            contract (fun a => delta a 0) (ket.envSites 0) σ 0)) := by
        rw [← mul_sumCfg]; ring
    _ = _ := by
        apply sumCfg_congr_len
        intro σ hσ
        rw [hlen] at hσ
        rw [contract_envSites bra hWb hbb hLb hcb (by omega) hχb σ (by omega),
          contract_envSites ket hWk hbk hL hck (by omega) hχk σ hσ]
        simp only [toState, hcj.mul]
        ring
