import TenpyModel.C20.P2_NoErrMainB
import TenpyModel.C20.P2_NoErrMainC
import TenpyModel.C20.P2_NoErrWorker
/-! `InvA ∧ InvN` holds in every reachable state of a fault-free run of a well-formed program. -/
set_option linter.unusedSimpArgs false
set_option linter.unusedVariables false
namespace TenpyModel.C20.Threaded

theorem invN_stepMain (s s' : St) (hA : InvA s) (h : InvN s) (hs : stepMain s = some s') : InvN s' := by
  cases hm : s.mpc with
  | idle => exact invN_main_idle s s' hA h hm hs
  | loadC1 k => exact invN_main_loadC1 s s' hA h k hm hs
  | loadC2 k => exact invN_main_loadC2 s s' hA h k hm hs
  | loadC3 k => exact invN_main_loadC3 s s' hA h k hm hs
  | loadGet k => exact invN_main_loadGet s s' hA h k hm hs
  | loadDel k v => exact invN_main_loadDel s s' hA h k v hm hs
  | preC k => exact invN_main_preC s s' hA h k hm hs
  | saveC k v => exact invN_main_saveC s s' hA h k v hm hs
  | saveSet k v => exact invN_main_saveSet s s' hA h k v hm hs
  | isSet c => exact invN_main_isSet s s' hA h c hm hs
  | isAlive c => exact invN_main_isAlive s s' hA h c hm hs
  | put t a => exact invN_main_put s s' hA h t a hm hs
  | join a => exact invN_main_join s s' hA h a hm hs
  | closeAlive => exact invN_main_closeAlive s s' hA h hm hs
  | closeSetExit => exact invN_main_closeSetExit s s' hA h hm hs
  | closeTJoin => exact invN_main_closeTJoin s s' hA h hm hs
  | done => exact invN_main_done s s' hA h hm hs

/-- what a worker step leaves alone -/
theorem worker_frame2 (s s' : St) (hs : stepWorker s = some s') :
    s'.mpc = s.mpc ∧ s'.prog = s.prog ∧ s'.abs = s.abs ∧ s'.outs = s.outs ∧ s'.waiting = s.waiting ∧
    s'.failAt = s.failAt ∧ s'.reads = s.reads := by
  split_worker hs
  all_goals simp_all

theorem invN_stepWorker (s s' : St) (h : InvN s) (hs : stepWorker s = some s') : InvN s' := by
  obtain ⟨nf, ne, ex, wk, tfq, tfr, tfp, lo, wfp, la, lk, rd, pa, wl, dw, lw, ln⟩ := h
  obtain ⟨ex', wk', tfq', tfr', lo', wl', ln'⟩ := invNW_stepWorker s s' ⟨ex, wk, tfq, tfr, lo, wl, ln⟩ hs
  obtain ⟨f1, f2, f3, f4, f5, f6, f7⟩ := worker_frame2 s s' hs
  refine { nf := f6 ▸ nf, ne := f4 ▸ ne, ex := ex', wk := wk', tfq := tfq', tfr := tfr', tfp := f1 ▸ tfp, lo := lo',
           wfp := ?_, la := ?_, lk := f1 ▸ lk, rd := f7 ▸ rd, pa := ?_, wl := wl', dw := ?_, lw := ?_, ln := ln' }
  · have he : eff s' = eff s := by simp only [eff, f1, f3]
    rw [he, f2]; exact wfp
  · rw [f1, f3]; exact la
  · rw [f1, f3]; exact pa
  · rw [f1, f5]; exact dw
  · rw [f1, f5]; exact lw

theorem invAN_reach {s0 s : St} (hA : InvA s0) (hN : InvN s0) (h : Reach s0 s) : InvA s ∧ InvN s := by
  induction h with
  | init => exact ⟨hA, hN⟩
  | step t _ hs ih =>
    cases t
    · exact ⟨invA_stepMain _ _ ih.1 hs, invN_stepMain _ _ ih.1 ih.2 hs⟩
    · exact ⟨invA_stepWorker _ _ ih.1 hs, invN_stepWorker _ _ ih.2 hs⟩

end TenpyModel.C20.Threaded
