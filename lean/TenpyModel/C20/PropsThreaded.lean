import TenpyModel.C20.ThreadedInv
import TenpyModel.C20.ThreadedProgress
/-!
# C20 (concurrent part) — property theorems

All statements quantify over every program, queue size, fault position and every reachable state
of the transition system `Threaded.step`, i.e. over EVERY schedule (`Reach s0 s` holds iff some
sequence of enabled steps leads from `s0` to `s`).
-/
open TenpyModel.C20.Threaded

namespace TenpyModel.C20.Threaded

theorem worker_enabled_iff (s : St) :
    enabled .worker s = true ↔ s.wpc ≠ .dead ∧ (s.wpc = .drainGet → 0 < s.queue.length) := by
  simp only [enabled, step, stepWorker]
  cases hw : s.wpc <;> simp only [] <;> (repeat' split) <;> simp_all

theorem main_enabled_iff (s : St) :
    enabled .main s = true ↔
      (∀ a, s.mpc = .join a → s.unfinished = 0) ∧ (s.mpc = .closeTJoin → s.wpc = .dead) ∧ s.mpc ≠ .done := by
  simp only [enabled, step, stepMain]
  cases hm : s.mpc <;> simp
  all_goals (try (repeat' split) <;> simp_all)

theorem reach_params {s0 s : St} (h : Reach s0 s) : s.maxsize = s0.maxsize ∧ s.failAt = s0.failAt := by
  induction h with
  | init => exact ⟨rfl, rfl⟩
  | step t _ hs ih =>
    cases t
    · simp only [step] at hs; split_main hs <;> exact ih
    · simp only [step] at hs; split_worker hs <;> exact ih

/-- a fixed fair schedule for the examples: main whenever it can make progress (not a `put` on a
full queue), else the worker -/
def runMainFirst : Nat → St → St
  | 0, s => s
  | n + 1, s =>
    let spin := match s.mpc with | .put _ _ => full s | _ => false
    match (if spin then none else stepMain s) with
    | some s' => runMainFirst n s'
    | none => match stepWorker s with
      | some s' => runMainFirst n s'
      | none => s

/-- the opposite schedule: the worker whenever it can make progress (not an idle poll), else main -/
def runWorkerFirst : Nat → St → St
  | 0, s => s
  | n + 1, s =>
    if s.wpc = .dead ∨ ((s.wpc = .isSet ∨ s.wpc = .get) ∧ s.queue = [] ∧ s.exit = false) then
      match stepMain s with
      | some s' => runWorkerFirst n s'
      | none => match stepWorker s with
        | some s' => runWorkerFirst n s'
        | none => s
    else match stepWorker s with
      | some s' => runWorkerFirst n s'
      | none => s

end TenpyModel.C20.Threaded

/-- `Queue.unfinished_tasks` counts exactly the queued tasks plus the one the worker holds. -/
theorem C20_threaded_unfinished (prog : List Call) (maxsize : Nat) (failAt : Option Nat) (s : St)
    (h : Reach (init prog maxsize failAt) s) : s.unfinished = s.queue.length + holds s.wpc :=
  (invB_reach (invB_init _ _ _) h).unf

/-- The task queue never exceeds `max_queue_size`. -/
theorem C20_threaded_queue_bounded (prog : List Call) (maxsize : Nat) (failAt : Option Nat) (s : St)
    (h : Reach (init prog maxsize failAt) s) (hm : maxsize ≠ 0) : s.queue.length ≤ maxsize := by
  have hp := (reach_params h).1
  have := (invB_reach (invB_init _ _ _) h).bound
  simp only [init] at hp
  rw [hp] at this
  exact this hm

/-- **No deadlock**: in every reachable state, as long as `close` has not completed, some thread
has an enabled step. -/
theorem C20_threaded_no_deadlock (prog : List Call) (maxsize : Nat) (failAt : Option Nat) (s : St)
    (h : Reach (init prog maxsize failAt) s) (hd : s.mpc ≠ .done) :
    enabled .main s = true ∨ enabled .worker s = true := by
  have inv := invB_reach (invB_init _ _ _) h
  by_cases hm : enabled .main s = true
  · exact Or.inl hm
  · right
    rw [main_enabled_iff] at hm
    rw [worker_enabled_iff]
    refine ⟨?_, inv.drain⟩
    intro hdead
    apply hm
    refine ⟨?_, fun _ => hdead, hd⟩
    intro a ha
    have := inv.joinDead a ha hdead
    have hu := inv.unf
    simp [hdead, holds] at hu
    omega

/-- Main blocked in `tasks.join()` (unfinished tasks) ⇒ the worker can step: a failing task never
leaves `join_tasks` blocked with a dead worker. -/
theorem C20_threaded_join_not_stuck (prog : List Call) (maxsize : Nat) (failAt : Option Nat) (s : St)
    (h : Reach (init prog maxsize failAt) s) (a : AfterJoin) (hj : s.mpc = .join a) (hu : s.unfinished ≠ 0) :
    enabled .worker s = true := by
  have inv := invB_reach (invB_init _ _ _) h
  rw [worker_enabled_iff]
  refine ⟨?_, inv.drain⟩
  intro hdead
  have := inv.joinDead a hj hdead
  have hu' := inv.unf
  simp [hdead, holds] at hu'
  omega

/-- Main blocked in `worker_thread.join()` (inside `close`) ⇒ the worker can step. -/
theorem C20_threaded_close_not_stuck (prog : List Call) (maxsize : Nat) (failAt : Option Nat) (s : St)
    (h : Reach (init prog maxsize failAt) s) (_hj : s.mpc = .closeTJoin) (hw : s.wpc ≠ .dead) :
    enabled .worker s = true := by
  have inv := invB_reach (invB_init _ _ _) h
  rw [worker_enabled_iff]
  exact ⟨hw, inv.drain⟩

/-- **After close no thread is enabled**: the worker has terminated, the caller is done. -/
theorem C20_threaded_close (prog : List Call) (maxsize : Nat) (failAt : Option Nat) (s : St)
    (h : Reach (init prog maxsize failAt) s) (hd : s.mpc = .done) :
    s.wpc = .dead ∧ enabled .main s = false ∧ enabled .worker s = false := by
  have inv := invB_reach (invB_init _ _ _) h
  have hw := inv.doneDead hd
  refine ⟨hw, ?_, ?_⟩
  · simp [enabled, step, stepMain, hd]
  · simp [enabled, step, stepWorker, hw]

/-- non-vacuity: a schedule that reaches "main blocked in join, worker holds the task", one that
ends in the closed state, and one where the injected fault kills the worker while main joins -/
example :
    let s := (runSched [.main, .main, .main, .main, .main, .main, .main, .main, .main, .main, .main, .main,
        .worker, .worker] (init [.save 0 5, .load 0] 2 none)).1
    s.mpc = .join (.loadC3 0) ∧ s.unfinished = 2 ∧ enabled .main s = false ∧ enabled .worker s = true := by
  decide

/-- **Linearizability to the dictionary spec**: under EVERY schedule (and every injected worker
fault), every `load k` that completes returns the value of the last `save k` that precedes it in
program order (`abs` is updated exactly when a `save`/`delete` task is enqueued; `reads` logs
`(k, returned value, abs k)` at the moment `load` returns). -/
theorem C20_threaded_linearizable (prog : List Call) (maxsize : Nat) (failAt : Option Nat) (s : St)
    (h : Reach (init prog maxsize failAt) s) (k : Key) (v a : Val) (hr : (k, v, some a) ∈ s.reads) : v = a :=
  (invA_reach (invA_init _ _ _) h).r (k, v, some a) hr a rfl

/-- non-vacuity: `save 0 1; preload 0; save 0 2 (joins the pending preload, overwrites _loaded);
load 0; delete 0; save 0 3; load 0` under two different schedules runs to completion and logs the
reads `2` and `3`, each with the matching program-order value. -/
example :
    let p : List Call := [.save 0 1, .preload 0, .save 0 2, .load 0, .delete 0, .save 0 3, .load 0]
    let s1 := runMainFirst 400 (init p 1 none)
    let s2 := runWorkerFirst 400 (init p 2 none)
    s1.mpc = .done ∧ s1.reads = [(0, 3, some 3), (0, 2, some 2)] ∧
    s2.mpc = .done ∧ s2.reads = [(0, 3, some 3), (0, 2, some 2)] ∧
    s1.outs = [.ret (some 3), .ret none, .ret none, .ret (some 2), .ret none, .ret none, .ret none] := by
  decide

/-- non-vacuity of the fault case: the second task (the load) raises in the worker while main
waits in `join`; main is released and gets `WorkerDied` (or, if `task_done` wins the race against
`exit.set`, the `assert` fails) — never a hang; close completes. -/
example :
    let s1 := runMainFirst 400 (init [.save 0 1, .load 0] 1 (some 1))
    let s2 := runWorkerFirst 400 (init [.save 0 1, .load 0] 1 (some 1))
    s1.mpc = .done ∧ s1.wpc = .dead ∧ s1.outs = [.err .assertion, .ret none] ∧
    s2.mpc = .done ∧ s2.wpc = .dead ∧ s2.outs = [.err .workerDied, .ret none] := by
  decide

/-- **A failing (or any) task never leaves `join_tasks` blocked**: whenever the caller is in
`tasks.join()`, at most `mu s = 5·|queue| + rank` steps of the worker alone bring
`unfinished_tasks` to 0 — by executing the tasks, or, after an exception / exit request, by
draining them (`workerIter` just iterates `stepWorker`). -/
theorem C20_threaded_join_progress (prog : List Call) (maxsize : Nat) (failAt : Option Nat) (s : St)
    (h : Reach (init prog maxsize failAt) s) (a : AfterJoin) (hj : s.mpc = .join a) :
    ∃ n, n ≤ mu s ∧ (workerIter n s).unfinished = 0 ∧ (workerIter n s).mpc = .join a := by
  obtain ⟨n, hn, hu⟩ := join_progress s (invB_reach (invB_init _ _ _) h) a hj
  refine ⟨n, hn, hu, ?_⟩
  have : ∀ n s, (workerIter n s).mpc = s.mpc := by
    intro n
    induction n with
    | zero => intro s; rfl
    | succ n ih =>
      intro s
      simp only [workerIter]
      split
      · rename_i s' hs'; rw [ih s', (worker_frame s s' hs').1]
      · rfl
  rw [this, hj]

/-- **`close` terminates**: once the caller waits in `worker_thread.join()`, at most `mu s` worker
steps later the worker thread has terminated. -/
theorem C20_threaded_close_progress (prog : List Call) (maxsize : Nat) (failAt : Option Nat) (s : St)
    (h : Reach (init prog maxsize failAt) s) (hj : s.mpc = .closeTJoin) :
    ∃ n, n ≤ mu s ∧ (workerIter n s).wpc = .dead :=
  close_progress s (invB_reach (invB_init _ _ _) h) hj

/-- **`put` on a full queue does not spin forever**: after at most `mu s` worker steps the queue
has room or the worker is dead — and in the latter case the next alive-check raises
(`C20_threaded_dead_worker_raises`). -/
theorem C20_threaded_put_progress (prog : List Call) (maxsize : Nat) (failAt : Option Nat) (s : St)
    (h : Reach (init prog maxsize failAt) s) :
    ∃ n, n ≤ mu s ∧ (full (workerIter n s) = false ∨ (workerIter n s).wpc = .dead) :=
  put_progress s (invB_reach (invB_init _ _ _) h)

/-- `_test_worker_alive` raises `WorkerDied` as soon as the exit flag is set or the thread is dead. -/
theorem C20_threaded_dead_worker_raises (s : St) (c : Cont) :
    (s.mpc = .isSet c → s.exit = true → stepMain s = some (raise s .workerDied)) ∧
    (s.mpc = .isAlive c → s.wpc = .dead → stepMain s = some (raise s .workerDied)) := by
  constructor
  · intro h1 h2; simp [stepMain, h1, h2]
  · intro h1 h2; simp [stepMain, h1, h2]

/-- non-vacuity: main in `join` with two unfinished tasks, the first of which raises: 6 ≤ mu = 12
worker steps (fail, task_done, exit.set, drain) release the join; then the alive-check raises. -/
example :
    let s := (runSched [.main, .main, .main, .main, .main, .main, .main, .main, .main, .main, .main, .main,
        .worker, .worker] (init [.save 0 5, .load 0] 2 (some 0))).1
    s.mpc = .join (.loadC3 0) ∧ s.unfinished = 2 ∧ mu s = 12 ∧
    (workerIter 5 s).unfinished = 1 ∧ (workerIter 6 s).unfinished = 0 ∧ (workerIter 6 s).exit = true ∧
    (workerIter 7 s).wpc = .dead := by
  decide

/-
Full statement NOT proved (kept for the record; it is what the harness' oracle checks on every
run, "no exception without an injected fault"):

  theorem C20_threaded_no_spurious_error (prog) (maxsize) (s)
      (hwf : every `load k`/`preload k` of `prog` is preceded by a `save k _` with no `delete k` in between)
      (h : Reach (init prog maxsize none) s) : ∀ e, Out.err e ∉ s.outs

Missing: an invariant that a queued `load k` finds `k` on disk when it runs (the prefix of the
queue before it, applied to the disk, holds `k`), and that `k ∈ waiting`, nothing in flight and a
healthy worker imply `k ∈ _loaded`.  What is proved is the part about `WorkerDied`:
-/

/-- `WorkerDied` is only ever raised when the exit flag is set or the worker thread has terminated
(and both are permanent) — it never surfaces while the worker is alive and well. -/
theorem C20_threaded_no_spurious_error_partial (prog : List Call) (maxsize : Nat) (failAt : Option Nat) (s : St)
    (h : Reach (init prog maxsize failAt) s) (he : Out.err .workerDied ∈ s.outs) :
    s.exit = true ∨ s.wpc = .dead :=
  invC_reach (s0 := init prog maxsize failAt) (by simp [InvC, init]) h he

example : Out.err .workerDied ∈ (runWorkerFirst 400 (init [.save 0 1, .load 0] 1 (some 1))).outs := by decide
