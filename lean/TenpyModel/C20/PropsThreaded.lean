import TenpyModel.C20.ThreadedProofs
/-!
# C20 (concurrent part) — property theorems

All statements quantify over every program, queue size, fault position and every reachable state
of the transition system `Threaded.step`, i.e. over EVERY schedule (`Reach s0 s` holds iff some
sequence of enabled steps leads from `s0` to `s`).
-/
open TenpyModel.C20.Threaded

namespace TenpyModel.C20.Threaded

theorem worker_enabled_iff (s : St) :
    enabled .worker s = true ↔ s.wpc ≠ .dead ∧ (s.wpc = .drainGet → 0 < s.queue.length) := by
  simp only [enabled, step, stepWorker]
  cases hw : s.wpc <;> simp only [] <;> (repeat' split) <;> simp_all

theorem main_enabled_iff (s : St) :
    enabled .main s = true ↔
      (∀ a, s.mpc = .join a → s.unfinished = 0) ∧ (s.mpc = .closeTJoin → s.wpc = .dead) ∧ s.mpc ≠ .done := by
  simp only [enabled, step, stepMain]
  cases hm : s.mpc <;> simp
  all_goals (try (repeat' split) <;> simp_all)

theorem reach_params {s0 s : St} (h : Reach s0 s) : s.maxsize = s0.maxsize ∧ s.failAt = s0.failAt := by
  induction h with
  | init => exact ⟨rfl, rfl⟩
  | step t _ hs ih =>
    cases t
    · simp only [step] at hs; split_main hs <;> exact ih
    · simp only [step] at hs; split_worker hs <;> exact ih

end TenpyModel.C20.Threaded

/-- `Queue.unfinished_tasks` counts exactly the queued tasks plus the one the worker holds. -/
theorem C20_threaded_unfinished (prog : List Call) (maxsize : Nat) (failAt : Option Nat) (s : St)
    (h : Reach (init prog maxsize failAt) s) : s.unfinished = s.queue.length + holds s.wpc :=
  (invB_reach (invB_init _ _ _) h).unf

/-- The task queue never exceeds `max_queue_size`. -/
theorem C20_threaded_queue_bounded (prog : List Call) (maxsize : Nat) (failAt : Option Nat) (s : St)
    (h : Reach (init prog maxsize failAt) s) (hm : maxsize ≠ 0) : s.queue.length ≤ maxsize := by
  have hp := (reach_params h).1
  have := (invB_reach (invB_init _ _ _) h).bound
  simp only [init] at hp
  rw [hp] at this
  exact this hm

/-- **No deadlock**: in every reachable state, as long as `close` has not completed, some thread
has an enabled step. -/
theorem C20_threaded_no_deadlock (prog : List Call) (maxsize : Nat) (failAt : Option Nat) (s : St)
    (h : Reach (init prog maxsize failAt) s) (hd : s.mpc ≠ .done) :
    enabled .main s = true ∨ enabled .worker s = true := by
  have inv := invB_reach (invB_init _ _ _) h
  by_cases hm : enabled .main s = true
  · exact Or.inl hm
  · right
    rw [main_enabled_iff] at hm
    rw [worker_enabled_iff]
    refine ⟨?_, inv.drain⟩
    intro hdead
    apply hm
    refine ⟨?_, fun _ => hdead, hd⟩
    intro a ha
    have := inv.joinDead a ha hdead
    have hu := inv.unf
    simp [hdead, holds] at hu
    omega

/-- Main blocked in `tasks.join()` (unfinished tasks) ⇒ the worker can step: a failing task never
leaves `join_tasks` blocked with a dead worker. -/
theorem C20_threaded_join_not_stuck (prog : List Call) (maxsize : Nat) (failAt : Option Nat) (s : St)
    (h : Reach (init prog maxsize failAt) s) (a : AfterJoin) (hj : s.mpc = .join a) (hu : s.unfinished ≠ 0) :
    enabled .worker s = true := by
  have inv := invB_reach (invB_init _ _ _) h
  rw [worker_enabled_iff]
  refine ⟨?_, inv.drain⟩
  intro hdead
  have := inv.joinDead a hj hdead
  have hu' := inv.unf
  simp [hdead, holds] at hu'
  omega

/-- Main blocked in `worker_thread.join()` (inside `close`) ⇒ the worker can step. -/
theorem C20_threaded_close_not_stuck (prog : List Call) (maxsize : Nat) (failAt : Option Nat) (s : St)
    (h : Reach (init prog maxsize failAt) s) (_hj : s.mpc = .closeTJoin) (hw : s.wpc ≠ .dead) :
    enabled .worker s = true := by
  have inv := invB_reach (invB_init _ _ _) h
  rw [worker_enabled_iff]
  exact ⟨hw, inv.drain⟩

/-- **After close no thread is enabled**: the worker has terminated, the caller is done. -/
theorem C20_threaded_close (prog : List Call) (maxsize : Nat) (failAt : Option Nat) (s : St)
    (h : Reach (init prog maxsize failAt) s) (hd : s.mpc = .done) :
    s.wpc = .dead ∧ enabled .main s = false ∧ enabled .worker s = false := by
  have inv := invB_reach (invB_init _ _ _) h
  have hw := inv.doneDead hd
  refine ⟨hw, ?_, ?_⟩
  · simp [enabled, step, stepMain, hd]
  · simp [enabled, step, stepWorker, hw]

/-- non-vacuity: a schedule that reaches "main blocked in join, worker holds the task", one that
ends in the closed state, and one where the injected fault kills the worker while main joins -/
example :
    let s := (runSched [.main, .main, .main, .main, .main, .main, .main, .main, .main, .main, .main, .main,
        .worker, .worker] (init [.save 0 5, .load 0] 2 none)).1
    s.mpc = .join (.loadC3 0) ∧ s.unfinished = 2 ∧ enabled .main s = false ∧ enabled .worker s = true := by
  decide
