import TenpyModel.C20.P2_NoErrInv
/-! Every call of the program produces exactly one output. -/
set_option linter.unusedSimpArgs false
set_option linter.unusedVariables false
namespace TenpyModel.C20.Threaded

/-- main is inside a storage call -/
def inCall : MPc → Nat
  | .idle | .closeAlive | .closeSetExit | .closeTJoin | .done => 0
  | _ => 1

def closing : MPc → Prop
  | .closeAlive | .closeSetExit | .closeTJoin | .done => True
  | _ => False

structure InvCount (total : Nat) (s : St) : Prop where
  cnt : hasErr s ∨ s.outs.length + s.prog.length + inCall s.mpc = total
  cl  : closing s.mpc → s.prog = []

theorem invCount_stepMain (total : Nat) (s s' : St) (h : InvCount total s) (hs : stepMain s = some s') :
    InvCount total s' := by
  obtain ⟨h1, h2⟩ := h
  split_main hs
  all_goals (constructor <;> simp only [inCall, closing, hasErr, List.length_cons] at * <;> grind)

theorem invCount_stepWorker (total : Nat) (s s' : St) (h : InvCount total s) (hs : stepWorker s = some s') :
    InvCount total s' := by
  obtain ⟨h1, h2⟩ := h
  obtain ⟨f1, f2, f3, f4, f5, f6, f7⟩ := worker_frame2 s s' hs
  constructor
  · simp only [hasErr, f1, f2, f4] at *; exact h1
  · rw [f1, f2]; exact h2

theorem invCount_reach {total : Nat} {s0 s : St} (h0 : InvCount total s0) (h : Reach s0 s) : InvCount total s := by
  induction h with
  | init => exact h0
  | step t _ hs ih =>
    cases t
    · exact invCount_stepMain _ _ _ ih hs
    · exact invCount_stepWorker _ _ _ ih hs

end TenpyModel.C20.Threaded
