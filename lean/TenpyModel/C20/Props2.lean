import TenpyModel.C20.PropsThreaded
import TenpyModel.C20.PropsCache
import TenpyModel.C20.P2_NoErrInv
import TenpyModel.C20.P2_Wf
import TenpyModel.C20.P2_CacheLen
import TenpyModel.C20.P2_Count
/-!
# C20 — property theorems, second part

* `C20_threaded_no_spurious_error` completes `C20_threaded_no_spurious_error_partial`: in a
  fault-free run of a program that only loads keys it saved, NO exception is raised, under every
  schedule.  The invariant that was missing (`InvN`, `P2_NoErr*.lean`): every queued `load k`
  finds `k` on disk when it runs (`loadsOk`: the pending saves of `k` precede it in the FIFO
  order or `k` is on disk, and no pending delete lies in between; deletes never overtake because
  the queue is FIFO), `k ∈ _waiting_for_load` ⇒ `k ∈ _loaded` or a `load k` is in flight, the
  worker never enters its `except` branch, `exit` is only set by `close`.
* `C20_cache_len_iter`: `len`, `iter`, `in` of a `DictCache` after an arbitrary history.
-/
namespace TenpyModel.C20.Threaded

/-- **The program only loads keys it saved**: every `load k` / `preload k` is preceded by a
`save k _` with no `delete k` in between. -/
def LoadsSaved (prog : List Call) : Prop :=
  ∀ (i : Nat) (k : Key), (prog[i]? = some (Call.load k) ∨ prog[i]? = some (Call.preload k)) →
    ∃ (j : Nat) (v : Val), j < i ∧ prog[j]? = some (Call.save k v) ∧ ∀ m : Nat, j < m → m < i → prog[m]? ≠ some (Call.delete k)

theorem loadsSaved_iff (prog : List Call) : LoadsSaved prog ↔ wfProg (fun _ => false) prog = true := by
  rw [wfProg_iff]
  unfold LoadsSaved
  constructor
  · intro h i k hr
    exact Or.inr (h i k hr)
  · intro h i k hr
    rcases h i k hr with ⟨h0, _⟩ | h1
    · exact absurd h0 (by simp)
    · exact h1

instance (prog : List Call) : Decidable (LoadsSaved prog) := decidable_of_iff _ (loadsSaved_iff prog).symm

end TenpyModel.C20.Threaded

section ThreadedPart
open TenpyModel.C20.Threaded

/-- **No spurious error** (full statement).  For every program that only loads keys it saved,
every queue size, and EVERY schedule (`Reach`) of a fault-free run (`failAt = none`): no storage
call ever raises — neither `WorkerDied` nor the `assert key in self._loaded` /
`assert key in self._waiting_for_load` — i.e. `outs` contains no `Out.err`. -/
theorem C20_threaded_no_spurious_error (prog : List Call) (maxsize : Nat) (s : St)
    (hwf : LoadsSaved prog) (h : Reach (init prog maxsize none) s) : ∀ e, Out.err e ∉ s.outs :=
  (invAN_reach (invA_init _ _ _) (invN_init _ _ ((loadsSaved_iff prog).1 hwf)) h).2.ne

/-- non-vacuity: the hypothesis holds for a program with preload, overwrite while a load is
pending, delete and re-save; two different complete schedules end without an error, and the
hypothesis is needed: loading a deleted key raises under the same schedules. -/
example :
    let p : List Call := [.save 0 1, .preload 0, .save 0 2, .load 0, .delete 0, .save 0 3, .load 0, .save 1 4, .load 1]
    LoadsSaved p ∧ ¬ LoadsSaved [.save 0 1, .delete 0, .load 0] ∧
    (runMainFirst 600 (init p 1 none)).mpc = .done ∧
    (runMainFirst 600 (init p 1 none)).outs =
      [.ret (some 4), .ret none, .ret (some 3), .ret none, .ret none, .ret (some 2), .ret none, .ret none, .ret none] ∧
    (runWorkerFirst 600 (init p 2 none)).mpc = .done ∧
    Out.err .workerDied ∈ (runWorkerFirst 400 (init [.save 0 1, .delete 0, .load 0] 2 none)).outs := by
  decide

/-- **A queued `load` finds its key** (the invariant behind the theorem above, as a statement
about the worker): in such runs, whenever the worker is about to execute a `load` task, the key
is on disk and the task is not a failing one; the worker never takes its `except` branch; the
`exit` event is set by `close` only. -/
theorem C20_threaded_queued_load_finds_key (prog : List Call) (maxsize : Nat) (s : St)
    (hwf : LoadsSaved prog) (h : Reach (init prog maxsize none) s) :
    (∀ t, s.wpc = .run t → t.fails = false ∧ (t.kind = .load → s.disk t.key ≠ none)) ∧
    s.wpc ≠ .taskDone true ∧ s.wpc ≠ .setExit ∧
    (s.exit = true → s.mpc = .closeTJoin ∨ s.mpc = .done) := by
  have inv := (invAN_reach (invA_init _ _ _) (invN_init _ _ ((loadsSaved_iff prog).1 hwf)) h).2
  refine ⟨fun t ht => ⟨inv.tfr t ht, fun hk => ?_⟩, ?_, ?_, inv.ex⟩
  · have := inv.lo (by simp [ht, healthy])
    simp only [pend, ht, List.singleton_append, loadsOk] at this
    exact this.1 hk
  · intro hw; have := inv.wk; simp [wOk, hw] at this
  · intro hw; have := inv.wk; simp [wOk, hw] at this

example :
    let s := (runSched [.main, .main, .main, .main, .main, .main, .main, .main, .main, .main, .main, .main,
        .worker, .worker, .worker, .worker, .worker, .worker]
        (init [.save 0 5, .load 0] 2 none)).1
    s.wpc = .run ⟨.load, 0, false⟩ ∧ s.disk 0 = some 5 := by
  decide

/-- **Every load returns the value last saved** (fault-free, well-formed programs): each completed
`load k` found a value in the program-order dictionary (`abs k = some a`, never `none`) and
returned exactly it.  Together with the theorem above: every `load` terminates its call normally
with the dictionary's value. -/
theorem C20_threaded_reads_saved (prog : List Call) (maxsize : Nat) (s : St)
    (hwf : LoadsSaved prog) (h : Reach (init prog maxsize none) s) :
    ∀ k v a, (k, v, a) ∈ s.reads → a = some v := by
  intro k v a hr
  obtain ⟨hA, hN⟩ := invAN_reach (invA_init _ _ _) (invN_init _ _ ((loadsSaved_iff prog).1 hwf)) h
  have h1 := hN.rd _ hr
  cases a with
  | none => exact absurd rfl h1
  | some a' => exact congrArg some (hA.r _ hr a' rfl).symm

example :
    (runWorkerFirst 600 (init [.save 0 1, .preload 0, .save 0 2, .load 0, .delete 0, .save 0 3, .load 0] 2 none)).reads
      = [(0, 3, some 3), (0, 2, some 2)] := by
  decide

/-- **Every call returns**: in a fault-free run of a program that only loads keys it saved, under
every schedule, once the caller has entered `close` (in particular when `close` has completed) the
whole program has been executed and there is exactly one output per call, each a normal return
(`Out.ret`) — no call was skipped, none raised. -/
theorem C20_threaded_all_calls_return (prog : List Call) (maxsize : Nat) (s : St)
    (hwf : LoadsSaved prog) (h : Reach (init prog maxsize none) s)
    (hc : s.mpc = .closeAlive ∨ s.mpc = .closeSetExit ∨ s.mpc = .closeTJoin ∨ s.mpc = .done) :
    s.prog = [] ∧ s.outs.length = prog.length ∧ ∀ o ∈ s.outs, ∃ v, o = Out.ret v := by
  have hne := C20_threaded_no_spurious_error prog maxsize s hwf h
  have hcnt : InvCount prog.length s :=
    invCount_reach (s0 := init prog maxsize none) ⟨Or.inr (by simp [init, inCall]), by simp [init, closing]⟩ h
  have hcl : closing s.mpc := by rcases hc with h | h | h | h <;> simp [h, closing]
  have hp := hcnt.cl hcl
  refine ⟨hp, ?_, ?_⟩
  · rcases hcnt.cnt with ⟨e, he⟩ | hn
    · exact absurd he (hne e)
    · have : inCall s.mpc = 0 := by rcases hc with h | h | h | h <;> simp [h, inCall]
      rw [hp, this] at hn
      simpa using hn
  · intro o ho
    cases o with
    | ret v => exact ⟨v, rfl⟩
    | err e => exact absurd ho (hne e)

example :
    let p : List Call := [.save 0 1, .preload 0, .save 0 2, .load 0, .delete 0, .save 0 3, .load 0]
    (runMainFirst 400 (init p 1 none)).mpc = .done ∧ (runMainFirst 400 (init p 1 none)).outs.length = 7 := by
  decide

end ThreadedPart

section CachePart
open TenpyModel.C20.Cache

/-- **`len`, `iter`, `in` agree with the dictionary after every history.**  Run any operation
sequence `ops` (any storage kind, any nesting of sub-caches) and let `d` be the dictionary that
the specification holds for cache `i` afterwards.  While the storage is open: `iter` yields the
keys of `d`, each once; `len` is their number; `k in cache` iff `d` holds `k`, iff `k` is among
the iterated keys; none of the three changes the state. -/
theorem C20_cache_len_iter (kind : Kind) (ops : List (Nat × Op)) (i : Nat) :
    let s := (run (TenpyModel.C20.Cache.init kind) ops).1
    let d := ((specRun kind specInit ops).1).dicts i
    i < s.n → s.opened = true →
      TenpyModel.C20.Cache.step s i .iter = (s, .keys (dkeys d)) ∧ (dkeys d).Nodup ∧
      TenpyModel.C20.Cache.step s i .len = (s, .nat (dkeys d).length) ∧
      (∀ k, TenpyModel.C20.Cache.step s i (.contains k) = (s, .bool (decide (dget d k ≠ none)))) ∧
      (∀ k, k ∈ dkeys d ↔ dget d k ≠ none) := by
  intro s d hi ho
  have hrel : Rel kind s _ := run_rel kind ops _ _ (rel_init kind)
  have hl : s.ltk i = dkeys d := hrel.ltk ho i
  have hnd : (dkeys d).Nodup := specNodup_run kind ops _ specNodup_init i
  refine ⟨?_, hnd, ?_, ?_, mem_dkeys_iff d⟩
  · simp [TenpyModel.C20.Cache.step, hi, hl]
  · simp [TenpyModel.C20.Cache.step, hi, hl]
  · intro k
    simp only [TenpyModel.C20.Cache.step, hi, if_true, hl]
    congr 2
    exact decide_eq_decide.2 (mem_dkeys_iff d k)

example :
    let ops : List (Nat × Op) := [(0, .set 3 5), (0, .set 1 6), (0, .createSubcache 0), (1, .set 3 9), (0, .set 3 7), (0, .del 1), (0, .set 2 8)]
    let s := (run (TenpyModel.C20.Cache.init ⟨true⟩) ops).1
    s.opened = true ∧ s.n = 2 ∧ (TenpyModel.C20.Cache.step s 0 .iter).2 = .keys [3, 2] ∧ (TenpyModel.C20.Cache.step s 0 .len).2 = .nat 2 ∧
    (TenpyModel.C20.Cache.step s 0 (.contains 1)).2 = .bool false ∧ (TenpyModel.C20.Cache.step s 1 .iter).2 = .keys [3] ∧
    dkeys ((specRun ⟨true⟩ specInit ops).1.dicts 0) = [3, 2] := by
  decide

end CachePart
