import TenpyModel.C20.P2_NoErrDefs
/-! `InvN` is preserved by the steps of the main thread (part 1). -/
set_option linter.unusedSimpArgs false
set_option linter.unusedVariables false
namespace TenpyModel.C20.Threaded

macro "nfld" : tactic => `(tactic| (
  simp only [infl, pend, putPending, loadWait, needLoaded, inLoad, loadPut, eff, wOk, mkTask, loadDelKey, saveJoinPath,
    Option.isNone_iff_eq_none, applyTask] at * <;> grind))

macro "main_pc2" hs:ident hm:ident hp:ident : tactic => `(tactic| (
  simp only [stepMain, $hm:ident, $hp:ident, raise, finish, afterPut, afterJoin] at $hs:ident
  repeat' (split at $hs:ident)
  all_goals (first | (simp only [Option.some.injEq] at $hs:ident; subst $hs:ident) | (exact absurd $hs:ident (by simp)))))

/-- close the `wfp` goal from the hypothesis `wfp` -/
macro "wfp_tac" wfp:ident : tactic => `(tactic| (
  first
  | exact $wfp:ident
  | exact ($wfp:ident).2
  | exact rfl
  | (refine Eq.trans (wfProg_congr _ _ _ ?_) $wfp:ident
     intro j; simp only [eff, applyTask, mkTask]
     first | done | rfl | (split <;> simp_all) | simp_all)))

/-- the generic proof for a program point whose step does not touch queue/disk -/
macro "main_generic" hs:ident hm:ident nf:ident wk:ident tfq:ident tfr:ident lo:ident wfp:ident : tactic => `(tactic| (
  main_pc $hs $hm
  all_goals (
    refine { nf := $nf, ne := ?_, ex := ?_, wk := $wk, tfq := $tfq, tfr := $tfr, tfp := ?_, lo := $lo, wfp := ?_, la := ?_, lk := ?_, rd := ?_, pa := ?_, wl := ?_, dw := ?_, lw := ?_, ln := ?_ }
    rotate_left 3
    wfp_tac $wfp
    all_goals (clear $lo $wfp; nfld))))


theorem invN_main_idle (s s' : St) (hA : InvA s) (h : InvN s) (hm : s.mpc = .idle)
    (hs : stepMain s = some s') : InvN s' := by
  obtain ⟨nf, ne, ex, wk, tfq, tfr, tfp, lo, wfp, la, lk, rd, pa, wl, dw, lw, ln⟩ := h
  have hi4 := hA.i4; have hsw := hA.sw
  simp only [hm] at ex tfp la lk pa wl dw lw ln hi4 hsw
  simp only [eff, hm] at wfp
  cases hp : s.prog with
  | nil =>
    main_pc2 hs hm hp
    refine { nf := nf, ne := ?_, ex := ?_, wk := wk, tfq := tfq, tfr := tfr, tfp := ?_, lo := lo, wfp := ?_, la := ?_, lk := ?_, rd := ?_, pa := ?_, wl := ?_, dw := ?_, lw := ?_, ln := ?_ }
    rotate_left 3
    · simp [hp, wfProg]
    all_goals (clear lo wfp; nfld)
  | cons c p =>
    cases c with
    | load k =>
      simp only [hp, wfProg, Bool.and_eq_true, Option.isSome_iff_ne_none] at wfp
      main_pc2 hs hm hp
      all_goals (refine { nf := nf, ne := ?_, ex := ?_, wk := wk, tfq := tfq, tfr := tfr, tfp := ?_, lo := lo, wfp := ?_, la := ?_, lk := ?_, rd := ?_, pa := ?_, wl := ?_, dw := ?_, lw := ?_, ln := ?_ }; rotate_left 3; wfp_tac wfp; all_goals (clear lo; nfld))
    | preload k =>
      simp only [hp, wfProg, Bool.and_eq_true, Option.isSome_iff_ne_none] at wfp
      main_pc2 hs hm hp
      all_goals (refine { nf := nf, ne := ?_, ex := ?_, wk := wk, tfq := tfq, tfr := tfr, tfp := ?_, lo := lo, wfp := ?_, la := ?_, lk := ?_, rd := ?_, pa := ?_, wl := ?_, dw := ?_, lw := ?_, ln := ?_ }; rotate_left 3; wfp_tac wfp; all_goals (clear lo; nfld))
    | save k v =>
      simp only [hp, wfProg] at wfp
      main_pc2 hs hm hp
      all_goals (refine { nf := nf, ne := ?_, ex := ?_, wk := wk, tfq := tfq, tfr := tfr, tfp := ?_, lo := lo, wfp := ?_, la := ?_, lk := ?_, rd := ?_, pa := ?_, wl := ?_, dw := ?_, lw := ?_, ln := ?_ }; rotate_left 3; wfp_tac wfp; all_goals (clear lo wfp; nfld))
    | delete k =>
      simp only [hp, wfProg] at wfp
      main_pc2 hs hm hp
      all_goals (refine { nf := nf, ne := ?_, ex := ?_, wk := wk, tfq := tfq, tfr := tfr, tfp := ?_, lo := lo, wfp := ?_, la := ?_, lk := ?_, rd := ?_, pa := ?_, wl := ?_, dw := ?_, lw := ?_, ln := ?_ }; rotate_left 3; wfp_tac wfp; all_goals (clear lo wfp; nfld))

theorem invN_main_loadC1 (s s' : St) (hA : InvA s) (h : InvN s) (k : Key) (hm : s.mpc = .loadC1 k)
    (hs : stepMain s = some s') : InvN s' := by
  obtain ⟨nf, ne, ex, wk, tfq, tfr, tfp, lo, wfp, la, lk, rd, pa, wl, dw, lw, ln⟩ := h
  have hi4 := hA.i4; have hsw := hA.sw; have hpl := hA.pl
  simp only [hm] at ex tfp la lk pa wl dw lw ln hi4 hsw hpl
  simp only [eff, hm] at wfp
  main_generic hs hm nf wk tfq tfr lo wfp

theorem invN_main_loadC2 (s s' : St) (hA : InvA s) (h : InvN s) (k : Key) (hm : s.mpc = .loadC2 k)
    (hs : stepMain s = some s') : InvN s' := by
  obtain ⟨nf, ne, ex, wk, tfq, tfr, tfp, lo, wfp, la, lk, rd, pa, wl, dw, lw, ln⟩ := h
  have hi4 := hA.i4; have hsw := hA.sw; have hpl := hA.pl
  simp only [hm] at ex tfp la lk pa wl dw lw ln hi4 hsw hpl
  simp only [eff, hm] at wfp
  main_generic hs hm nf wk tfq tfr lo wfp

theorem invN_main_loadC3 (s s' : St) (hA : InvA s) (h : InvN s) (k : Key) (hm : s.mpc = .loadC3 k)
    (hs : stepMain s = some s') : InvN s' := by
  obtain ⟨nf, ne, ex, wk, tfq, tfr, tfp, lo, wfp, la, lk, rd, pa, wl, dw, lw, ln⟩ := h
  have hi4 := hA.i4; have hsw := hA.sw; have hpl := hA.pl
  simp only [hm] at ex tfp la lk pa wl dw lw ln hi4 hsw hpl
  simp only [eff, hm] at wfp
  main_generic hs hm nf wk tfq tfr lo wfp

theorem invN_main_loadGet (s s' : St) (hA : InvA s) (h : InvN s) (k : Key) (hm : s.mpc = .loadGet k)
    (hs : stepMain s = some s') : InvN s' := by
  obtain ⟨nf, ne, ex, wk, tfq, tfr, tfp, lo, wfp, la, lk, rd, pa, wl, dw, lw, ln⟩ := h
  have hi4 := hA.i4; have hsw := hA.sw; have hpl := hA.pl
  simp only [hm] at ex tfp la lk pa wl dw lw ln hi4 hsw hpl
  simp only [eff, hm] at wfp
  main_generic hs hm nf wk tfq tfr lo wfp

theorem invN_main_loadDel (s s' : St) (hA : InvA s) (h : InvN s) (k : Key) (v : Val) (hm : s.mpc = .loadDel k v)
    (hs : stepMain s = some s') : InvN s' := by
  obtain ⟨nf, ne, ex, wk, tfq, tfr, tfp, lo, wfp, la, lk, rd, pa, wl, dw, lw, ln⟩ := h
  have hi4 := hA.i4; have hsw := hA.sw; have hpl := hA.pl
  simp only [hm] at ex tfp la lk pa wl dw lw ln hi4 hsw hpl
  simp only [eff, hm] at wfp
  main_generic hs hm nf wk tfq tfr lo wfp

theorem invN_main_preC (s s' : St) (hA : InvA s) (h : InvN s) (k : Key) (hm : s.mpc = .preC k)
    (hs : stepMain s = some s') : InvN s' := by
  obtain ⟨nf, ne, ex, wk, tfq, tfr, tfp, lo, wfp, la, lk, rd, pa, wl, dw, lw, ln⟩ := h
  have hi4 := hA.i4; have hsw := hA.sw; have hpl := hA.pl
  simp only [hm] at ex tfp la lk pa wl dw lw ln hi4 hsw hpl
  simp only [eff, hm] at wfp
  main_generic hs hm nf wk tfq tfr lo wfp

theorem invN_main_saveC (s s' : St) (hA : InvA s) (h : InvN s) (k : Key) (v : Val) (hm : s.mpc = .saveC k v)
    (hs : stepMain s = some s') : InvN s' := by
  obtain ⟨nf, ne, ex, wk, tfq, tfr, tfp, lo, wfp, la, lk, rd, pa, wl, dw, lw, ln⟩ := h
  have hi4 := hA.i4; have hsw := hA.sw; have hpl := hA.pl
  simp only [hm] at ex tfp la lk pa wl dw lw ln hi4 hsw hpl
  simp only [eff, hm] at wfp
  main_generic hs hm nf wk tfq tfr lo wfp

theorem invN_main_saveSet (s s' : St) (hA : InvA s) (h : InvN s) (k : Key) (v : Val) (hm : s.mpc = .saveSet k v)
    (hs : stepMain s = some s') : InvN s' := by
  obtain ⟨nf, ne, ex, wk, tfq, tfr, tfp, lo, wfp, la, lk, rd, pa, wl, dw, lw, ln⟩ := h
  have hi4 := hA.i4; have hsw := hA.sw; have hpl := hA.pl
  simp only [hm] at ex tfp la lk pa wl dw lw ln hi4 hsw hpl
  simp only [eff, hm] at wfp
  main_generic hs hm nf wk tfq tfr lo wfp

theorem invN_main_closeAlive (s s' : St) (hA : InvA s) (h : InvN s)  (hm : s.mpc = .closeAlive)
    (hs : stepMain s = some s') : InvN s' := by
  obtain ⟨nf, ne, ex, wk, tfq, tfr, tfp, lo, wfp, la, lk, rd, pa, wl, dw, lw, ln⟩ := h
  have hi4 := hA.i4; have hsw := hA.sw; have hpl := hA.pl
  simp only [hm] at ex tfp la lk pa wl dw lw ln hi4 hsw hpl
  simp only [eff, hm] at wfp
  main_generic hs hm nf wk tfq tfr lo wfp

theorem wOk_exit (s s' : St) (hw : s'.wpc = s.wpc) (he : s'.exit = true) (h : wOk s) : wOk s' := by
  unfold wOk at *
  rw [hw]
  split <;> simp_all

theorem invN_main_closeSetExit (s s' : St) (hA : InvA s) (h : InvN s)  (hm : s.mpc = .closeSetExit)
    (hs : stepMain s = some s') : InvN s' := by
  obtain ⟨nf, ne, ex, wk, tfq, tfr, tfp, lo, wfp, la, lk, rd, pa, wl, dw, lw, ln⟩ := h
  have hi4 := hA.i4; have hsw := hA.sw; have hpl := hA.pl
  simp only [hm] at ex tfp la lk pa wl dw lw ln hi4 hsw hpl
  simp only [eff, hm] at wfp
  have wk' := wOk_exit s { s with exit := true, mpc := .closeTJoin } rfl rfl wk
  main_generic hs hm nf wk' tfq tfr lo wfp

theorem invN_main_closeTJoin (s s' : St) (hA : InvA s) (h : InvN s)  (hm : s.mpc = .closeTJoin)
    (hs : stepMain s = some s') : InvN s' := by
  obtain ⟨nf, ne, ex, wk, tfq, tfr, tfp, lo, wfp, la, lk, rd, pa, wl, dw, lw, ln⟩ := h
  have hi4 := hA.i4; have hsw := hA.sw; have hpl := hA.pl
  simp only [hm] at ex tfp la lk pa wl dw lw ln hi4 hsw hpl
  simp only [eff, hm] at wfp
  main_generic hs hm nf wk tfq tfr lo wfp

theorem invN_main_done (s s' : St) (hA : InvA s) (h : InvN s)  (hm : s.mpc = .done)
    (hs : stepMain s = some s') : InvN s' := by
  obtain ⟨nf, ne, ex, wk, tfq, tfr, tfp, lo, wfp, la, lk, rd, pa, wl, dw, lw, ln⟩ := h
  have hi4 := hA.i4; have hsw := hA.sw; have hpl := hA.pl
  simp only [hm] at ex tfp la lk pa wl dw lw ln hi4 hsw hpl
  simp only [eff, hm] at wfp
  main_generic hs hm nf wk tfq tfr lo wfp

end TenpyModel.C20.Threaded
