import TenpyModel.C20.ThreadedProofs
/-!
Bounded progress of the worker: whenever the main thread waits (in `tasks.join()`, in
`worker_thread.join()`, or retrying `put` on a full queue), running the worker alone for at most
`mu s` steps establishes what main waits for — also when a task raises.
-/
set_option linter.unusedSimpArgs false
set_option linter.unusedVariables false
namespace TenpyModel.C20.Threaded

/-- `n` steps of the worker alone (stops when it is blocked or terminated) -/
def workerIter : Nat → St → St
  | 0, s => s
  | n + 1, s =>
    match stepWorker s with
    | some s' => workerIter n s'
    | none => s

def rank (w : WPc) (exit : Bool) : Nat :=
  match w with
  | .drainGet => 0
  | .empty => 1
  | .setExit => 2
  | .isSet => if exit then 2 else 4
  | .get => 3
  | .drainDone => 4
  | .taskDone _ => 5
  | .setLoaded _ _ => 6
  | .run _ => 7
  | .dead => 0

/-- bound on the number of worker steps until the queue is processed or drained -/
def mu (s : St) : Nat := 5 * s.queue.length + rank s.wpc s.exit

/-- the only worker step that does not make progress: `get` times out on an empty queue -/
def idlePoll (s : St) : Prop := s.wpc = .get ∧ s.queue.length = 0 ∧ s.exit = false

theorem mu_decreases (s s' : St) (hs : stepWorker s = some s') (hi : ¬ idlePoll s) : mu s' < mu s := by
  unfold idlePoll at hi
  split_worker hs
  all_goals (simp only [mu, rank] at * <;> (try split) <;> simp_all <;> (try omega))

theorem worker_frame (s s' : St) (hs : stepWorker s = some s') :
    s'.mpc = s.mpc ∧ s'.maxsize = s.maxsize ∧ (s.exit = true → s'.exit = true) := by
  split_worker hs
  all_goals simp_all

/-- generic bounded-progress argument by induction on `mu` -/
theorem worker_progress (C G : St → Prop)
    (hC : ∀ s s', C s → ¬ G s → stepWorker s = some s' → C s')
    (hE : ∀ s, C s → ¬ G s → (∃ s', stepWorker s = some s') ∧ ¬ idlePoll s) :
    ∀ m s, mu s ≤ m → C s → ∃ n, n ≤ mu s ∧ G (workerIter n s) := by
  intro m
  induction m with
  | zero =>
    intro s hm hc
    by_cases hg : G s
    · exact ⟨0, Nat.zero_le _, hg⟩
    · obtain ⟨⟨s', hs'⟩, hi⟩ := hE s hc hg
      have := mu_decreases s s' hs' hi
      omega
  | succ m ih =>
    intro s hm hc
    by_cases hg : G s
    · exact ⟨0, Nat.zero_le _, hg⟩
    · obtain ⟨⟨s', hs'⟩, hi⟩ := hE s hc hg
      have hlt := mu_decreases s s' hs' hi
      obtain ⟨n, hn, hG⟩ := ih s' (by omega) (hC s s' hc hg hs')
      refine ⟨n + 1, by omega, ?_⟩
      simp only [workerIter, hs']
      exact hG

theorem worker_can_step (s : St) (h : InvB s) (hd : s.wpc ≠ .dead) : ∃ s', stepWorker s = some s' := by
  have h3 := h.drain
  cases hw : s.wpc <;> simp only [stepWorker, hw] <;> (try (repeat' split)) <;> simp_all
  all_goals (first | exact ⟨_, rfl⟩ | skip)

theorem join_progress (s : St) (h : InvB s) (a : AfterJoin) (hj : s.mpc = .join a) :
    ∃ n, n ≤ mu s ∧ (workerIter n s).unfinished = 0 := by
  refine worker_progress (fun s => InvB s ∧ s.mpc = .join a) (fun s => s.unfinished = 0) ?_ ?_ (mu s) s
    (Nat.le_refl _) ⟨h, hj⟩
  · intro s s' hc _ hs
    exact ⟨invB_stepWorker s s' hc.1 hs, (worker_frame s s' hs).1.trans hc.2⟩
  · intro s hc hg
    have hu := hc.1.unf
    have hjd := hc.1.joinDead a hc.2
    have hnd : s.wpc ≠ .dead := by
      intro hd
      have := hjd hd
      simp [hd, holds] at hu
      omega
    refine ⟨worker_can_step s hc.1 hnd, ?_⟩
    intro hi
    unfold idlePoll at hi
    simp [hi.1, holds] at hu
    omega

theorem close_progress (s : St) (h : InvB s) (hj : s.mpc = .closeTJoin) :
    ∃ n, n ≤ mu s ∧ (workerIter n s).wpc = .dead := by
  refine worker_progress (fun s => InvB s ∧ s.exit = true) (fun s => s.wpc = .dead) ?_ ?_ (mu s) s
    (Nat.le_refl _) ⟨h, h.tjoinExit hj⟩
  · intro s s' hc _ hs
    exact ⟨invB_stepWorker s s' hc.1 hs, (worker_frame s s' hs).2.2 hc.2⟩
  · intro s hc hg
    refine ⟨worker_can_step s hc.1 hg, ?_⟩
    intro hi
    unfold idlePoll at hi
    simp [hc.2] at hi

theorem put_progress (s : St) (h : InvB s) :
    ∃ n, n ≤ mu s ∧ (full (workerIter n s) = false ∨ (workerIter n s).wpc = .dead) := by
  refine worker_progress (fun s => InvB s) (fun s => full s = false ∨ s.wpc = .dead) ?_ ?_ (mu s) s
    (Nat.le_refl _) h
  · intro s s' hc _ hs
    exact invB_stepWorker s s' hc hs
  · intro s hc hg
    have hnd : s.wpc ≠ .dead := fun hd => hg (Or.inr hd)
    have hfull : full s = true := by
      cases hf : full s
      · exact absurd (Or.inl hf) hg
      · rfl
    refine ⟨worker_can_step s hc hnd, ?_⟩
    intro hi
    unfold idlePoll at hi
    simp only [full, Bool.and_eq_true, bne_iff_ne, ne_eq, decide_eq_true_eq] at hfull
    omega



/-- `WorkerDied` in the outputs ⇒ the exit flag is set or the worker thread has terminated -/
def InvC (s : St) : Prop := Out.err .workerDied ∈ s.outs → s.exit = true ∨ s.wpc = .dead

theorem invC_stepMain (s s' : St) (h : InvC s) (hs : stepMain s = some s') : InvC s' := by
  unfold InvC at *
  split_main hs
  all_goals (simp only [List.mem_cons] at * <;> grind)

theorem invC_stepWorker (s s' : St) (h : InvC s) (hs : stepWorker s = some s') : InvC s' := by
  unfold InvC at *
  split_worker hs
  all_goals grind

theorem invC_reach {s0 s : St} (h0 : InvC s0) (h : Reach s0 s) : InvC s := by
  induction h with
  | init => exact h0
  | step t _ hs ih =>
    cases t
    · exact invC_stepMain _ _ ih hs
    · exact invC_stepWorker _ _ ih hs


end TenpyModel.C20.Threaded
