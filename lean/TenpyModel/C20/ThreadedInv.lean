import TenpyModel.C20.ThreadedMainA
import TenpyModel.C20.ThreadedMainB
import TenpyModel.C20.ThreadedWorker
/-! `InvA` holds in every reachable state (= under every schedule). -/
namespace TenpyModel.C20.Threaded

theorem invA_stepMain (s s' : St) (h : InvA s) (hs : stepMain s = some s') : InvA s' := by
  cases hm : s.mpc with
  | idle => exact invA_main_idle s s' h hm hs
  | loadC1 k => exact invA_main_loadC1 s s' h k hm hs
  | loadC2 k => exact invA_main_loadC2 s s' h k hm hs
  | loadC3 k => exact invA_main_loadC3 s s' h k hm hs
  | loadGet k => exact invA_main_loadGet s s' h k hm hs
  | loadDel k v => exact invA_main_loadDel s s' h k v hm hs
  | preC k => exact invA_main_preC s s' h k hm hs
  | saveC k v => exact invA_main_saveC s s' h k v hm hs
  | saveSet k v => exact invA_main_saveSet s s' h k v hm hs
  | isSet c => exact invA_main_isSet s s' h c hm hs
  | isAlive c => exact invA_main_isAlive s s' h c hm hs
  | put t a => exact invA_main_put s s' h t a hm hs
  | join a => exact invA_main_join s s' h a hm hs
  | closeAlive => exact invA_main_closeAlive s s' h hm hs
  | closeSetExit => exact invA_main_closeSetExit s s' h hm hs
  | closeTJoin => exact invA_main_closeTJoin s s' h hm hs
  | done => exact invA_main_done s s' h hm hs

theorem invA_stepWorker (s s' : St) (h : InvA s) (hs : stepWorker s = some s') : InvA s' := by
  cases hw : s.wpc with
  | isSet => exact invA_worker_isSet s s' h hw hs
  | get => exact invA_worker_get s s' h hw hs
  | run t => exact invA_worker_run s s' h t hw hs
  | setLoaded k v => exact invA_worker_setLoaded s s' h k v hw hs
  | taskDone f => exact invA_worker_taskDone s s' h f hw hs
  | setExit => exact invA_worker_setExit s s' h hw hs
  | empty => exact invA_worker_empty s s' h hw hs
  | drainGet => exact invA_worker_drainGet s s' h hw hs
  | drainDone => exact invA_worker_drainDone s s' h hw hs
  | dead => exact invA_worker_dead s s' h hw hs

theorem invA_reach {s0 s : St} (h0 : InvA s0) (h : Reach s0 s) : InvA s := by
  induction h with
  | init => exact h0
  | step t _ hs ih =>
    cases t
    · exact invA_stepMain _ _ ih hs
    · exact invA_stepWorker _ _ ih hs

end TenpyModel.C20.Threaded
