import TenpyModel.C20.Threaded
/-!
Invariants of the `ThreadedStorage`/`Worker` transition system and their preservation by every step.
The property theorems are in `PropsThreaded.lean`.
-/
namespace TenpyModel.C20.Threaded

def holds : WPc → Nat
  | .run _ | .setLoaded _ _ | .taskDone _ | .drainDone => 1
  | _ => 0

structure InvB (s : St) : Prop where
  unf : s.unfinished = s.queue.length + holds s.wpc
  joinDead : ∀ a, s.mpc = .join a → s.wpc = .dead → s.queue.length = 0
  drain : s.wpc = .drainGet → 0 < s.queue.length
  doneDead : s.mpc = .done → s.wpc = .dead
  tjoinExit : s.mpc = .closeTJoin → s.exit = true
  bound : s.maxsize ≠ 0 → s.queue.length ≤ s.maxsize

/-- split a hypothesis `hs : stepMain s = some s'` into one goal per branch, with `s'` substituted -/
macro "split_main" hs:ident : tactic => `(tactic| (
  unfold stepMain at $hs:ident
  simp only [raise, finish, afterPut, afterJoin] at $hs:ident
  repeat' (split at $hs:ident)
  all_goals (first | (simp only [Option.some.injEq] at $hs:ident; subst $hs:ident) | (exact absurd $hs:ident (by simp)))))

theorem invB_stepMain (s s' : St) (h : InvB s) (hs : stepMain s = some s') : InvB s' := by
  obtain ⟨h1, h2, h3, h4, h5, h6⟩ := h
  split_main hs
  all_goals (constructor <;> grind [holds, full])


macro "split_worker" hs:ident : tactic => `(tactic| (
  unfold stepWorker at $hs:ident
  repeat' (split at $hs:ident)
  all_goals (first | (simp only [Option.some.injEq] at $hs:ident; subst $hs:ident) | (exact absurd $hs:ident (by simp)))))

theorem invB_stepWorker (s s' : St) (h : InvB s) (hs : stepWorker s = some s') : InvB s' := by
  obtain ⟨h1, h2, h3, h4, h5, h6⟩ := h
  split_worker hs
  all_goals (constructor <;> grind [holds, full])

theorem invB_init (prog : List Call) (maxsize : Nat) (failAt : Option Nat) : InvB (init prog maxsize failAt) := by
  constructor <;> simp [init, holds]

theorem invB_reach {s0 s : St} (h0 : InvB s0) (h : Reach s0 s) : InvB s := by
  induction h with
  | init => exact h0
  | step t _ hs ih =>
    cases t
    · exact invB_stepMain _ _ ih hs
    · exact invB_stepWorker _ _ ih hs

end TenpyModel.C20.Threaded
