import TenpyModel.C20.Threaded
/-!
Invariants of the `ThreadedStorage`/`Worker` transition system and their preservation by every step.
The property theorems are in `PropsThreaded.lean`.
-/
set_option linter.unusedSimpArgs false
set_option linter.unusedVariables false
namespace TenpyModel.C20.Threaded

def holds : WPc → Nat
  | .run _ | .setLoaded _ _ | .taskDone _ | .drainDone => 1
  | _ => 0

structure InvB (s : St) : Prop where
  unf : s.unfinished = s.queue.length + holds s.wpc
  joinDead : ∀ a, s.mpc = .join a → s.wpc = .dead → s.queue.length = 0
  drain : s.wpc = .drainGet → 0 < s.queue.length
  doneDead : s.mpc = .done → s.wpc = .dead
  tjoinExit : s.mpc = .closeTJoin → s.exit = true
  bound : s.maxsize ≠ 0 → s.queue.length ≤ s.maxsize

/-- split a hypothesis `hs : stepMain s = some s'` into one goal per branch, with `s'` substituted -/
macro "split_main" hs:ident : tactic => `(tactic| (
  unfold stepMain at $hs:ident
  simp only [raise, finish, afterPut, afterJoin] at $hs:ident
  repeat' (split at $hs:ident)
  all_goals (first | (simp only [Option.some.injEq] at $hs:ident; subst $hs:ident) | (exact absurd $hs:ident (by simp)))))

theorem invB_stepMain (s s' : St) (h : InvB s) (hs : stepMain s = some s') : InvB s' := by
  obtain ⟨h1, h2, h3, h4, h5, h6⟩ := h
  split_main hs
  all_goals (constructor <;> grind [holds, full])


macro "split_worker" hs:ident : tactic => `(tactic| (
  unfold stepWorker at $hs:ident
  repeat' (split at $hs:ident)
  all_goals (first | (simp only [Option.some.injEq] at $hs:ident; subst $hs:ident) | (exact absurd $hs:ident (by simp)))))

theorem invB_stepWorker (s s' : St) (h : InvB s) (hs : stepWorker s = some s') : InvB s' := by
  obtain ⟨h1, h2, h3, h4, h5, h6⟩ := h
  split_worker hs
  all_goals (constructor <;> grind [holds, full])

theorem invB_init (prog : List Call) (maxsize : Nat) (failAt : Option Nat) : InvB (init prog maxsize failAt) := by
  constructor <;> simp [init, holds]

theorem invB_reach {s0 s : St} (h0 : InvB s0) (h : Reach s0 s) : InvB s := by
  induction h with
  | init => exact h0
  | step t _ hs ih =>
    cases t
    · exact invB_stepMain _ _ ih hs
    · exact invB_stepWorker _ _ ih hs


/-! ## Invariants for linearizability -/


/-- task held by the worker whose `_loaded` write is still to come (`run`: not yet executed) -/
def held (w : WPc) : List Task :=
  match w with
  | .run t => [t]
  | .setLoaded k _ => [⟨.load, k, false⟩]
  | _ => []

/-- tasks in flight, in execution order -/
def infl (s : St) : List Task := held s.wpc ++ s.queue

/-- tasks whose disk effect has not happened yet -/
def pend (s : St) : List Task := (match s.wpc with | .run t => [t] | _ => []) ++ s.queue

def overlay (d : Key → Option Val) (ts : List Task) : Key → Option Val := ts.foldl applyTask d

def healthy : WPc → Bool
  | .isSet | .get | .run _ | .setLoaded _ _ | .taskDone false => true
  | _ => false

/-- the task main is about to `put` -/
def putPending : MPc → Option Task
  | .isSet (.toPut t _) | .isAlive (.toPut t _) | .put t _ => some t
  | _ => none

/-- main is inside `save(k, ·)` after `join_tasks` returned / on the path without join -/
def saveRegion (m : MPc) (k : Key) : Prop :=
  match m with
  | .isSet (.joined (.saveC k' _)) | .isAlive (.joined (.saveC k' _)) | .saveC k' _ | .saveSet k' _ => k' = k
  | .isSet (.toPut t _) | .isAlive (.toPut t _) | .put t _ => (∃ v, t.kind = .save v) ∧ t.key = k
  | _ => False

/-- main is inside `save(k, ·)` on the path through `join_tasks` (so `k ∈ _waiting_for_load`) -/
def saveJoinPath (m : MPc) (k : Key) : Prop :=
  match m with
  | .isSet (.toJoin (.saveC k' _)) | .isAlive (.toJoin (.saveC k' _)) | .join (.saveC k' _)
  | .isSet (.joined (.saveC k' _)) | .isAlive (.joined (.saveC k' _)) | .saveC k' _ | .saveSet k' _ => k' = k
  | _ => False

/-- main is between `val = self._loaded[key]` and `del self._loaded[key]` -/
def loadDelKey : MPc → Option Key
  | .loadDel k _ => some k
  | _ => none

def hasErr (s : St) : Prop := ∃ e, Out.err e ∈ s.outs

/-- R: after a load of key k only deletes of k may be in flight -/
def LoadThenOnlyDelete (t t' : Task) : Prop := t.kind = .load → t'.key = t.key → t'.kind = .delete

structure InvA (s : St) : Prop where
  unf : s.unfinished = s.queue.length + holds s.wpc
  i4  : ∀ k, s.loaded k ≠ none → s.waiting k = true ∨ loadDelKey s.mpc = some k
  f   : ∀ t ∈ infl s, t.kind = .load → s.waiting t.key = true ∧ s.loaded t.key = none
  n   : (infl s).Pairwise LoadThenOnlyDelete
  sr  : ∀ k, saveRegion s.mpc k → ∀ t ∈ infl s, t.kind = .load → t.key ≠ k
  d   : healthy s.wpc = true → ∀ k, overlay s.disk (pend s) k = s.abs k
  w   : ∀ k v, s.wpc = .setLoaded k v → ∀ a, s.abs k = some a → a = v
  p   : ∀ t, putPending s.mpc = some t → ∀ v, t.kind = .save v → s.loaded t.key = none ∨ s.loaded t.key = some v
  l   : ¬ hasErr s → ∀ k v, s.loaded k = some v →
          (∀ t, putPending s.mpc = some t → ¬ ((∃ v', t.kind = .save v') ∧ t.key = k)) →
          ∀ a, s.abs k = some a → a = v
  ld  : ∀ k v, s.mpc = .loadDel k v → ∀ a, s.abs k = some a → a = v
  r   : ∀ x ∈ s.reads, ∀ a, x.2.2 = some a → x.2.1 = a
  pl  : ∀ t, putPending s.mpc = some t → t.kind = .load →
          s.waiting t.key = true ∧ s.loaded t.key = none ∧ ∀ t' ∈ infl s, t'.kind = .load → t'.key ≠ t.key
  sw  : ∀ k, saveJoinPath s.mpc k → s.waiting k = true
  pc  : ∀ k, s.mpc = .preC k → s.waiting k = false
  z   : hasErr s → s.prog = [] ∧
          (s.mpc = .idle ∨ s.mpc = .closeAlive ∨ s.mpc = .closeSetExit ∨ s.mpc = .closeTJoin ∨ s.mpc = .done)

theorem invA_init (prog : List Call) (maxsize : Nat) (failAt : Option Nat) : InvA (init prog maxsize failAt) := by
  constructor <;> simp [init, holds, infl, held, pend, overlay, hasErr, saveRegion, saveJoinPath, putPending, loadDelKey]


theorem overlay_append (d : Key → Option Val) (ts : List Task) (t : Task) :
    overlay d (ts ++ [t]) = applyTask (overlay d ts) t := by
  simp [overlay, List.foldl_append]

theorem overlay_cons (d : Key → Option Val) (ts : List Task) (t : Task) :
    overlay d (t :: ts) = overlay (applyTask d t) ts := rfl

/-- split `hs : stepMain s = some s'` with the pc known -/
macro "main_pc" hs:ident hm:ident : tactic => `(tactic| (
  simp only [stepMain, $hm:ident, raise, finish, afterPut, afterJoin] at $hs:ident
  repeat' (split at $hs:ident)
  all_goals (first | (simp only [Option.some.injEq] at $hs:ident; subst $hs:ident) | (exact absurd $hs:ident (by simp)))))

/-- fields that only depend on queue / wpc / disk / abs / unfinished -/
theorem invA_frame (s s' : St) (h : InvA s) (hq : s'.queue = s.queue) (hw : s'.wpc = s.wpc)
    (hdk : s'.disk = s.disk) (ha : s'.abs = s.abs) (hu : s'.unfinished = s.unfinished) :
    (s'.unfinished = s'.queue.length + holds s'.wpc) ∧ (infl s').Pairwise LoadThenOnlyDelete ∧
    (healthy s'.wpc = true → ∀ k, overlay s'.disk (pend s') k = s'.abs k) ∧
    (∀ k v, s'.wpc = .setLoaded k v → ∀ a, s'.abs k = some a → a = v) ∧ infl s' = infl s := by
  refine ⟨?_, ?_, ?_, ?_, ?_⟩
  · rw [hu, hq, hw]; exact h.unf
  · simp only [infl, hq, hw]; exact h.n
  · simp only [pend, hq, hw, hdk, ha]; exact h.d
  · rw [hw, ha]; exact h.w
  · simp only [infl, hq, hw]

macro "fld" : tactic => `(tactic| (
  simp only [infl, hasErr, putPending, saveRegion, saveJoinPath, mkTask, loadDelKey, Option.isNone_iff_eq_none] at * <;> grind))

theorem infl_nil (s : St) (hu : s.unfinished = s.queue.length + holds s.wpc) (h0 : s.unfinished = 0) :
    held s.wpc ++ s.queue = [] := by
  have h1 : s.queue.length = 0 := by omega
  have h2 : holds s.wpc = 0 := by omega
  have h3 : s.queue = [] := List.eq_nil_of_length_eq_zero h1
  rw [h3]
  cases hw : s.wpc <;> simp_all [holds, held]


end TenpyModel.C20.Threaded
