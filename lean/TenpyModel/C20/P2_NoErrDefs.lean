import TenpyModel.C20.ThreadedInv
/-!
Invariant `InvN` for "no exception in fault-free runs of programs that only load keys they saved"
(`C20_threaded_no_spurious_error`).  Definitions and basic lemmas; preservation is proved in
`P2_NoErrMain*.lean` / `P2_NoErrWorker.lean`.
-/
set_option linter.unusedSimpArgs false
set_option linter.unusedVariables false
namespace TenpyModel.C20.Threaded

/-- well-formed program: every `load k` / `preload k` is issued while the dictionary (in program
order, starting from the key set `h`) holds `k`. -/
def wfProg : (Key → Bool) → List Call → Bool
  | _, [] => true
  | h, .load k :: p => h k && wfProg h p
  | h, .preload k :: p => h k && wfProg h p
  | h, .save k _ :: p => wfProg (fun j => if j = k then true else h j) p
  | h, .delete k :: p => wfProg (fun j => if j = k then false else h j) p

theorem wfProg_congr (p : List Call) (h h' : Key → Bool) (e : ∀ k, h k = h' k) : wfProg h p = wfProg h' p := by
  have : h = h' := funext e
  rw [this]

/-- every queued `load` finds its key on disk when it runs: pending saves of the key precede it in
the FIFO order (or the key is on disk already) and no pending delete lies in between -/
def loadsOk : (Key → Option Val) → List Task → Prop
  | _, [] => True
  | d, t :: ts => (t.kind = .load → d t.key ≠ none) ∧ loadsOk (applyTask d t) ts

theorem loadsOk_append (ts : List Task) (d : Key → Option Val) (t : Task) :
    loadsOk d (ts ++ [t]) ↔ loadsOk d ts ∧ (t.kind = .load → overlay d ts t.key ≠ none) := by
  induction ts generalizing d with
  | nil => simp [loadsOk, overlay]
  | cons a ts ih =>
    simp only [List.cons_append, loadsOk, ih, overlay_cons]
    constructor
    · rintro ⟨h1, h2, h3⟩; exact ⟨⟨h1, h2⟩, h3⟩
    · rintro ⟨⟨h1, h2⟩, h3⟩; exact ⟨h1, h2, h3⟩

/-- the dictionary in program order *after* the call in progress has taken effect -/
def eff (s : St) : Key → Option Val :=
  match s.mpc with
  | .isSet (.toPut t _) | .isAlive (.toPut t _) | .put t _ => applyTask s.abs t
  | .isSet (.toJoin (.saveC k v)) | .isAlive (.toJoin (.saveC k v)) | .join (.saveC k v)
  | .isSet (.joined (.saveC k v)) | .isAlive (.joined (.saveC k v)) | .saveC k v | .saveSet k v =>
    fun j => if j = k then some v else s.abs j
  | _ => s.abs

/-- the worker has not left its main loop through an exception (and has left it at all only after
`exit` was set) -/
def wOk (s : St) : Prop :=
  match s.wpc with
  | .taskDone true | .setExit => False
  | .empty | .drainGet | .drainDone | .dead => s.exit = true
  | _ => True

/-- main is inside `load(k)` after the request was registered (`k ∈ _waiting_for_load`) -/
def loadWait (m : MPc) (k : Key) : Prop :=
  match m with
  | .isSet (.toPut _ (.loadC2 k')) | .isAlive (.toPut _ (.loadC2 k')) | .put _ (.loadC2 k')
  | .loadC2 k' | .isSet (.toJoin (.loadC3 k')) | .isAlive (.toJoin (.loadC3 k')) | .join (.loadC3 k') => k' = k
  | _ => False

/-- program points at which `key in self._loaded` must hold -/
def needLoaded (m : MPc) (k : Key) : Prop :=
  match m with
  | .isSet (.joined (.loadC3 k')) | .isAlive (.joined (.loadC3 k')) | .loadC3 k' | .loadGet k'
  | .isSet (.joined (.saveC k' _)) | .isAlive (.joined (.saveC k' _)) | .saveC k' _ => k' = k
  | _ => False

/-- main is inside `load(k)` / `preload(k)` -/
def inLoad (m : MPc) (k : Key) : Prop :=
  match m with
  | .loadC1 k' | .preC k'
  | .isSet (.toPut _ (.loadC2 k')) | .isAlive (.toPut _ (.loadC2 k')) | .put _ (.loadC2 k')
  | .loadC2 k' | .isSet (.toJoin (.loadC3 k')) | .isAlive (.toJoin (.loadC3 k')) | .join (.loadC3 k')
  | .isSet (.joined (.loadC3 k')) | .isAlive (.joined (.loadC3 k')) | .loadC3 k' | .loadGet k'
  | .loadDel k' _ => k' = k
  | _ => False

/-- the task that `load` is about to enqueue -/
def loadPut : MPc → Option Task
  | .isSet (.toPut t (.loadC2 _)) | .isAlive (.toPut t (.loadC2 _)) | .put t (.loadC2 _) => some t
  | _ => none

structure InvN (s : St) : Prop where
  nf  : s.failAt = none
  ne  : ∀ e, Out.err e ∉ s.outs
  ex  : s.exit = true → s.mpc = .closeTJoin ∨ s.mpc = .done
  wk  : wOk s
  tfq : ∀ t ∈ s.queue, t.fails = false
  tfr : ∀ t, s.wpc = .run t → t.fails = false
  tfp : ∀ t, putPending s.mpc = some t → t.fails = false
  lo  : healthy s.wpc = true → loadsOk s.disk (pend s)
  wfp : wfProg (fun k => (eff s k).isSome) s.prog = true
  la  : ∀ k, inLoad s.mpc k → s.abs k ≠ none
  lk  : ∀ t, loadPut s.mpc = some t → t.kind = .load
  rd  : ∀ x ∈ s.reads, x.2.2 ≠ none
  pa  : ∀ t, putPending s.mpc = some t → t.kind = .load → s.abs t.key ≠ none
  wl  : s.exit = false → ∀ k, s.waiting k = true → s.loaded k ≠ none ∨ (∃ t ∈ infl s, t.kind = .load ∧ t.key = k) ∨
          (∃ t, putPending s.mpc = some t ∧ t.kind = .load ∧ t.key = k)
  dw  : ∀ k v, s.mpc = .loadDel k v → s.waiting k = false
  lw  : ∀ k, loadWait s.mpc k → s.waiting k = true
  ln  : ∀ k, needLoaded s.mpc k → s.loaded k ≠ none

theorem invN_init (prog : List Call) (maxsize : Nat) (hwf : wfProg (fun _ => false) prog = true) :
    InvN (init prog maxsize none) := by
  constructor <;>
    simp [init, wOk, pend, infl, held, loadsOk, putPending, loadWait, needLoaded, inLoad, loadPut, eff, hwf]

end TenpyModel.C20.Threaded
