import TenpyModel.C20.Events
/-! Helper lemmas for the `EventHandler` model (core Lean only). -/
namespace TenpyModel.C20.Events

/-- the documented call order: higher priority first, ties in connection order (= ascending id) -/
def Before (a b : Listener) : Prop := a.prio > b.prio ∨ (a.prio = b.prio ∧ a.id < b.id)

theorem insertByPrio_perm (x : Listener) (l : List Listener) : (insertByPrio x l).Perm (x :: l) := by
  induction l with
  | nil => exact List.Perm.refl _
  | cons y ys ih =>
    unfold insertByPrio
    split
    · exact List.Perm.refl _
    · exact (List.Perm.cons y ih).trans (List.Perm.swap x y ys)

theorem sortByPrio_perm (l : List Listener) : (sortByPrio l).Perm l := by
  induction l with
  | nil => exact List.Perm.refl _
  | cons x xs ih => exact (insertByPrio_perm x _).trans (List.Perm.cons x ih)

theorem insertByPrio_before (x : Listener) (ys : List Listener)
    (hs : ys.Pairwise Before) (hx : ∀ y ∈ ys, x.prio = y.prio → x.id < y.id) :
    (insertByPrio x ys).Pairwise Before := by
  induction ys with
  | nil => simp [insertByPrio]
  | cons y ys ih =>
    rw [List.pairwise_cons] at hs
    unfold insertByPrio
    split
    next hge =>
      refine List.pairwise_cons.2 ⟨?_, List.pairwise_cons.2 hs⟩
      intro z hz
      have hyz : y.prio ≥ z.prio := by
        rcases List.mem_cons.1 hz with rfl | hz'
        · exact Int.le_refl _
        · rcases hs.1 z hz' with h | h <;> omega
      by_cases heq : x.prio = z.prio
      · exact Or.inr ⟨heq, hx z hz heq⟩
      · exact Or.inl (by omega)
    next hlt =>
      refine List.pairwise_cons.2 ⟨?_, ih hs.2 (fun z hz => hx z (List.mem_cons_of_mem _ hz))⟩
      intro w hw
      rcases List.mem_cons.1 ((insertByPrio_perm x ys).mem_iff.1 hw) with rfl | hw'
      · exact Or.inl (by omega)
      · exact hs.1 w hw'

theorem sortByPrio_before (l : List Listener)
    (hl : l.Pairwise (fun a b => a.prio = b.prio → a.id < b.id)) :
    (sortByPrio l).Pairwise Before := by
  induction l with
  | nil => simp [sortByPrio]
  | cons x xs ih =>
    rw [List.pairwise_cons] at hl
    exact insertByPrio_before x _ (ih hl.2)
      (fun y hy => hl.1 y ((sortByPrio_perm xs).mem_iff.1 hy))

theorem before_unique {l₁ l₂ : List Listener} (h₁ : l₁.Pairwise Before) (h₂ : l₂.Pairwise Before)
    (hp : l₁.Perm l₂) : l₁ = l₂ :=
  hp.eq_of_pairwise (fun a b _ _ hab hba => by
    rcases hab with h | h <;> rcases hba with h' | h' <;> omega) h₁ h₂

/-- a list that is already in the documented order is left alone by the sort -/
theorem sortByPrio_of_before (l : List Listener) (hl : l.Pairwise Before) : sortByPrio l = l := by
  apply before_unique _ hl (sortByPrio_perm l)
  apply sortByPrio_before
  exact hl.imp (fun {a b} h => by intro he; rcases h with h | h <;> omega)

theorem eraseFirstId_eq_filter (lid : Nat) (l : List Listener)
    (hn : l.Pairwise (fun a b => a.id ≠ b.id)) :
    eraseFirstId lid l = l.filter (fun x => x.id ≠ lid) := by
  induction l with
  | nil => rfl
  | cons x xs ih =>
    rw [List.pairwise_cons] at hn
    unfold eraseFirstId
    split
    next h =>
      subst h
      rw [List.filter_cons_of_neg (by simp)]
      symm
      apply List.filter_eq_self.2
      intro y hy
      have := hn.1 y hy
      simpa using fun h => this h.symm
    next h =>
      rw [List.filter_cons_of_pos (by simpa using h), ih hn.2]

end TenpyModel.C20.Events
