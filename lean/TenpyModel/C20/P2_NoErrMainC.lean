import TenpyModel.C20.P2_NoErrMainA
/-! `InvN` is preserved by `tasks.put`. -/
set_option linter.unusedSimpArgs false
set_option linter.unusedVariables false
namespace TenpyModel.C20.Threaded

theorem wOk_congr (s s' : St) (hw : s'.wpc = s.wpc) (he : s'.exit = s.exit) (h : wOk s) : wOk s' := by
  unfold wOk at *
  rw [hw, he]; exact h

theorem wOk_healthy (s : St) (h : wOk s) (he : s.exit = false) : healthy s.wpc = true := by
  unfold wOk at h
  unfold healthy
  cases hw : s.wpc with
  | taskDone f => cases f <;> simp_all
  | _ => simp_all

theorem pend_put (s : St) (t : Task) (s' : St) (hw : s'.wpc = s.wpc) (hq : s'.queue = s.queue ++ [t]) :
    pend s' = pend s ++ [t] := by
  simp only [pend, hw, hq, List.append_assoc]

theorem invN_main_put (s s' : St) (hA : InvA s) (h : InvN s) (t : Task) (a : AfterPut) (hm : s.mpc = .put t a)
    (hs : stepMain s = some s') : InvN s' := by
  obtain ⟨nf, ne, ex, wk, tfq, tfr, tfp, lo, wfp, la, lk, rd, pa, wl, dw, lw, ln⟩ := h
  have hi4 := hA.i4; have hsw := hA.sw; have hpl := hA.pl
  have hex : s.exit = false := by
    cases he : s.exit with
    | false => rfl
    | true => have := ex he; simp [hm] at this
  have hd := hA.d (wOk_healthy s wk hex)
  simp only [hm] at ex tfp la lk pa wl dw lw ln hi4 hsw hpl
  simp only [eff, hm] at wfp
  have hlo : loadsOk s.disk (pend s ++ [t]) := by
    rw [loadsOk_append]
    refine ⟨lo (wOk_healthy s wk hex), fun hk => ?_⟩
    rw [hd]
    exact pa t (by simp [putPending]) hk
  have hpd : ∀ s'' : St, s''.wpc = s.wpc → s''.queue = s.queue ++ [t] → s''.disk = s.disk → healthy s''.wpc = true → loadsOk s''.disk (pend s'') := by
    intro s'' h1 h2 h3 _
    rw [pend_put s t s'' h1 h2, h3]; exact hlo
  cases a with
  | ret =>
    main_pc hs hm
    · refine { nf := nf, ne := ?_, ex := ?_, wk := wk, tfq := tfq, tfr := tfr, tfp := ?_, lo := lo, wfp := ?_, la := ?_, lk := ?_, rd := ?_, pa := ?_, wl := ?_, dw := ?_, lw := ?_, ln := ?_ }
      rotate_left 3
      wfp_tac wfp
      all_goals (clear lo wfp hd hlo hpd; nfld)
    · refine { nf := nf, ne := ?_, ex := ?_, wk := wOk_congr s _ rfl rfl wk, tfq := ?_, tfr := tfr, tfp := ?_, lo := hpd _ rfl rfl rfl, wfp := ?_, la := ?_, lk := ?_, rd := ?_, pa := ?_, wl := ?_, dw := ?_, lw := ?_, ln := ?_ }
      rotate_left 4
      wfp_tac wfp
      all_goals (clear lo wfp hd hlo hpd; nfld)
  | loadC2 k2 =>
    have habs : applyTask s.abs t = s.abs := applyTask_load _ _ (lk t (by simp [loadPut]))
    main_pc hs hm
    · refine { nf := nf, ne := ?_, ex := ?_, wk := wk, tfq := tfq, tfr := tfr, tfp := ?_, lo := lo, wfp := ?_, la := ?_, lk := ?_, rd := ?_, pa := ?_, wl := ?_, dw := ?_, lw := ?_, ln := ?_ }
      rotate_left 3
      wfp_tac wfp
      all_goals (clear lo wfp hd hlo hpd; nfld)
    · refine { nf := nf, ne := ?_, ex := ?_, wk := wOk_congr s _ rfl rfl wk, tfq := ?_, tfr := tfr, tfp := ?_, lo := hpd _ rfl rfl rfl, wfp := ?_, la := ?_, lk := ?_, rd := ?_, pa := ?_, wl := ?_, dw := ?_, lw := ?_, ln := ?_ }
      rotate_left 4
      wfp_tac wfp
      all_goals (clear lo wfp hd hlo hpd; (try simp only [habs]); nfld)

end TenpyModel.C20.Threaded
