import TenpyModel.C20.ThreadedProofs
/-! `InvA` is preserved by the steps of the main thread inside `load/preload/save` (part 1). -/
set_option linter.unusedSimpArgs false
set_option linter.unusedVariables false
namespace TenpyModel.C20.Threaded
theorem invA_main_idle (s s' : St) (h : InvA s) (hm : s.mpc = .idle)
    (hs : stepMain s = some s') : InvA s' := by
  obtain ⟨hunf, hi4, hf, hn, hsr, hd, hw, hp, hl, hld, hr, hpl, hsw, hpc, hz⟩ := h
  have hnil := infl_nil s hunf
  (simp only [hm] at hi4 hsr hp hl hld hpl hsw hz hpc; main_pc hs hm; all_goals (refine { unf := hunf, n := hn, d := hd, w := hw, i4 := ?_, f := ?_, sr := ?_, p := ?_, l := ?_, ld := ?_, r := ?_, pl := ?_, sw := ?_, pc := ?_, z := ?_ } <;> clear hn hd hw <;> fld))

theorem invA_main_loadC1 (s s' : St) (h : InvA s) (k : Key) (hm : s.mpc = .loadC1 k)
    (hs : stepMain s = some s') : InvA s' := by
  obtain ⟨hunf, hi4, hf, hn, hsr, hd, hw, hp, hl, hld, hr, hpl, hsw, hpc, hz⟩ := h
  have hnil := infl_nil s hunf
  (simp only [hm] at hi4 hsr hp hl hld hpl hsw hz hpc; main_pc hs hm; all_goals (refine { unf := hunf, n := hn, d := hd, w := hw, i4 := ?_, f := ?_, sr := ?_, p := ?_, l := ?_, ld := ?_, r := ?_, pl := ?_, sw := ?_, pc := ?_, z := ?_ } <;> clear hn hd hw <;> fld))

theorem invA_main_loadC2 (s s' : St) (h : InvA s) (k : Key) (hm : s.mpc = .loadC2 k)
    (hs : stepMain s = some s') : InvA s' := by
  obtain ⟨hunf, hi4, hf, hn, hsr, hd, hw, hp, hl, hld, hr, hpl, hsw, hpc, hz⟩ := h
  have hnil := infl_nil s hunf
  (simp only [hm] at hi4 hsr hp hl hld hpl hsw hz hpc; main_pc hs hm; all_goals (refine { unf := hunf, n := hn, d := hd, w := hw, i4 := ?_, f := ?_, sr := ?_, p := ?_, l := ?_, ld := ?_, r := ?_, pl := ?_, sw := ?_, pc := ?_, z := ?_ } <;> clear hn hd hw <;> fld))

theorem invA_main_loadC3 (s s' : St) (h : InvA s) (k : Key) (hm : s.mpc = .loadC3 k)
    (hs : stepMain s = some s') : InvA s' := by
  obtain ⟨hunf, hi4, hf, hn, hsr, hd, hw, hp, hl, hld, hr, hpl, hsw, hpc, hz⟩ := h
  have hnil := infl_nil s hunf
  (simp only [hm] at hi4 hsr hp hl hld hpl hsw hz hpc; main_pc hs hm; all_goals (refine { unf := hunf, n := hn, d := hd, w := hw, i4 := ?_, f := ?_, sr := ?_, p := ?_, l := ?_, ld := ?_, r := ?_, pl := ?_, sw := ?_, pc := ?_, z := ?_ } <;> clear hn hd hw <;> fld))

theorem invA_main_loadGet (s s' : St) (h : InvA s) (k : Key) (hm : s.mpc = .loadGet k)
    (hs : stepMain s = some s') : InvA s' := by
  obtain ⟨hunf, hi4, hf, hn, hsr, hd, hw, hp, hl, hld, hr, hpl, hsw, hpc, hz⟩ := h
  have hnil := infl_nil s hunf
  (simp only [hm] at hi4 hsr hp hl hld hpl hsw hz hpc; main_pc hs hm; all_goals (refine { unf := hunf, n := hn, d := hd, w := hw, i4 := ?_, f := ?_, sr := ?_, p := ?_, l := ?_, ld := ?_, r := ?_, pl := ?_, sw := ?_, pc := ?_, z := ?_ } <;> clear hn hd hw <;> fld))

theorem invA_main_loadDel (s s' : St) (h : InvA s) (k : Key) (v : Val) (hm : s.mpc = .loadDel k v)
    (hs : stepMain s = some s') : InvA s' := by
  obtain ⟨hunf, hi4, hf, hn, hsr, hd, hw, hp, hl, hld, hr, hpl, hsw, hpc, hz⟩ := h
  have hnil := infl_nil s hunf
  (simp only [hm] at hi4 hsr hp hl hld hpl hsw hz hpc; main_pc hs hm; all_goals (refine { unf := hunf, n := hn, d := hd, w := hw, i4 := ?_, f := ?_, sr := ?_, p := ?_, l := ?_, ld := ?_, r := ?_, pl := ?_, sw := ?_, pc := ?_, z := ?_ } <;> clear hn hd hw <;> fld))

theorem invA_main_preC (s s' : St) (h : InvA s) (k : Key) (hm : s.mpc = .preC k)
    (hs : stepMain s = some s') : InvA s' := by
  obtain ⟨hunf, hi4, hf, hn, hsr, hd, hw, hp, hl, hld, hr, hpl, hsw, hpc, hz⟩ := h
  have hnil := infl_nil s hunf
  (simp only [hm] at hi4 hsr hp hl hld hpl hsw hz hpc; main_pc hs hm; all_goals (refine { unf := hunf, n := hn, d := hd, w := hw, i4 := ?_, f := ?_, sr := ?_, p := ?_, l := ?_, ld := ?_, r := ?_, pl := ?_, sw := ?_, pc := ?_, z := ?_ } <;> clear hn hd hw <;> fld))

theorem invA_main_saveC (s s' : St) (h : InvA s) (k : Key) (v : Val) (hm : s.mpc = .saveC k v)
    (hs : stepMain s = some s') : InvA s' := by
  obtain ⟨hunf, hi4, hf, hn, hsr, hd, hw, hp, hl, hld, hr, hpl, hsw, hpc, hz⟩ := h
  have hnil := infl_nil s hunf
  (simp only [hm] at hi4 hsr hp hl hld hpl hsw hz hpc; main_pc hs hm; all_goals (refine { unf := hunf, n := hn, d := hd, w := hw, i4 := ?_, f := ?_, sr := ?_, p := ?_, l := ?_, ld := ?_, r := ?_, pl := ?_, sw := ?_, pc := ?_, z := ?_ } <;> clear hn hd hw <;> fld))

theorem invA_main_saveSet (s s' : St) (h : InvA s) (k : Key) (v : Val) (hm : s.mpc = .saveSet k v)
    (hs : stepMain s = some s') : InvA s' := by
  obtain ⟨hunf, hi4, hf, hn, hsr, hd, hw, hp, hl, hld, hr, hpl, hsw, hpc, hz⟩ := h
  have hnil := infl_nil s hunf
  (simp only [hm] at hi4 hsr hp hl hld hpl hsw hz hpc; main_pc hs hm; all_goals (refine { unf := hunf, n := hn, d := hd, w := hw, i4 := ?_, f := ?_, sr := ?_, p := ?_, l := ?_, ld := ?_, r := ?_, pl := ?_, sw := ?_, pc := ?_, z := ?_ } <;> clear hn hd hw <;> fld))


end TenpyModel.C20.Threaded
