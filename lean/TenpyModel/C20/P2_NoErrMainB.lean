import TenpyModel.C20.P2_NoErrMainA
/-! `InvN` is preserved by the steps of the main thread (part 2: alive checks, `put`, `join`). -/
set_option linter.unusedSimpArgs false
set_option linter.unusedVariables false
namespace TenpyModel.C20.Threaded

theorem invN_main_isSet (s s' : St) (hA : InvA s) (h : InvN s) (c : Cont) (hm : s.mpc = .isSet c)
    (hs : stepMain s = some s') : InvN s' := by
  obtain ⟨nf, ne, ex, wk, tfq, tfr, tfp, lo, wfp, la, lk, rd, pa, wl, dw, lw, ln⟩ := h
  have hi4 := hA.i4; have hsw := hA.sw; have hpl := hA.pl
  cases c with
  | toPut t a => cases a <;> (simp only [hm] at ex tfp la lk pa wl dw lw ln hi4 hsw hpl; simp only [eff, hm] at wfp; main_generic hs hm nf wk tfq tfr lo wfp)
  | toJoin a => cases a <;> (simp only [hm] at ex tfp la lk pa wl dw lw ln hi4 hsw hpl; simp only [eff, hm] at wfp; main_generic hs hm nf wk tfq tfr lo wfp)
  | joined a => cases a <;> (simp only [hm] at ex tfp la lk pa wl dw lw ln hi4 hsw hpl; simp only [eff, hm] at wfp; main_generic hs hm nf wk tfq tfr lo wfp)

theorem wOk_alive (s : St) (h : wOk s) (he : s.exit = false) : s.wpc ≠ .dead := by
  unfold wOk at h
  intro hd
  rw [hd] at h
  simp_all

theorem invN_main_isAlive (s s' : St) (hA : InvA s) (h : InvN s) (c : Cont) (hm : s.mpc = .isAlive c)
    (hs : stepMain s = some s') : InvN s' := by
  obtain ⟨nf, ne, ex, wk, tfq, tfr, tfp, lo, wfp, la, lk, rd, pa, wl, dw, lw, ln⟩ := h
  have hi4 := hA.i4; have hsw := hA.sw; have hpl := hA.pl
  have hal := wOk_alive s wk
  cases c with
  | toPut t a => cases a <;> (simp only [hm] at ex tfp la lk pa wl dw lw ln hi4 hsw hpl; simp only [eff, hm] at wfp; main_generic hs hm nf wk tfq tfr lo wfp)
  | toJoin a => cases a <;> (simp only [hm] at ex tfp la lk pa wl dw lw ln hi4 hsw hpl; simp only [eff, hm] at wfp; main_generic hs hm nf wk tfq tfr lo wfp)
  | joined a => cases a <;> (simp only [hm] at ex tfp la lk pa wl dw lw ln hi4 hsw hpl; simp only [eff, hm] at wfp; main_generic hs hm nf wk tfq tfr lo wfp)

theorem invN_main_join (s s' : St) (hA : InvA s) (h : InvN s) (a : AfterJoin) (hm : s.mpc = .join a)
    (hs : stepMain s = some s') : InvN s' := by
  obtain ⟨nf, ne, ex, wk, tfq, tfr, tfp, lo, wfp, la, lk, rd, pa, wl, dw, lw, ln⟩ := h
  have hi4 := hA.i4; have hsw := hA.sw; have hpl := hA.pl
  have hnil := infl_nil s hA.unf
  cases a <;> (simp only [hm] at ex tfp la lk pa wl dw lw ln hi4 hsw hpl; simp only [eff, hm] at wfp; main_generic hs hm nf wk tfq tfr lo wfp)

end TenpyModel.C20.Threaded
