import TenpyModel.C20.CacheProofs
/-!
# C20 (sequential cache part) — property theorems

"A cache ... behaves like a dictionary for every sequence of set, get, delete, preload and
short-term-key operations ...: reads return the latest value written, sub-caches are isolated,
closing is clean."

Specification (`specStep`, in `CacheProofs.lean`): one plain dictionary (association list with
Python `dict` semantics) per cache, a flag "closed".  The specification never looks at
`short_term_cache`, `short_term_keys`, the storage container or the parent/child structure.
`del` of an absent key is a no-op in `DictCache.__delitem__` (unlike `dict`), and the spec says so.
After `close` the specification is silent about data accesses (the documentation only promises
that access "is no longer possible"); it still fixes `close` itself (second close raises) and
`bool(cache)`.
-/
open TenpyModel.C20.Cache

namespace TenpyModel.C20.Cache

/-- outputs agree wherever the specification says something -/
def Agree (o : Out) (so : Option Out) : Prop := ∀ x, so = some x → o = x

/-- pointwise `Agree` of two lists of the same length -/
def AgreeAll : List Out → List (Option Out) → Prop
  | [], [] => True
  | o :: os, so :: sos => Agree o so ∧ AgreeAll os sos
  | _, _ => False

theorem run_refines (kind : Kind) (ops : List (Nat × Op)) (s : Sys) (sp : Spec) (h : Rel kind s sp) :
    AgreeAll (run s ops).2 (specRun kind sp ops).2 := by
  induction ops generalizing s sp with
  | nil => exact True.intro
  | cons a ops ih =>
    obtain ⟨i, op⟩ := a
    obtain ⟨h1, h2⟩ := rel_step kind s sp h i op
    exact ⟨h2, ih _ _ h1⟩

/-- `DictCache.__delitem__` as it was before the repair: the short-term copy survives. -/
def delitemOld (s : Sys) (i : Nat) (k : Key) : Sys × Out :=
  if k ∈ s.ltk i then
    let s1 := setLtk s i ((s.ltk i).filter (· ≠ k))
    if s.opened then (setDisk s1 i k none, .unit) else (s1, .err .closed)
  else (s, .unit)

def stepOld (s : Sys) (i : Nat) : Op → Sys × Out
  | .del k => if i < s.n then delitemOld s i k else (s, .err .badCache)
  | op => step s i op

def runOld : Sys → List (Nat × Op) → List Out
  | _, [] => []
  | s, (i, op) :: ops => (stepOld s i op).2 :: runOld (stepOld s i op).1 ops

end TenpyModel.C20.Cache

/-- **Refinement to a dictionary.**  For every storage kind and EVERY sequence of operations on
the cache and any of its (nested) sub-caches, each `set/get/[]/del/in/len/iter/preload/
set_short_term_keys/create_subcache/close/bool` returns exactly what the per-cache dictionary
specification returns (reads return the latest value written; an operation on one cache changes
only that cache's dictionary, see `specStep`). -/
theorem C20_cache_refines_dict (kind : Kind) (ops : List (Nat × Op)) :
    AgreeAll (run (init kind) ops).2 (specRun kind specInit ops).2 :=
  run_refines kind ops _ _ (rel_init kind)

/-- non-vacuity: a run through short-term keys, overwrite, delete, a sub-cache and close; the
specification speaks at every step and the model's outputs are the dictionary's -/
example :
    let ops : List (Nat × Op) :=
      [(0, .setShortTermKeys [0, 1]), (0, .set 0 5), (0, .set 1 6), (0, .getitem 0), (0, .set 0 7),
       (0, .getitem 0), (0, .createSubcache 3), (1, .set 0 9), (0, .del 0), (0, .getitem 0), (1, .getitem 0),
       (0, .len), (0, .iter), (0, .preload [0, 1] true), (0, .close), (0, .close), (1, .isOpen)]
    (run (init ⟨true⟩) ops).2.map some = (specRun ⟨true⟩ specInit ops).2 ∧
    (run (init ⟨true⟩) ops).2 =
      [.unit, .unit, .unit, .val (some 5), .unit, .val (some 7), .sub 1, .unit, .unit, .err .keyError,
       .val (some 9), .nat 1, .keys [1], .err .keyError, .unit, .err .alreadyClosed, .bool false] := by
  decide

/-- **Sub-caches are isolated** (model level): an operation on cache `i` leaves the key set, the
short-term cache, the short-term keys and the storage container of every other existing cache
`j` untouched.  (The only shared thing is the open/closed state of the root storage.) -/
theorem C20_cache_subcaches_isolated (s : Sys) (i j : Nat) (op : Op) (hij : i ≠ j) (hj : j < s.n) :
    let s' := (step s i op).1
    s'.ltk j = s.ltk j ∧ s'.stk j = s.stk j ∧ (∀ k, s'.stc j k = s.stc j k) ∧ (∀ k, s'.disk j k = s.disk j k) := by
  have hji : j ≠ i := fun e => hij e.symm
  have hjn : j ≠ s.n := Nat.ne_of_lt hj
  unfold step
  split
  · cases op <;>
      simp only [setitem, TenpyModel.C20.Cache.get, getitem, delitem, setShortTermKeys, preload, createSubcache, close,
        setLtk, setStc, setDisk, setStk] <;>
      (repeat' split) <;> simp_all
    all_goals (intro h0; omega)
  · simp

/-- ... and therefore a read of cache `j` is not affected by any operation on another cache `i`
(other than closing the whole cache file). -/
theorem C20_cache_subcache_reads_isolated (s : Sys) (i j : Nat) (op : Op) (hij : i ≠ j) (hj : j < s.n)
    (hc : op ≠ .close) (k : Key) :
    (getitem (step s i op).1 j k).2 = (getitem s j k).2 := by
  obtain ⟨h1, h2, h3, h4⟩ := C20_cache_subcaches_isolated s i j op hij hj
  have ho : (step s i op).1.opened = s.opened := by
    unfold step
    split
    · cases op <;>
        simp only [setitem, TenpyModel.C20.Cache.get, getitem, delitem, setShortTermKeys, preload, createSubcache,
          setLtk, setStc, setDisk, setStk] <;>
        (repeat' split) <;> simp_all
    · rfl
  simp only [getitem, h1, h2, h3, h4, ho]
  cases s.stc j k <;> simp only []
  split
  · split
    · cases s.disk j k <;> simp
    · rfl
  · rfl

example : (getitem (step (step (step (init ⟨true⟩) 0 (.createSubcache 1)).1 0 (.set 2 5)).1 1 (.set 2 6)).1 0 2).2
    = .val (some 5) := by decide

/-- **Why the repair of `__delitem__` is needed**: with the unrepaired `__delitem__` (short-term
copy kept) the refinement fails — after `set_short_term_keys(0); c[0]=1; del c[0]`, `c[0]`
returns the deleted value `1` where a dictionary raises `KeyError`.  (Replayed on the real code
by the harness: corpus case `delitem-stale`.) -/
theorem C20_cache_unrepaired_delitem_counterexample :
    ¬ AgreeAll
        (runOld (init ⟨false⟩) [(0, .setShortTermKeys [0]), (0, .set 0 1), (0, .del 0), (0, .getitem 0)])
        (specRun ⟨false⟩ specInit [(0, .setShortTermKeys [0]), (0, .set 0 1), (0, .del 0), (0, .getitem 0)]).2 := by
  intro h
  simp only [runOld, specRun, AgreeAll] at h
  have := h.2.2.2.1 (.err .keyError) (by decide)
  revert this
  decide

/-- **Storage calls respect the discipline assumed of callers of `ThreadedStorage`**: in a
reachable state, `load`/`preload` are only issued for keys the dictionary holds (so the disk
operation of the worker cannot fail with "file not found"). -/
theorem C20_cache_calls_disciplined (kind : Kind) (s : Sys) (sp : Spec) (h : Rel kind s sp) (i : Nat)
    (op : Op) (j : Nat) (k : Key) (hc : SCall.load j k ∈ calls s i op ∨ SCall.preload j k ∈ calls s i op) :
    j = i ∧ dget (sp.dicts i) k ≠ none := by
  unfold calls at hc
  by_cases hio : i < s.n ∧ s.opened = true
  · have hl := h.ltk hio.2 i
    have hm := mem_dkeys_iff (sp.dicts i) k
    simp only [hio, and_self, if_true] at hc
    cases op with
    | preload ks r =>
      simp only [] at hc
      have key : ∀ ks, (SCall.load j k ∈ calls.go s i r ks ∨ SCall.preload j k ∈ calls.go s i r ks) →
          j = i ∧ k ∈ s.ltk i := by
        intro ks
        induction ks with
        | nil => simp [calls.go]
        | cons a ks ih =>
          simp only [calls.go]
          split
          · simp only [List.mem_cons]
            rintro (h1 | h1)
            · rcases h1 with h1 | h1
              · cases h1
              · exact ih (Or.inl h1)
            · rcases h1 with h1 | h1
              · cases h1; exact ⟨rfl, by assumption⟩
              · exact ih (Or.inr h1)
          · split
            · simp
            · exact ih
      obtain ⟨e, hk⟩ := key ks hc
      exact ⟨e, by rw [hl] at hk; exact hm.1 hk⟩
    | _ => simp only [] at hc <;> grind
  · simp [hio] at hc

example : calls (step (init ⟨true⟩) 0 (.set 1 5)).1 0 (.preload [0, 1] false) = [.preload 0 1] := by decide
