import TenpyModel.C20.ThreadedProofs
/-! `InvA` is preserved by every step of the worker thread. -/
set_option linter.unusedSimpArgs false
set_option linter.unusedVariables false
namespace TenpyModel.C20.Threaded
macro "worker_pc" hs:ident hw:ident : tactic => `(tactic| (
  repeat' (split at $hs:ident)
  all_goals (first | (simp only [Option.some.injEq] at $hs:ident; subst $hs:ident) | (exact absurd $hs:ident (by simp)))))

macro "wfld" : tactic => `(tactic| (
  simp only [infl, pend, held, holds, healthy, overlay_cons, hasErr,
    List.nil_append, List.cons_append, List.singleton_append, List.length_cons, List.pairwise_cons, List.mem_cons] at * <;> grind))

theorem invA_worker_isSet (s s' : St) (h : InvA s) (hwp : s.wpc = .isSet)
    (hs : stepWorker s = some s') : InvA s' := by
  obtain ⟨hunf, hi4, hf, hn, hsr, hd, hw, hp, hl, hld, hr, hpl, hsw, hpc, hz⟩ := h
  simp only [infl, pend, hwp] at hunf hf hn hsr hd hw hpl
  simp only [stepWorker, hwp] at hs
  worker_pc hs hwp
  all_goals (refine { unf := ?_, n := ?_, d := ?_, w := ?_, i4 := ?_, f := ?_, sr := ?_, p := ?_, l := ?_, ld := hld, r := hr, pl := ?_, sw := hsw, pc := hpc, z := hz } <;> wfld)

theorem invA_worker_get (s s' : St) (h : InvA s) (hwp : s.wpc = .get)
    (hs : stepWorker s = some s') : InvA s' := by
  obtain ⟨hunf, hi4, hf, hn, hsr, hd, hw, hp, hl, hld, hr, hpl, hsw, hpc, hz⟩ := h
  simp only [infl, pend, hwp] at hunf hf hn hsr hd hw hpl
  simp only [stepWorker, hwp] at hs
  cases hq : s.queue with
  | nil => (simp only [hq] at hunf hf hn hsr hd hpl hs; worker_pc hs hwp; all_goals (refine { unf := ?_, n := ?_, d := ?_, w := ?_, i4 := ?_, f := ?_, sr := ?_, p := ?_, l := ?_, ld := hld, r := hr, pl := ?_, sw := hsw, pc := hpc, z := hz } <;> wfld))
  | cons t0 q0 => (simp only [hq] at hunf hf hn hsr hd hpl hs; worker_pc hs hwp; all_goals (refine { unf := ?_, n := ?_, d := ?_, w := ?_, i4 := ?_, f := ?_, sr := ?_, p := ?_, l := ?_, ld := hld, r := hr, pl := ?_, sw := hsw, pc := hpc, z := hz } <;> wfld))

theorem task_eta (t : Task) (h1 : t.kind = .load) (h2 : t.fails = false) :
    (⟨.load, t.key, false⟩ : Task) = t := by
  cases t; simp_all

theorem applyTask_load (d : Key → Option Val) (t : Task) (h : t.kind = .load) : applyTask d t = d := by
  simp [applyTask, h]

theorem applyTask_other (d : Key → Option Val) (t : Task) (k : Key) (h : t.key ≠ k) : applyTask d t k = d k := by
  have h' : ¬ k = t.key := fun e => h e.symm
  unfold applyTask; cases t.kind <;> simp [h']

theorem overlay_no_save (ts : List Task) (d : Key → Option Val) (k : Key)
    (h : ∀ t' ∈ ts, t'.key = k → t'.kind = .delete) : overlay d ts k = d k ∨ overlay d ts k = none := by
  induction ts generalizing d with
  | nil => exact Or.inl rfl
  | cons t ts ih =>
    rw [overlay_cons]
    have ih' := ih (applyTask d t) (fun t' ht' => h t' (List.mem_cons_of_mem _ ht'))
    by_cases hk : t.key = k
    · have hd := h t (List.mem_cons_self) hk
      have : applyTask d t k = none := by simp [applyTask, hd, hk]
      rcases ih' with h1 | h1
      · right; rw [h1, this]
      · right; exact h1
    · rw [applyTask_other d t k hk] at ih'
      exact ih'

theorem invA_worker_run (s s' : St) (h : InvA s) (t : Task) (hwp : s.wpc = .run t)
    (hs : stepWorker s = some s') : InvA s' := by
  obtain ⟨hunf, hi4, hf, hn, hsr, hd, hw, hp, hl, hld, hr, hpl, hsw, hpc, hz⟩ := h
  simp only [infl, pend, hwp] at hunf hf hn hsr hd hw hpl
  simp only [stepWorker, hwp] at hs
  by_cases hfail : t.fails = true
  · simp only [hfail, if_true, Option.some.injEq] at hs; subst hs
    refine { unf := ?_, n := ?_, d := ?_, w := ?_, i4 := ?_, f := ?_, sr := ?_, p := ?_, l := ?_, ld := hld, r := hr, pl := ?_, sw := hsw, pc := hpc, z := hz } <;> wfld
  · have hff : t.fails = false := by simpa using hfail
    simp only [hff, Bool.false_eq_true, if_false] at hs
    cases hk : t.kind with
    | load =>
      simp only [hk] at hs
      cases hdk : s.disk t.key with
      | none =>
        simp only [hdk, Option.some.injEq] at hs; subst hs
        refine { unf := ?_, n := ?_, d := ?_, w := ?_, i4 := ?_, f := ?_, sr := ?_, p := ?_, l := ?_, ld := hld, r := hr, pl := ?_, sw := hsw, pc := hpc, z := hz } <;> wfld
      | some v =>
        simp only [hdk, Option.some.injEq] at hs; subst hs
        have eta := task_eta t hk hff
        refine { unf := ?unf, n := ?n, d := ?d, w := ?w, i4 := hi4, f := ?f, sr := ?sr, p := hp, l := hl, ld := hld, r := hr, pl := ?pl, sw := hsw, pc := hpc, z := hz }
        case unf => simpa [holds] using hunf
        case n => simpa only [infl, held, eta] using hn
        case f => simpa only [infl, held, eta] using hf
        case sr => simpa only [infl, held, eta] using hsr
        case pl => simpa only [infl, held, eta] using hpl
        case d =>
          intro _ k
          have h1 := hd (by simp [healthy]) k
          simp only [List.singleton_append, overlay_cons, applyTask_load _ _ hk] at h1
          simpa [pend] using h1
        case w =>
          intro k v' hkv a ha
          simp only [WPc.setLoaded.injEq] at hkv
          obtain ⟨rfl, rfl⟩ := hkv
          have hD := hd (by simp [healthy]) t.key
          simp only [List.singleton_append, overlay_cons, applyTask_load _ _ hk] at hD
          have hN : ∀ t' ∈ s.queue, t'.key = t.key → t'.kind = .delete := by
            intro t' ht' hkk
            have := (List.pairwise_cons.1 (by simpa [held] using hn)).1 t' ht'
            exact this hk hkk
          rcases overlay_no_save s.queue s.disk t.key hN with h1 | h1
          · rw [h1, hdk] at hD
            have : some v = some a := hD.trans ha
            cases this; rfl
          · rw [h1] at hD; rw [← hD] at ha; cases ha
    | save v =>
      simp only [hk, Option.some.injEq] at hs; subst hs
      refine { unf := ?_, n := ?_, d := ?_, w := ?_, i4 := ?_, f := ?_, sr := ?_, p := ?_, l := ?_, ld := hld, r := hr, pl := ?_, sw := hsw, pc := hpc, z := hz } <;> wfld
    | delete =>
      simp only [hk, Option.some.injEq] at hs; subst hs
      refine { unf := ?_, n := ?_, d := ?_, w := ?_, i4 := ?_, f := ?_, sr := ?_, p := ?_, l := ?_, ld := hld, r := hr, pl := ?_, sw := hsw, pc := hpc, z := hz } <;> wfld

theorem saveRegion_of_putPending (m : MPc) (t : Task) (v : Val) (h : putPending m = some t)
    (hk : t.kind = .save v) : saveRegion m t.key := by
  unfold putPending at h
  split at h <;> first | (cases h; exact ⟨⟨v, hk⟩, rfl⟩) | (exact absurd h (by simp))

theorem invA_worker_setLoaded (s s' : St) (h : InvA s) (k : Key) (v : Val) (hwp : s.wpc = .setLoaded k v)
    (hs : stepWorker s = some s') : InvA s' := by
  obtain ⟨hunf, hi4, hf, hn, hsr, hd, hw, hp, hl, hld, hr, hpl, hsw, hpc, hz⟩ := h
  simp only [infl, pend, held, hwp] at hunf hf hn hsr hd hw hpl
  simp only [stepWorker, hwp, Option.some.injEq] at hs
  subst hs
  have hheld := hf ⟨.load, k, false⟩ (by simp) rfl
  have hN : ∀ t' ∈ s.queue, t'.key = k → t'.kind = .delete := by
    intro t' ht' hkk
    have := (List.pairwise_cons.1 (by simpa using hn)).1 t' ht'
    exact this rfl hkk
  have hS : ∀ k', saveRegion s.mpc k' → k ≠ k' := fun k' hk' => hsr k' hk' ⟨.load, k, false⟩ (by simp) rfl
  have hP : ∀ t v', putPending s.mpc = some t → t.kind = .save v' → t.key ≠ k := by
    intro t v' h1 h2 h3
    exact hS t.key (saveRegion_of_putPending _ _ _ h1 h2) h3.symm
  have hPL : ∀ t, putPending s.mpc = some t → t.kind = .load → k ≠ t.key :=
    fun t h1 h2 => (hpl t h1 h2).2.2 ⟨.load, k, false⟩ (by simp) rfl
  have hwk := hw k v rfl
  refine { unf := ?_, n := ?_, d := ?_, w := ?_, i4 := ?_, f := ?_, sr := ?_, p := ?_, l := ?_, ld := hld, r := hr, pl := ?_, sw := hsw, pc := hpc, z := hz } <;> wfld

theorem invA_worker_taskDone (s s' : St) (h : InvA s) (f : Bool) (hwp : s.wpc = .taskDone f)
    (hs : stepWorker s = some s') : InvA s' := by
  obtain ⟨hunf, hi4, hf, hn, hsr, hd, hw, hp, hl, hld, hr, hpl, hsw, hpc, hz⟩ := h
  simp only [infl, pend, hwp] at hunf hf hn hsr hd hw hpl
  simp only [stepWorker, hwp] at hs
  worker_pc hs hwp
  all_goals (refine { unf := ?_, n := ?_, d := ?_, w := ?_, i4 := ?_, f := ?_, sr := ?_, p := ?_, l := ?_, ld := hld, r := hr, pl := ?_, sw := hsw, pc := hpc, z := hz } <;> wfld)

theorem invA_worker_setExit (s s' : St) (h : InvA s) (hwp : s.wpc = .setExit)
    (hs : stepWorker s = some s') : InvA s' := by
  obtain ⟨hunf, hi4, hf, hn, hsr, hd, hw, hp, hl, hld, hr, hpl, hsw, hpc, hz⟩ := h
  simp only [infl, pend, hwp] at hunf hf hn hsr hd hw hpl
  simp only [stepWorker, hwp] at hs
  worker_pc hs hwp
  all_goals (refine { unf := ?_, n := ?_, d := ?_, w := ?_, i4 := ?_, f := ?_, sr := ?_, p := ?_, l := ?_, ld := hld, r := hr, pl := ?_, sw := hsw, pc := hpc, z := hz } <;> wfld)

theorem invA_worker_empty (s s' : St) (h : InvA s) (hwp : s.wpc = .empty)
    (hs : stepWorker s = some s') : InvA s' := by
  obtain ⟨hunf, hi4, hf, hn, hsr, hd, hw, hp, hl, hld, hr, hpl, hsw, hpc, hz⟩ := h
  simp only [infl, pend, hwp] at hunf hf hn hsr hd hw hpl
  simp only [stepWorker, hwp] at hs
  cases hq : s.queue with
  | nil => (simp only [hq] at hunf hf hn hsr hd hpl hs; worker_pc hs hwp; all_goals (refine { unf := ?_, n := ?_, d := ?_, w := ?_, i4 := ?_, f := ?_, sr := ?_, p := ?_, l := ?_, ld := hld, r := hr, pl := ?_, sw := hsw, pc := hpc, z := hz } <;> wfld))
  | cons t0 q0 => (simp only [hq] at hunf hf hn hsr hd hpl hs; worker_pc hs hwp; all_goals (refine { unf := ?_, n := ?_, d := ?_, w := ?_, i4 := ?_, f := ?_, sr := ?_, p := ?_, l := ?_, ld := hld, r := hr, pl := ?_, sw := hsw, pc := hpc, z := hz } <;> wfld))

theorem invA_worker_drainGet (s s' : St) (h : InvA s) (hwp : s.wpc = .drainGet)
    (hs : stepWorker s = some s') : InvA s' := by
  obtain ⟨hunf, hi4, hf, hn, hsr, hd, hw, hp, hl, hld, hr, hpl, hsw, hpc, hz⟩ := h
  simp only [infl, pend, hwp] at hunf hf hn hsr hd hw hpl
  simp only [stepWorker, hwp] at hs
  cases hq : s.queue with
  | nil => (simp only [hq] at hunf hf hn hsr hd hpl hs; worker_pc hs hwp; all_goals (refine { unf := ?_, n := ?_, d := ?_, w := ?_, i4 := ?_, f := ?_, sr := ?_, p := ?_, l := ?_, ld := hld, r := hr, pl := ?_, sw := hsw, pc := hpc, z := hz } <;> wfld))
  | cons t0 q0 => (simp only [hq] at hunf hf hn hsr hd hpl hs; worker_pc hs hwp; all_goals (refine { unf := ?_, n := ?_, d := ?_, w := ?_, i4 := ?_, f := ?_, sr := ?_, p := ?_, l := ?_, ld := hld, r := hr, pl := ?_, sw := hsw, pc := hpc, z := hz } <;> wfld))

theorem invA_worker_drainDone (s s' : St) (h : InvA s) (hwp : s.wpc = .drainDone)
    (hs : stepWorker s = some s') : InvA s' := by
  obtain ⟨hunf, hi4, hf, hn, hsr, hd, hw, hp, hl, hld, hr, hpl, hsw, hpc, hz⟩ := h
  simp only [infl, pend, hwp] at hunf hf hn hsr hd hw hpl
  simp only [stepWorker, hwp] at hs
  worker_pc hs hwp
  all_goals (refine { unf := ?_, n := ?_, d := ?_, w := ?_, i4 := ?_, f := ?_, sr := ?_, p := ?_, l := ?_, ld := hld, r := hr, pl := ?_, sw := hsw, pc := hpc, z := hz } <;> wfld)

theorem invA_worker_dead (s s' : St) (h : InvA s) (hwp : s.wpc = .dead)
    (hs : stepWorker s = some s') : InvA s' := by
  obtain ⟨hunf, hi4, hf, hn, hsr, hd, hw, hp, hl, hld, hr, hpl, hsw, hpc, hz⟩ := h
  simp only [infl, pend, hwp] at hunf hf hn hsr hd hw hpl
  simp only [stepWorker, hwp] at hs
  worker_pc hs hwp
  all_goals (refine { unf := ?_, n := ?_, d := ?_, w := ?_, i4 := ?_, f := ?_, sr := ?_, p := ?_, l := ?_, ld := hld, r := hr, pl := ?_, sw := hsw, pc := hpc, z := hz } <;> wfld)


end TenpyModel.C20.Threaded
