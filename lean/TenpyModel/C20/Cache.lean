/-
Executable model of `tenpy/tools/cache.py :: DictCache / CacheFile` over an abstract `Storage`
(import-free).

* A key is a natural number (harness: `'k<n>'`), a value a natural number (harness: index into a
  table of picklable / hdf5-exportable objects), a sub-container name a natural number.
* `long_term_keys` / `short_term_keys` are Python sets; they are represented by duplicate-free
  lists in insertion order (the harness compares them sorted).
* `short_term_cache` and the storage containers are finite maps, represented by functions
  `Key → Option Val`; the attributes of cache number `i` are `Sys.ltk i`, `Sys.stc i`, ...
* The abstract `Storage`: one container (a dict `data`, a pickle directory, an hdf5 group) per
  `DictCache`; container `i` belongs to cache `i`; `Sys.disk i` is its content.  `load/save/
  delete/preload/subcontainer` check `_opened` first ("Trying to access closed storage").
  Closing the root storage closes every sub-container (`_common_close`), hence one flag.
* `DictCache.__delitem__` is modelled **as repaired** (pending_fixes/C20-delitem-short-term.diff):
  it drops the key from `short_term_cache` too.  `Hdf5Storage.save` is modelled as repaired
  (pending_fixes/C20-hdf5-overwrite.diff): saving an existing key overwrites.
-/
namespace TenpyModel.C20.Cache

abbrev Key := Nat
abbrev Val := Nat

/-- what differs between the storage classes, as far as a `DictCache` can observe -/
structure Kind where
  /-- `PickleStorage/Hdf5Storage.subcontainer`: "Subcontainer with that name already exists";
      the trivial `Storage.subcontainer` hands out a fresh dict for any name. -/
  uniqueNames : Bool
deriving Repr, DecidableEq

structure Sys where
  kind   : Kind
  n      : Nat                          -- number of caches created so far (0 = the CacheFile)
  ltk    : Nat → List Key               -- long_term_keys of cache i
  stc    : Nat → Key → Option Val       -- short_term_cache of cache i
  stk    : Nat → List Key               -- short_term_keys of cache i
  names  : Nat → List Nat               -- names of the sub-containers created from cache i's storage
  disk   : Nat → Key → Option Val       -- content of storage container i
  opened : Bool                         -- `Storage._opened` of the root (and all sub-containers)

def init (kind : Kind) : Sys :=
  { kind := kind, n := 1, ltk := fun _ => [], stc := fun _ _ => none, stk := fun _ => [],
    names := fun _ => [], disk := fun _ _ => none, opened := true }

inductive Err where
  | keyError        -- KeyError
  | closed          -- ValueError('Trying to access closed storage')
  | alreadyClosed   -- ValueError('storage was already closed')
  | subExists       -- ValueError('Subcontainer with that name already exists')
  | missing         -- the storage has no entry for a key of long_term_keys (never happens, see proofs)
  | badCache        -- harness error: no such cache / close on a sub-cache (DictCache has no close)
deriving Repr, DecidableEq

inductive Out where
  | unit
  | val (v : Option Val)      -- `none` = the `default` of `get`
  | bool (b : Bool)
  | nat (n : Nat)
  | keys (l : List Key)
  | sub (cid : Nat)
  | err (e : Err)
deriving Repr, DecidableEq

inductive Op where
  | set (k : Key) (v : Val)
  | get (k : Key)
  | getitem (k : Key)
  | del (k : Key)
  | contains (k : Key)
  | len
  | iter
  | setShortTermKeys (ks : List Key)
  | preload (ks : List Key) (raiseMissing : Bool)
  | createSubcache (name : Nat)
  | close
  | isOpen
deriving Repr, DecidableEq

def setAdd (l : List Key) (k : Key) : List Key := if k ∈ l then l else l ++ [k]

def setLtk (s : Sys) (i : Nat) (l : List Key) : Sys :=
  { s with ltk := fun j => if j = i then l else s.ltk j }
def setStk (s : Sys) (i : Nat) (l : List Key) : Sys :=
  { s with stk := fun j => if j = i then l else s.stk j }
def setStc (s : Sys) (i : Nat) (k : Key) (v : Option Val) : Sys :=
  { s with stc := fun j k' => if j = i ∧ k' = k then v else s.stc j k' }
def setDisk (s : Sys) (i : Nat) (k : Key) (v : Option Val) : Sys :=
  { s with disk := fun j k' => if j = i ∧ k' = k then v else s.disk j k' }

/-- `DictCache.__getitem__` -/
def getitem (s : Sys) (i : Nat) (k : Key) : Sys × Out :=
  match s.stc i k with
  | some v => (s, .val (some v))                       -- `if key in self.short_term_cache`
  | none =>
    if k ∈ s.ltk i then
      if s.opened then
        match s.disk i k with                          -- `self.long_term_storage.load(key)`
        | some v => (setStc s i k (if k ∈ s.stk i then some v else none), .val (some v))  -- `if key in self.short_term_keys`
        | none => (s, .err .missing)
      else (s, .err .closed)
    else (s, .err .keyError)

/-- `DictCache.get(key, default=None)` -/
def get (s : Sys) (i : Nat) (k : Key) : Sys × Out :=
  if k ∈ s.ltk i then getitem s i k else (s, .val none)

/-- `DictCache.__setitem__` -/
def setitem (s : Sys) (i : Nat) (k : Key) (v : Val) : Sys × Out :=
  let s1 := setLtk s i (setAdd (s.ltk i) k)            -- `self.long_term_keys.add(key)`
  if s.opened then
    let s2 := setDisk s1 i k (some v)                  -- `self.long_term_storage.save(key, val)`
    (setStc s2 i k (if k ∈ s.stk i then some v else s.stc i k), .unit)   -- `if key in self.short_term_keys`
  else (s1, .err .closed)

/-- `DictCache.__delitem__` (repaired: also forgets the short-term copy) -/
def delitem (s : Sys) (i : Nat) (k : Key) : Sys × Out :=
  if k ∈ s.ltk i then
    let s1 := setStc (setLtk s i ((s.ltk i).filter (· ≠ k))) i k none
    if s.opened then (setDisk s1 i k none, .unit)
    else (s1, .err .closed)
  else (s, .unit)

/-- `DictCache.set_short_term_keys(*keys)` -/
def setShortTermKeys (s : Sys) (i : Nat) (ks : List Key) : Sys × Out :=
  ({ setStk s i (ks.foldl setAdd []) with
       stc := fun j k => if j = i then (if k ∈ ks then s.stc i k else none) else s.stc j k },
   .unit)

/-- the second loop of `DictCache.preload`: first key that raises -/
def preloadLoop (ltk : List Key) (opened raiseMissing : Bool) : List Key → Out
  | [] => .unit
  | k :: ks =>
    if k ∈ ltk then
      if opened then preloadLoop ltk opened raiseMissing ks   -- `Storage.preload`: no-op
      else .err .closed
    else if raiseMissing then .err .keyError
    else preloadLoop ltk opened raiseMissing ks

/-- `DictCache.preload(*keys, raise_missing)` -/
def preload (s : Sys) (i : Nat) (ks : List Key) (raiseMissing : Bool) : Sys × Out :=
  (setStk s i (ks.foldl setAdd (s.stk i)), preloadLoop (s.ltk i) s.opened raiseMissing ks)

/-- `DictCache.create_subcache(name)` = `DictCache(self.long_term_storage.subcontainer(name))` -/
def createSubcache (s : Sys) (i : Nat) (name : Nat) : Sys × Out :=
  if s.opened then
    if s.kind.uniqueNames && (s.names i).contains name then (s, .err .subExists)
    else
      ({ s with
          n := s.n + 1
          names := fun j => if j = s.n then [] else if j = i then name :: s.names i else s.names j
          ltk := fun j => if j = s.n then [] else s.ltk j
          stk := fun j => if j = s.n then [] else s.stk j
          stc := fun j k => if j = s.n then none else s.stc j k
          disk := fun j k => if j = s.n then none else s.disk j k },
       .sub s.n)
  else (s, .err .closed)

/-- `CacheFile.close()` -/
def close (s : Sys) : Sys × Out :=
  if s.opened then
    ({ s with opened := false, stc := fun j k => if j = 0 then none else s.stc j k }, .unit)
  else (s, .err .alreadyClosed)

def step (s : Sys) (i : Nat) (op : Op) : Sys × Out :=
  if i < s.n then
    match op with
    | .set k v => setitem s i k v
    | .get k => get s i k
    | .getitem k => getitem s i k
    | .del k => delitem s i k
    | .contains k => (s, .bool (decide (k ∈ s.ltk i)))
    | .len => (s, .nat (s.ltk i).length)
    | .iter => (s, .keys (s.ltk i))
    | .setShortTermKeys ks => setShortTermKeys s i ks
    | .preload ks r => preload s i ks r
    | .createSubcache name => createSubcache s i name
    | .close => if i = 0 then close s else (s, .err .badCache)
    | .isOpen => (s, .bool s.opened)
  else (s, .err .badCache)

def run : Sys → List (Nat × Op) → Sys × List Out
  | s, [] => (s, [])
  | s, (i, op) :: ops =>
    let r := step s i op
    let rs := run r.1 ops
    (rs.1, r.2 :: rs.2)

/-! ### Storage calls issued by an operation (program of the threaded model)

With `ThreadedStorage` the same `DictCache` code runs; each operation issues the storage calls
below (in this order).  Keys of cache `i` are tagged with the container (`i`), because every
sub-container has its own `_loaded/_waiting_for_load` and directory but shares the worker. -/

inductive SCall where
  | load (c : Nat) (k : Key)
  | preload (c : Nat) (k : Key)
  | save (c : Nat) (k : Key) (v : Val)
  | delete (c : Nat) (k : Key)
  | close
deriving Repr, DecidableEq

/-- storage calls of `step s i op` while the storage is open (no call raises) -/
def calls (s : Sys) (i : Nat) (op : Op) : List SCall :=
  if i < s.n ∧ s.opened then
    match op with
    | .set k v => [.save i k v]
    | .get k => if k ∈ s.ltk i ∧ s.stc i k = none then [.load i k] else []
    | .getitem k => if k ∈ s.ltk i ∧ s.stc i k = none then [.load i k] else []
    | .del k => if k ∈ s.ltk i then [.delete i k] else []
    | .preload ks r =>
      let rec go : List Key → List SCall
        | [] => []
        | k :: ks => if k ∈ s.ltk i then .preload i k :: go ks else if r then [] else go ks
      go ks
    | .close => if i = 0 then [.close] else []
    | _ => []
  else []

end TenpyModel.C20.Cache
