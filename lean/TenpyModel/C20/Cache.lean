/-
Executable model of `tenpy/tools/cache.py :: DictCache / CacheFile` over an abstract `Storage`
(import-free).

* A key is a natural number (harness: `'k<n>'`), a value a natural number (harness: index into a
  table of picklable / hdf5-exportable objects), a sub-container name a natural number.
* `long_term_keys` / `short_term_keys` are Python sets; they are represented by duplicate-free
  lists in insertion order (the harness compares them sorted).
* `short_term_cache` and the storage containers are finite maps, represented by functions
  `Key → Option Val`.
* The abstract `Storage`: one container (a dict `data`, a pickle directory, an hdf5 group) per
  `DictCache`; container `i` belongs to cache `i`; `Sys.disk i` is its content.  `load/save/
  delete/preload/subcontainer` check `_opened` first ("Trying to access closed storage").
  Closing the root storage closes every sub-container (`_common_close`), hence one flag.
* `DictCache.__delitem__` is modelled **as repaired** (pending_fixes/C20-delitem-short-term.diff):
  it drops the key from `short_term_cache` too.  `Hdf5Storage.save` is modelled as repaired
  (pending_fixes/C20-hdf5-overwrite.diff): saving an existing key overwrites.
-/
namespace TenpyModel.C20.Cache

abbrev Key := Nat
abbrev Val := Nat

/-- what differs between the storage classes, as far as a `DictCache` can observe -/
structure Kind where
  /-- `PickleStorage/Hdf5Storage.subcontainer`: "Subcontainer with that name already exists";
      the trivial `Storage.subcontainer` hands out a fresh dict for any name. -/
  uniqueNames : Bool
deriving Repr, DecidableEq

structure Cache where
  ltk   : List Key              -- long_term_keys
  stc   : Key → Option Val      -- short_term_cache
  stk   : List Key              -- short_term_keys
  names : List Nat              -- names of the sub-containers created from this cache's storage

def Cache.empty : Cache := { ltk := [], stc := fun _ => none, stk := [], names := [] }

structure Sys where
  kind   : Kind
  caches : Nat → Cache
  n      : Nat                          -- number of caches created so far (0 = the CacheFile)
  disk   : Nat → Key → Option Val       -- content of storage container i
  opened : Bool                         -- `Storage._opened` of the root (and all sub-containers)

def init (kind : Kind) : Sys :=
  { kind := kind, caches := fun _ => Cache.empty, n := 1, disk := fun _ _ => none, opened := true }

inductive Err where
  | keyError        -- KeyError
  | closed          -- ValueError('Trying to access closed storage')
  | alreadyClosed   -- ValueError('storage was already closed')
  | subExists       -- ValueError('Subcontainer with that name already exists')
  | missing         -- the storage has no entry for a key of long_term_keys (never happens, see proofs)
  | badCache        -- harness error: no such cache / close on a sub-cache (DictCache has no close)
deriving Repr, DecidableEq

inductive Out where
  | unit
  | val (v : Option Val)      -- `none` = the `default` of `get`
  | bool (b : Bool)
  | nat (n : Nat)
  | keys (l : List Key)
  | sub (cid : Nat)
  | err (e : Err)
deriving Repr, DecidableEq

inductive Op where
  | set (k : Key) (v : Val)
  | get (k : Key)
  | getitem (k : Key)
  | del (k : Key)
  | contains (k : Key)
  | len
  | iter
  | setShortTermKeys (ks : List Key)
  | preload (ks : List Key) (raiseMissing : Bool)
  | createSubcache (name : Nat)
  | close
  | isOpen
deriving Repr, DecidableEq

def upd (f : Key → Option Val) (k : Key) (v : Option Val) : Key → Option Val :=
  fun j => if j = k then v else f j

def setAdd (l : List Key) (k : Key) : List Key := if k ∈ l then l else l ++ [k]

def setCache (s : Sys) (i : Nat) (c : Cache) : Sys :=
  { s with caches := fun j => if j = i then c else s.caches j }

def setDisk (s : Sys) (i : Nat) (k : Key) (v : Option Val) : Sys :=
  { s with disk := fun j => if j = i then upd (s.disk i) k v else s.disk j }

/-- `DictCache.__getitem__` -/
def getitem (s : Sys) (i : Nat) (k : Key) : Sys × Out :=
  let c := s.caches i
  match c.stc k with
  | some v => (s, .val (some v))                       -- `if key in self.short_term_cache`
  | none =>
    if k ∈ c.ltk then
      if s.opened then
        match s.disk i k with                          -- `self.long_term_storage.load(key)`
        | some v =>
          (if k ∈ c.stk then setCache s i { c with stc := upd c.stc k (some v) } else s, .val (some v))
        | none => (s, .err .missing)
      else (s, .err .closed)
    else (s, .err .keyError)

/-- `DictCache.get(key, default=None)` -/
def get (s : Sys) (i : Nat) (k : Key) : Sys × Out :=
  if k ∈ (s.caches i).ltk then getitem s i k else (s, .val none)

/-- `DictCache.__setitem__` -/
def setitem (s : Sys) (i : Nat) (k : Key) (v : Val) : Sys × Out :=
  let c := s.caches i
  let c1 := { c with ltk := setAdd c.ltk k }           -- `self.long_term_keys.add(key)`
  if s.opened then
    let s1 := setDisk s i k (some v)                   -- `self.long_term_storage.save(key, val)`
    let c2 := if k ∈ c.stk then { c1 with stc := upd c1.stc k (some v) } else c1
    (setCache s1 i c2, .unit)
  else (setCache s i c1, .err .closed)

/-- `DictCache.__delitem__` (repaired: also forgets the short-term copy) -/
def delitem (s : Sys) (i : Nat) (k : Key) : Sys × Out :=
  let c := s.caches i
  if k ∈ c.ltk then
    let c1 := { c with ltk := c.ltk.filter (· ≠ k), stc := upd c.stc k none }
    if s.opened then (setCache (setDisk s i k none) i c1, .unit)
    else (setCache s i c1, .err .closed)
  else (s, .unit)

/-- `DictCache.set_short_term_keys(*keys)` -/
def setShortTermKeys (s : Sys) (i : Nat) (ks : List Key) : Sys × Out :=
  let c := s.caches i
  (setCache s i { c with stk := ks.foldl setAdd [], stc := fun k => if k ∈ ks then c.stc k else none },
   .unit)

/-- the second loop of `DictCache.preload`: first key that raises -/
def preloadLoop (ltk : List Key) (opened raiseMissing : Bool) : List Key → Out
  | [] => .unit
  | k :: ks =>
    if k ∈ ltk then
      if opened then preloadLoop ltk opened raiseMissing ks   -- `Storage.preload`: no-op
      else .err .closed
    else if raiseMissing then .err .keyError
    else preloadLoop ltk opened raiseMissing ks

/-- `DictCache.preload(*keys, raise_missing)` -/
def preload (s : Sys) (i : Nat) (ks : List Key) (raiseMissing : Bool) : Sys × Out :=
  let c := s.caches i
  (setCache s i { c with stk := ks.foldl setAdd c.stk }, preloadLoop c.ltk s.opened raiseMissing ks)

/-- `DictCache.create_subcache(name)` = `DictCache(self.long_term_storage.subcontainer(name))` -/
def createSubcache (s : Sys) (i : Nat) (name : Nat) : Sys × Out :=
  let c := s.caches i
  if s.opened then
    if s.kind.uniqueNames && c.names.contains name then (s, .err .subExists)
    else
      let s1 := setCache s i { c with names := name :: c.names }
      let s2 := setCache s1 s.n Cache.empty
      ({ s2 with n := s.n + 1, disk := fun j => if j = s.n then (fun _ => none) else s.disk j },
       .sub s.n)
  else (s, .err .closed)

/-- `CacheFile.close()` -/
def close (s : Sys) : Sys × Out :=
  if s.opened then
    let c := s.caches 0
    ({ setCache s 0 { c with stc := fun _ => none } with opened := false }, .unit)
  else (s, .err .alreadyClosed)

def step (s : Sys) (i : Nat) (op : Op) : Sys × Out :=
  if i < s.n then
    match op with
    | .set k v => setitem s i k v
    | .get k => get s i k
    | .getitem k => getitem s i k
    | .del k => delitem s i k
    | .contains k => (s, .bool (decide (k ∈ (s.caches i).ltk)))
    | .len => (s, .nat (s.caches i).ltk.length)
    | .iter => (s, .keys (s.caches i).ltk)
    | .setShortTermKeys ks => setShortTermKeys s i ks
    | .preload ks r => preload s i ks r
    | .createSubcache name => createSubcache s i name
    | .close => if i = 0 then close s else (s, .err .badCache)
    | .isOpen => (s, .bool s.opened)
  else (s, .err .badCache)

def run : Sys → List (Nat × Op) → Sys × List Out
  | s, [] => (s, [])
  | s, (i, op) :: ops =>
    let r := step s i op
    let rs := run r.1 ops
    (rs.1, r.2 :: rs.2)

/-! ### Storage calls issued by an operation (program of the threaded model)

With `ThreadedStorage` the same `DictCache` code runs; each operation issues the storage calls
below (in this order).  Keys of cache `i` are tagged with the container (`i`), because every
sub-container has its own `_loaded/_waiting_for_load` and directory but shares the worker. -/

inductive SCall where
  | load (c : Nat) (k : Key)
  | preload (c : Nat) (k : Key)
  | save (c : Nat) (k : Key) (v : Val)
  | delete (c : Nat) (k : Key)
  | close
deriving Repr, DecidableEq

/-- storage calls of `step s i op` while the storage is open (no call raises) -/
def calls (s : Sys) (i : Nat) (op : Op) : List SCall :=
  let c := s.caches i
  if i < s.n ∧ s.opened then
    match op with
    | .set k v => [.save i k v]
    | .get k => if k ∈ c.ltk ∧ c.stc k = none then [.load i k] else []
    | .getitem k => if k ∈ c.ltk ∧ c.stc k = none then [.load i k] else []
    | .del k => if k ∈ c.ltk then [.delete i k] else []
    | .preload ks r =>
      let rec go : List Key → List SCall
        | [] => []
        | k :: ks => if k ∈ c.ltk then .preload i k :: go ks else if r then [] else go ks
      go ks
    | .close => if i = 0 then [.close] else []
    | _ => []
  else []

end TenpyModel.C20.Cache
