import TenpyModel.C20.CacheProofs
/-! `len` / `iter` / `in` of a `DictCache` after an arbitrary history: helper lemmas. -/
set_option linter.unusedSimpArgs false
set_option linter.unusedVariables false
namespace TenpyModel.C20.Cache

theorem run_rel (kind : Kind) (ops : List (Nat × Op)) (s : Sys) (sp : Spec) (h : Rel kind s sp) :
    Rel kind (run s ops).1 (specRun kind sp ops).1 := by
  induction ops generalizing s sp with
  | nil => exact h
  | cons a ops ih =>
    obtain ⟨i, op⟩ := a
    exact ih _ _ (rel_step kind s sp h i op).1

theorem nodup_setAdd (l : List Key) (k : Key) (h : l.Nodup) : (setAdd l k).Nodup := by
  unfold setAdd
  split
  · exact h
  · exact List.nodup_append.2 ⟨h, by simp, by
      intro a ha b hb; simp only [List.mem_singleton] at hb; subst hb; intro e; subst e; contradiction⟩

/-- every dictionary of the specification has pairwise distinct keys -/
def SpecNodup (sp : Spec) : Prop := ∀ i, (dkeys (sp.dicts i)).Nodup

theorem specNodup_step (kind : Kind) (sp : Spec) (h : SpecNodup sp) (i : Nat) (op : Op) :
    SpecNodup (specStep kind sp i op).1 := by
  unfold specStep
  by_cases hi : i < sp.n
  · simp only [hi, if_true]
    by_cases ho : sp.opened = true
    · simp only [ho, if_true]
      cases op with
      | set k v =>
        intro j; simp only []
        by_cases hj : j = i
        · simp only [hj, if_true, dkeys_dset]; exact nodup_setAdd _ _ (h i)
        · simp only [hj, if_false]; exact h j
      | del k =>
        intro j; simp only []
        by_cases hj : j = i
        · simp only [hj, if_true, dkeys_ddel]; exact List.Pairwise.filter _ (h i)
        · simp only [hj, if_false]; exact h j
      | createSubcache name =>
        simp only []
        split
        · exact h
        · intro j; simp only []
          by_cases hj : j = sp.n
          · simp [hj, dkeys]
          · simp only [hj, if_false]; exact h j
      | close => simp only []; split <;> exact h
      | _ => exact h
    · simp only [ho]
      cases op <;> exact h
  · simp only [hi, if_false]; exact h

theorem specNodup_run (kind : Kind) (ops : List (Nat × Op)) (sp : Spec) (h : SpecNodup sp) :
    SpecNodup (specRun kind sp ops).1 := by
  induction ops generalizing sp with
  | nil => exact h
  | cons a ops ih =>
    obtain ⟨i, op⟩ := a
    exact ih _ (specNodup_step kind sp h i op)

theorem specNodup_init : SpecNodup specInit := by
  intro i; simp [specInit, dkeys]

end TenpyModel.C20.Cache
