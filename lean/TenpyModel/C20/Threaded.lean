/-
Transition system for `tenpy/tools/cache.py :: ThreadedStorage` + `tenpy/tools/thread.py :: Worker`
(import-free, executable).

Two threads: the caller ("main", `Tid.main`) and the worker (`Tid.worker`).  A *step* of a thread
is: perform the one pending access to shared state (the queue `Worker.tasks`, the event
`Worker.exit`, the thread object, the dict `ThreadedStorage._loaded`, the disk), then run
thread-local code up to the next such access.  These are exactly the points at which the
harness' cooperative scheduler can switch threads (harness/c20_sched.py), so a run of the real
code under a schedule and a run of this model under the same schedule can be compared label by
label.  A *schedule* is any sequence of enabled steps.

Shared state and who touches it:
  queue, unfinished   `queue.Queue`: put (main), get/task_done/empty (worker), join (main)
  exit                `threading.Event`: is_set (both), set (worker on exception, main in `__exit__`)
  worker liveness     `Thread.is_alive()/join()` (main)
  loaded              `ThreadedStorage._loaded`: written by the worker (`return_dict[key] = res`),
                      read/written/deleted by main
  disk                only the worker (the wrapped `disk_storage`), main only after the worker died
Thread-local: `_waiting_for_load` (main), program counter, the program, ghost variables.

Keys of different sub-containers are different keys here (each sub-container has its own
`_loaded/_waiting_for_load/disk_storage` but shares the worker and its queue).

Fault stream: the `failAt`-th task created raises inside the worker (disk error).
-/
namespace TenpyModel.C20.Threaded

abbrev Key := Nat
abbrev Val := Nat

inductive TKind where
  | load
  | save (v : Val)
  | delete
deriving DecidableEq, Repr

/-- a queue entry `(fct, args, kwargs, return_dict, return_key)` -/
structure Task where
  kind  : TKind
  key   : Key
  fails : Bool      -- fault injection: the disk operation raises
deriving DecidableEq, Repr

/-- calls of the storage interface made by `DictCache` (the final `close` is implicit) -/
inductive Call where
  | load (k : Key)
  | preload (k : Key)
  | save (k : Key) (v : Val)
  | delete (k : Key)
deriving DecidableEq, Repr

inductive MErr where
  | workerDied      -- `WorkerDied` from `_test_worker_alive`
  | assertion       -- `assert key in self._loaded` / `assert key in self._waiting_for_load`
deriving DecidableEq, Repr

inductive Out where
  | ret (v : Option Val)     -- value of `load`, `none` for the other calls
  | err (e : MErr)
deriving DecidableEq, Repr

/-- where `put_task` returns to -/
inductive AfterPut where
  | loadC2 (k : Key)         -- inside `load`
  | ret                      -- `preload/save/delete`: the call returns
deriving DecidableEq, Repr

/-- where `join_tasks` returns to -/
inductive AfterJoin where
  | loadC3 (k : Key)
  | saveC (k : Key) (v : Val)
deriving DecidableEq, Repr

/-- what follows a successful `_test_worker_alive()` -/
inductive Cont where
  | toPut (t : Task) (a : AfterPut)    -- in `put_task`: next `tasks.put(task, timeout=1.)`
  | toJoin (a : AfterJoin)             -- first check of `join_tasks`: next `tasks.join()`
  | joined (a : AfterJoin)             -- second check of `join_tasks`: next return
deriving DecidableEq, Repr

/-- program counter of the main thread = its pending shared access -/
inductive MPc where
  | idle                               -- between calls (harness: entry of the next storage method)
  | loadC1 (k : Key)                   -- `key not in self._loaded` (first test of `load`)
  | loadC2 (k : Key)                   -- `if key not in self._loaded:` (→ join_tasks)
  | loadC3 (k : Key)                   -- `assert key in self._loaded`
  | loadGet (k : Key)                  -- `val = self._loaded[key]`
  | loadDel (k : Key) (v : Val)        -- `del self._loaded[key]`
  | preC (k : Key)                     -- `key in self._loaded` of `preload`
  | saveC (k : Key) (v : Val)          -- `assert key in self._loaded` of `save`
  | saveSet (k : Key) (v : Val)        -- `self._loaded[key] = value`
  | isSet (c : Cont)                   -- `self.exit.is_set()` of `_test_worker_alive`
  | isAlive (c : Cont)                 -- `self.worker_thread.is_alive()`
  | put (t : Task) (a : AfterPut)      -- `self.tasks.put(task, timeout=1.)`
  | join (a : AfterJoin)               -- `self.tasks.join()`            (blocking)
  | closeAlive                         -- `Worker.__exit__`: `self.worker_thread.is_alive()`
  | closeSetExit                       -- `self.exit.set()`
  | closeTJoin                         -- `self.worker_thread.join()`    (blocking)
  | done                               -- closed
deriving DecidableEq, Repr

/-- program counter of the worker thread (`Worker.run`) -/
inductive WPc where
  | isSet                              -- `if self.exit.is_set()`
  | get                                -- `self.tasks.get(timeout=1.)`
  | run (t : Task)                     -- `res = fct(*args, **kwargs)` (disk access)
  | setLoaded (k : Key) (v : Val)      -- `return_dict[return_key] = res`
  | taskDone (failed : Bool)           -- `self.tasks.task_done()` in the inner `finally`
  | setExit                            -- `self.exit.set()` in `except Exception`
  | empty                              -- `while not self.tasks.empty()` (outer `finally`)
  | drainGet                           -- `self.tasks.get()`             (blocking)
  | drainDone                          -- `self.tasks.task_done()`
  | dead                               -- thread terminated
deriving DecidableEq, Repr

inductive Tid where
  | main
  | worker
deriving DecidableEq, Repr

structure St where
  -- main, thread-local
  prog       : List Call
  mpc        : MPc
  waiting    : Key → Bool              -- `_waiting_for_load`
  outs       : List Out                -- results of the finished calls (most recent first)
  ntask      : Nat                     -- tasks created so far
  -- shared
  queue      : List Task
  unfinished : Nat
  exit       : Bool
  loaded     : Key → Option Val        -- `_loaded`
  disk       : Key → Option Val
  -- worker
  wpc        : WPc
  -- parameters
  maxsize    : Nat                     -- `max_queue_size` (0 = unbounded)
  failAt     : Option Nat
  -- ghost (never read by a step): the dictionary by program order, and the log of reads
  abs        : Key → Option Val
  reads      : List (Key × Val × Option Val)   -- (key, value returned, abs at that moment)

def init (prog : List Call) (maxsize : Nat) (failAt : Option Nat) : St :=
  { prog := prog, mpc := .idle, waiting := fun _ => false, outs := [], ntask := 0,
    queue := [], unfinished := 0, exit := false, loaded := fun _ => none, disk := fun _ => none,
    wpc := .isSet, maxsize := maxsize, failAt := failAt, abs := fun _ => none, reads := [] }

def full (s : St) : Bool := s.maxsize != 0 && s.maxsize ≤ s.queue.length

/-- create the task tuple for `put_task` -/
def mkTask (s : St) (kind : TKind) (k : Key) : Task := ⟨kind, k, s.failAt == some s.ntask⟩

/-- an exception propagates out of the storage call; the `with` block is left, `close` follows -/
def raise (s : St) (e : MErr) : St :=
  { s with outs := .err e :: s.outs, prog := [], mpc := .idle }

/-- the call returns `v` -/
def finish (s : St) (v : Option Val) : St :=
  { s with outs := .ret v :: s.outs, mpc := .idle }

def afterPut (s : St) : AfterPut → St
  | .loadC2 k => { s with mpc := .loadC2 k }
  | .ret => finish s none

def afterJoin (s : St) : AfterJoin → St
  | .loadC3 k => { s with mpc := .loadC3 k }
  | .saveC k v => { s with mpc := .saveC k v }

/-- effect of a task on the dictionary the storage is meant to hold -/
def applyTask (d : Key → Option Val) (t : Task) : Key → Option Val :=
  match t.kind with
  | .load => d
  | .save v => fun j => if j = t.key then some v else d j
  | .delete => fun j => if j = t.key then none else d j

/-- one step of the main thread; `none` = blocked (or finished) -/
def stepMain (s : St) : Option St :=
  match s.mpc with
  | .idle =>
    match s.prog with
    | [] => some { s with mpc := .closeAlive }                    -- `close()`: `_common_close`
    | .load k :: p => some { s with prog := p, mpc := .loadC1 k }
    | .preload k :: p =>
      if s.waiting k then some (finish { s with prog := p } none)  -- `if key in self._waiting_for_load`
      else some { s with prog := p, mpc := .preC k }
    | .save k v :: p =>
      if s.waiting k then some { s with prog := p, mpc := .isSet (.toJoin (.saveC k v)) }
      else some { s with prog := p, ntask := s.ntask + 1,
                         mpc := .isSet (.toPut (mkTask s (.save v) k) .ret) }
    | .delete k :: p =>
      some { s with prog := p, ntask := s.ntask + 1, mpc := .isSet (.toPut (mkTask s .delete k) .ret) }
  | .loadC1 k =>
    if (s.loaded k).isNone && !s.waiting k then
      some { s with waiting := fun j => if j = k then true else s.waiting j, ntask := s.ntask + 1,
                    mpc := .isSet (.toPut (mkTask s .load k) (.loadC2 k)) }
    else if s.waiting k then some { s with mpc := .loadC2 k }
    else some (raise s .assertion)                                -- `assert key in self._waiting_for_load`
  | .loadC2 k =>
    if (s.loaded k).isNone then some { s with mpc := .isSet (.toJoin (.loadC3 k)) }
    else some { s with mpc := .loadC3 k }
  | .loadC3 k =>
    if (s.loaded k).isNone then some (raise s .assertion) else some { s with mpc := .loadGet k }
  | .loadGet k =>
    match s.loaded k with
    | none => some (raise s .assertion)                            -- (KeyError; not reachable)
    | some v => some { s with waiting := fun j => if j = k then false else s.waiting j, mpc := .loadDel k v }
  | .loadDel k v =>
    some (finish { s with loaded := fun j => if j = k then none else s.loaded j,
                          reads := (k, v, s.abs k) :: s.reads } (some v))
  | .preC k =>
    if (s.loaded k).isNone then
      some { s with waiting := fun j => if j = k then true else s.waiting j, ntask := s.ntask + 1,
                    mpc := .isSet (.toPut (mkTask s .load k) .ret) }
    else some (finish s none)
  | .saveC k v =>
    if (s.loaded k).isNone then some (raise s .assertion) else some { s with mpc := .saveSet k v }
  | .saveSet k v =>
    some { s with loaded := fun j => if j = k then some v else s.loaded j, ntask := s.ntask + 1,
                  mpc := .isSet (.toPut (mkTask s (.save v) k) .ret) }
  | .isSet c => if s.exit then some (raise s .workerDied) else some { s with mpc := .isAlive c }
  | .isAlive c =>
    if s.wpc = .dead then some (raise s .workerDied)
    else match c with
      | .toPut t a => some { s with mpc := .put t a }
      | .toJoin a => some { s with mpc := .join a }
      | .joined a => some (afterJoin s a)
  | .put t a =>
    if full s then some { s with mpc := .isSet (.toPut t a) }      -- `queue.Full` after the timeout
    else some (afterPut { s with queue := s.queue ++ [t], unfinished := s.unfinished + 1,
                                 abs := applyTask s.abs t } a)
  | .join a => if s.unfinished = 0 then some { s with mpc := .isSet (.joined a) } else none
  | .closeAlive => if s.wpc = .dead then some { s with mpc := .done } else some { s with mpc := .closeSetExit }
  | .closeSetExit => some { s with exit := true, mpc := .closeTJoin }
  | .closeTJoin => if s.wpc = .dead then some { s with mpc := .done } else none
  | .done => none

/-- one step of the worker thread; `none` = blocked or terminated -/
def stepWorker (s : St) : Option St :=
  match s.wpc with
  | .isSet => if s.exit then some { s with wpc := .empty } else some { s with wpc := .get }
  | .get =>
    match s.queue with
    | [] => some { s with wpc := .isSet }                           -- `queue.Empty` after the timeout
    | t :: q => some { s with queue := q, wpc := .run t }
  | .run t =>
    if t.fails then some { s with wpc := .taskDone true }
    else match t.kind with
      | .load =>
        match s.disk t.key with
        | none => some { s with wpc := .taskDone true }             -- FileNotFoundError / KeyError
        | some v => some { s with wpc := .setLoaded t.key v }
      | _ => some { s with disk := applyTask s.disk t, wpc := .taskDone false }
  | .setLoaded k v =>
    some { s with loaded := fun j => if j = k then some v else s.loaded j, wpc := .taskDone false }
  | .taskDone f => some { s with unfinished := s.unfinished - 1, wpc := if f then .setExit else .isSet }
  | .setExit => some { s with exit := true, wpc := .empty }
  | .empty => if s.queue.isEmpty then some { s with wpc := .dead } else some { s with wpc := .drainGet }
  | .drainGet =>
    match s.queue with
    | [] => none
    | _ :: q => some { s with queue := q, wpc := .drainDone }
  | .drainDone => some { s with unfinished := s.unfinished - 1, wpc := .empty }
  | .dead => none

def step (t : Tid) (s : St) : Option St :=
  match t with
  | .main => stepMain s
  | .worker => stepWorker s

def enabled (t : Tid) (s : St) : Bool := (step t s).isSome

/-- run a schedule; a choice of a thread that is not enabled ends the run (`false`) -/
def runSched : List Tid → St → St × Bool
  | [], s => (s, true)
  | t :: ts, s =>
    match step t s with
    | none => (s, false)
    | some s' => runSched ts s'

/-- states reachable from `s0` under *some* schedule; "for every schedule" = for every `Reach` -/
inductive Reach (s0 : St) : St → Prop where
  | init : Reach s0 s0
  | step {s s' : St} (t : Tid) : Reach s0 s → step t s = some s' → Reach s0 s'

/-! ### labels (what the harness records at the same points) -/

/-- `[thread, code, args..]`; thread 0 = main, 1 = worker.  Codes:
 0 begin-call (kind: 0 load, 1 preload, 2 save, 3 delete, 4 close; key; value)
 1 loaded.contains key result   2 loaded.getitem key value   3 loaded.delitem key   4 loaded.setitem key value
 5 exit.is_set result           6 thread.is_alive result     7 tasks.put ok         8 tasks.join
 9 exit.set                     10 thread.join               11 tasks.get got       12 disk-op ok
 13 tasks.task_done             14 tasks.empty result -/
abbrev Lab := List Nat

def b2n (b : Bool) : Nat := if b then 1 else 0

def labelMain (s : St) : Lab :=
  match s.mpc with
  | .idle =>
    match s.prog with
    | [] => [0, 0, 4, 0, 0]
    | .load k :: _ => [0, 0, 0, k, 0]
    | .preload k :: _ => [0, 0, 1, k, 0]
    | .save k v :: _ => [0, 0, 2, k, v]
    | .delete k :: _ => [0, 0, 3, k, 0]
  | .loadC1 k | .loadC2 k | .loadC3 k | .preC k | .saveC k _ => [0, 1, k, b2n (s.loaded k).isSome]
  | .loadGet k => [0, 2, k, (s.loaded k).getD 0]
  | .loadDel k _ => [0, 3, k]
  | .saveSet k v => [0, 4, k, v]
  | .isSet _ => [0, 5, b2n s.exit]
  | .isAlive _ | .closeAlive => [0, 6, b2n (s.wpc != .dead)]
  | .put _ _ => [0, 7, b2n (!full s)]
  | .join _ => [0, 8]
  | .closeSetExit => [0, 9]
  | .closeTJoin => [0, 10]
  | .done => [0, 99]

def kindCode : TKind → Nat
  | .load => 0
  | .save _ => 2
  | .delete => 3

def labelWorker (s : St) : Lab :=
  match s.wpc with
  | .isSet => [1, 5, b2n s.exit]
  | .get => match s.queue with
    | [] => [1, 11, 0]
    | t :: _ => [1, 11, 1, kindCode t.kind, t.key]
  | .run t =>
    [1, 12, b2n (!t.fails && (t.kind != .load || (s.disk t.key).isSome)), kindCode t.kind, t.key]
  | .setLoaded k v => [1, 4, k, v]
  | .taskDone _ | .drainDone => [1, 13]
  | .setExit => [1, 9]
  | .empty => [1, 14, b2n s.queue.isEmpty]
  | .drainGet => match s.queue with
    | [] => [1, 11, 0]
    | t :: _ => [1, 11, 1, kindCode t.kind, t.key]
  | .dead => [1, 99]

def label (t : Tid) (s : St) : Lab :=
  match t with
  | .main => labelMain s
  | .worker => labelWorker s

/-- run a schedule and record, per step, the label and which threads were enabled before it;
stops at the first choice that is not enabled (last component `false`) -/
def trace : List Tid → St → List (Lab × Bool × Bool) → St × List (Lab × Bool × Bool) × Bool
  | [], s, acc => (s, acc.reverse, true)
  | t :: ts, s, acc =>
    match step t s with
    | none => (s, acc.reverse, false)
    | some s' => trace ts s' ((label t s, enabled .main s, enabled .worker s) :: acc)

end TenpyModel.C20.Threaded
