import TenpyModel.C20.ThreadedProofs
/-! `InvA` is preserved by the steps of the main thread: alive checks, `put`, `join`, `close` (part 2). -/
set_option linter.unusedSimpArgs false
set_option linter.unusedVariables false
namespace TenpyModel.C20.Threaded
theorem invA_main_isSet (s s' : St) (h : InvA s) (c : Cont) (hm : s.mpc = .isSet c)
    (hs : stepMain s = some s') : InvA s' := by
  obtain ⟨hunf, hi4, hf, hn, hsr, hd, hw, hp, hl, hld, hr, hpl, hsw, hpc, hz⟩ := h
  have hnil := infl_nil s hunf
  cases c with
  | toPut t a => cases a <;> (simp only [hm] at hi4 hsr hp hl hld hpl hsw hz hpc; main_pc hs hm; all_goals (refine { unf := hunf, n := hn, d := hd, w := hw, i4 := ?_, f := ?_, sr := ?_, p := ?_, l := ?_, ld := ?_, r := ?_, pl := ?_, sw := ?_, pc := ?_, z := ?_ } <;> clear hn hd hw <;> fld))
  | toJoin a => cases a <;> (simp only [hm] at hi4 hsr hp hl hld hpl hsw hz hpc; main_pc hs hm; all_goals (refine { unf := hunf, n := hn, d := hd, w := hw, i4 := ?_, f := ?_, sr := ?_, p := ?_, l := ?_, ld := ?_, r := ?_, pl := ?_, sw := ?_, pc := ?_, z := ?_ } <;> clear hn hd hw <;> fld))
  | joined a => cases a <;> (simp only [hm] at hi4 hsr hp hl hld hpl hsw hz hpc; main_pc hs hm; all_goals (refine { unf := hunf, n := hn, d := hd, w := hw, i4 := ?_, f := ?_, sr := ?_, p := ?_, l := ?_, ld := ?_, r := ?_, pl := ?_, sw := ?_, pc := ?_, z := ?_ } <;> clear hn hd hw <;> fld))

theorem invA_main_isAlive (s s' : St) (h : InvA s) (c : Cont) (hm : s.mpc = .isAlive c)
    (hs : stepMain s = some s') : InvA s' := by
  obtain ⟨hunf, hi4, hf, hn, hsr, hd, hw, hp, hl, hld, hr, hpl, hsw, hpc, hz⟩ := h
  have hnil := infl_nil s hunf
  cases c with
  | toPut t a => cases a <;> (simp only [hm] at hi4 hsr hp hl hld hpl hsw hz hpc; main_pc hs hm; all_goals (refine { unf := hunf, n := hn, d := hd, w := hw, i4 := ?_, f := ?_, sr := ?_, p := ?_, l := ?_, ld := ?_, r := ?_, pl := ?_, sw := ?_, pc := ?_, z := ?_ } <;> clear hn hd hw <;> fld))
  | toJoin a => cases a <;> (simp only [hm] at hi4 hsr hp hl hld hpl hsw hz hpc; main_pc hs hm; all_goals (refine { unf := hunf, n := hn, d := hd, w := hw, i4 := ?_, f := ?_, sr := ?_, p := ?_, l := ?_, ld := ?_, r := ?_, pl := ?_, sw := ?_, pc := ?_, z := ?_ } <;> clear hn hd hw <;> fld))
  | joined a => cases a <;> (simp only [hm] at hi4 hsr hp hl hld hpl hsw hz hpc; main_pc hs hm; all_goals (refine { unf := hunf, n := hn, d := hd, w := hw, i4 := ?_, f := ?_, sr := ?_, p := ?_, l := ?_, ld := ?_, r := ?_, pl := ?_, sw := ?_, pc := ?_, z := ?_ } <;> clear hn hd hw <;> fld))

theorem invA_main_join (s s' : St) (h : InvA s) (a : AfterJoin) (hm : s.mpc = .join a)
    (hs : stepMain s = some s') : InvA s' := by
  obtain ⟨hunf, hi4, hf, hn, hsr, hd, hw, hp, hl, hld, hr, hpl, hsw, hpc, hz⟩ := h
  have hnil := infl_nil s hunf
  cases a <;> (simp only [hm] at hi4 hsr hp hl hld hpl hsw hz hpc; main_pc hs hm; all_goals (refine { unf := hunf, n := hn, d := hd, w := hw, i4 := ?_, f := ?_, sr := ?_, p := ?_, l := ?_, ld := ?_, r := ?_, pl := ?_, sw := ?_, pc := ?_, z := ?_ } <;> clear hn hd hw <;> fld))

theorem invA_main_closeAlive (s s' : St) (h : InvA s) (hm : s.mpc = .closeAlive)
    (hs : stepMain s = some s') : InvA s' := by
  obtain ⟨hunf, hi4, hf, hn, hsr, hd, hw, hp, hl, hld, hr, hpl, hsw, hpc, hz⟩ := h
  have hnil := infl_nil s hunf
  (simp only [hm] at hi4 hsr hp hl hld hpl hsw hz hpc; main_pc hs hm; all_goals (refine { unf := hunf, n := hn, d := hd, w := hw, i4 := ?_, f := ?_, sr := ?_, p := ?_, l := ?_, ld := ?_, r := ?_, pl := ?_, sw := ?_, pc := ?_, z := ?_ } <;> clear hn hd hw <;> fld))

theorem invA_main_closeSetExit (s s' : St) (h : InvA s) (hm : s.mpc = .closeSetExit)
    (hs : stepMain s = some s') : InvA s' := by
  obtain ⟨hunf, hi4, hf, hn, hsr, hd, hw, hp, hl, hld, hr, hpl, hsw, hpc, hz⟩ := h
  have hnil := infl_nil s hunf
  (simp only [hm] at hi4 hsr hp hl hld hpl hsw hz hpc; main_pc hs hm; all_goals (refine { unf := hunf, n := hn, d := hd, w := hw, i4 := ?_, f := ?_, sr := ?_, p := ?_, l := ?_, ld := ?_, r := ?_, pl := ?_, sw := ?_, pc := ?_, z := ?_ } <;> clear hn hd hw <;> fld))

theorem invA_main_closeTJoin (s s' : St) (h : InvA s) (hm : s.mpc = .closeTJoin)
    (hs : stepMain s = some s') : InvA s' := by
  obtain ⟨hunf, hi4, hf, hn, hsr, hd, hw, hp, hl, hld, hr, hpl, hsw, hpc, hz⟩ := h
  have hnil := infl_nil s hunf
  (simp only [hm] at hi4 hsr hp hl hld hpl hsw hz hpc; main_pc hs hm; all_goals (refine { unf := hunf, n := hn, d := hd, w := hw, i4 := ?_, f := ?_, sr := ?_, p := ?_, l := ?_, ld := ?_, r := ?_, pl := ?_, sw := ?_, pc := ?_, z := ?_ } <;> clear hn hd hw <;> fld))

theorem invA_main_done (s s' : St) (h : InvA s) (hm : s.mpc = .done)
    (hs : stepMain s = some s') : InvA s' := by
  obtain ⟨hunf, hi4, hf, hn, hsr, hd, hw, hp, hl, hld, hr, hpl, hsw, hpc, hz⟩ := h
  have hnil := infl_nil s hunf
  (simp only [hm] at hi4 hsr hp hl hld hpl hsw hz hpc; main_pc hs hm; all_goals (refine { unf := hunf, n := hn, d := hd, w := hw, i4 := ?_, f := ?_, sr := ?_, p := ?_, l := ?_, ld := ?_, r := ?_, pl := ?_, sw := ?_, pc := ?_, z := ?_ } <;> clear hn hd hw <;> fld))

theorem pairwise_put (h q : List Task) (t : Task) (hp : (h ++ q).Pairwise LoadThenOnlyDelete)
    (hR : ∀ x ∈ h ++ q, LoadThenOnlyDelete x t) : (h ++ (q ++ [t])).Pairwise LoadThenOnlyDelete := by
  rw [← List.append_assoc]
  exact List.pairwise_append.2 ⟨hp, List.pairwise_singleton _ _, fun a ha b hb => by
    simp only [List.mem_singleton] at hb; subst hb; exact hR a ha⟩

theorem applyTask_congr (f g : Key → Option Val) (t : Task) (k : Key) (h : f k = g k) :
    applyTask f t k = applyTask g t k := by
  unfold applyTask; cases t.kind <;> simp [h]

theorem overlay_put (d : Key → Option Val) (p q : List Task) (t : Task) (abs : Key → Option Val)
    (h : ∀ k, overlay d (p ++ q) k = abs k) (k : Key) :
    overlay d (p ++ (q ++ [t])) k = applyTask abs t k := by
  rw [← List.append_assoc, overlay_append]
  exact applyTask_congr _ _ _ _ (h k)

theorem invA_main_put (s s' : St) (h : InvA s) (t : Task) (a : AfterPut) (hm : s.mpc = .put t a)
    (hs : stepMain s = some s') : InvA s' := by
  obtain ⟨hunf, hi4, hf, hn, hsr, hd, hw, hp, hl, hld, hr, hpl, hsw, hpc, hz⟩ := h
  simp only [hm] at hi4 hsr hp hl hld hpl hsw hz hpc
  have hR : ∀ x ∈ infl s, LoadThenOnlyDelete x t := by
    intro x hx hxl hk
    have h1 := hpl t (by simp [putPending])
    have h2 := hsr t.key
    simp only [saveRegion] at h2
    cases hk' : t.kind with
    | load => exact absurd hk.symm ((h1 hk').2.2 x hx hxl)
    | save v => exact absurd hk.symm (h2 ⟨⟨v, hk'⟩, trivial⟩ x hx hxl)
    | delete => rfl
  cases a with
  | ret =>
    main_pc hs hm
    · refine { unf := hunf, n := hn, d := hd, w := hw, i4 := ?_, f := ?_, sr := ?_, p := ?_, l := ?_, ld := ?_, r := ?_, pl := ?_, sw := ?_, pc := ?_, z := ?_ } <;> clear hn hd hw <;> fld
    · refine { unf := ?unf, n := ?n, d := ?d, w := ?w, i4 := ?_, f := ?_, sr := ?_, p := ?_, l := ?l, ld := ?_, r := ?_, pl := ?_, sw := ?_, pc := ?_, z := ?_ }
      case unf => simp only [List.length_append, List.length_singleton]; omega
      case n => exact pairwise_put _ _ _ hn hR
      case d => intro hh k; exact overlay_put _ _ _ _ _ (hd hh) k
      case w =>
        intro k v hwk0 a ha0
        have hwk : s.wpc = .setLoaded k v := hwk0
        have ha : applyTask s.abs t k = some a := ha0
        have hin : (⟨.load, k, false⟩ : Task) ∈ infl s := by simp [infl, held, hwk]
        have h2 := hsr k
        simp only [saveRegion] at h2
        simp only [applyTask] at ha
        cases hk' : t.kind with
        | load => simp only [hk'] at ha; exact hw k v hwk a ha
        | save v' =>
          simp only [hk'] at ha
          by_cases hkk : k = t.key
          · exact absurd rfl (h2 ⟨⟨v', hk'⟩, hkk.symm⟩ _ hin rfl)
          · simp only [hkk, if_false] at ha; exact hw k v hwk a ha
        | delete =>
          simp only [hk'] at ha
          by_cases hkk : k = t.key
          · simp [hkk] at ha
          · simp only [hkk, if_false] at ha; exact hw k v hwk a ha
      case l =>
        intro hne k v hlk0 _ a ha0
        have ha : applyTask s.abs t k = some a := ha0
        have hlk : s.loaded k = some v := hlk0
        have hne' : ¬ hasErr s := by
          intro ⟨e, he⟩; exact hne ⟨e, List.mem_cons_of_mem _ he⟩
        have hp' := hp t (by simp [putPending])
        have hl' := hl hne' k v hlk
        simp only [putPending] at hl'
        simp only [applyTask] at ha
        cases hk' : t.kind with
        | load => simp only [hk'] at ha; exact hl' (by intro t1 e; cases e; simp [hk']) a ha
        | save v' =>
          simp only [hk'] at ha
          by_cases hkk : k = t.key
          · simp only [hkk, if_true, Option.some.injEq] at ha
            rw [hkk] at hlk
            rcases hp' v' hk' with h0 | h0
            · rw [h0] at hlk; cases hlk
            · rw [h0] at hlk; cases hlk; exact ha.symm
          · simp only [hkk, if_false] at ha
            exact hl' (by intro t1 e; cases e; intro hh; exact hkk hh.2.symm) a ha
        | delete =>
          simp only [hk'] at ha
          by_cases hkk : k = t.key
          · simp [hkk] at ha
          · simp only [hkk, if_false] at ha
            exact hl' (by intro t1 e; cases e; simp [hk']) a ha
      all_goals (clear hn hd hw; simp only [infl, hasErr, putPending, saveRegion, saveJoinPath, mkTask, loadDelKey, Option.isNone_iff_eq_none, applyTask] at *; grind)
  | loadC2 k2 =>
    main_pc hs hm
    · refine { unf := hunf, n := hn, d := hd, w := hw, i4 := ?_, f := ?_, sr := ?_, p := ?_, l := ?_, ld := ?_, r := ?_, pl := ?_, sw := ?_, pc := ?_, z := ?_ } <;> clear hn hd hw <;> fld
    · refine { unf := ?unf, n := ?n, d := ?d, w := ?w, i4 := ?_, f := ?_, sr := ?_, p := ?_, l := ?l, ld := ?_, r := ?_, pl := ?_, sw := ?_, pc := ?_, z := ?_ }
      case unf => simp only [List.length_append, List.length_singleton]; omega
      case n => exact pairwise_put _ _ _ hn hR
      case d => intro hh k; exact overlay_put _ _ _ _ _ (hd hh) k
      case w =>
        intro k v hwk0 a ha0
        have hwk : s.wpc = .setLoaded k v := hwk0
        have ha : applyTask s.abs t k = some a := ha0
        have hin : (⟨.load, k, false⟩ : Task) ∈ infl s := by simp [infl, held, hwk]
        have h2 := hsr k
        simp only [saveRegion] at h2
        simp only [applyTask] at ha
        cases hk' : t.kind with
        | load => simp only [hk'] at ha; exact hw k v hwk a ha
        | save v' =>
          simp only [hk'] at ha
          by_cases hkk : k = t.key
          · exact absurd rfl (h2 ⟨⟨v', hk'⟩, hkk.symm⟩ _ hin rfl)
          · simp only [hkk, if_false] at ha; exact hw k v hwk a ha
        | delete =>
          simp only [hk'] at ha
          by_cases hkk : k = t.key
          · simp [hkk] at ha
          · simp only [hkk, if_false] at ha; exact hw k v hwk a ha
      case l =>
        intro hne k v hlk0 _ a ha0
        have ha : applyTask s.abs t k = some a := ha0
        have hlk : s.loaded k = some v := hlk0
        have hne' : ¬ hasErr s := by
          intro ⟨e, he⟩; exact hne ⟨e, he⟩
        have hp' := hp t (by simp [putPending])
        have hl' := hl hne' k v hlk
        simp only [putPending] at hl'
        simp only [applyTask] at ha
        cases hk' : t.kind with
        | load => simp only [hk'] at ha; exact hl' (by intro t1 e; cases e; simp [hk']) a ha
        | save v' =>
          simp only [hk'] at ha
          by_cases hkk : k = t.key
          · simp only [hkk, if_true, Option.some.injEq] at ha
            rw [hkk] at hlk
            rcases hp' v' hk' with h0 | h0
            · rw [h0] at hlk; cases hlk
            · rw [h0] at hlk; cases hlk; exact ha.symm
          · simp only [hkk, if_false] at ha
            exact hl' (by intro t1 e; cases e; intro hh; exact hkk hh.2.symm) a ha
        | delete =>
          simp only [hk'] at ha
          by_cases hkk : k = t.key
          · simp [hkk] at ha
          · simp only [hkk, if_false] at ha
            exact hl' (by intro t1 e; cases e; simp [hk']) a ha
      all_goals (clear hn hd hw; simp only [infl, hasErr, putPending, saveRegion, saveJoinPath, mkTask, loadDelKey, Option.isNone_iff_eq_none, applyTask] at *; grind)


end TenpyModel.C20.Threaded
