/-
Executable model of `tenpy/tools/events.py :: EventHandler` (import-free).

A callback is abstracted to a natural number (its identity); what `emit` observes is the order in
which callbacks are called.  `extra_kwargs` are carried along with the callback and are part of
its identity in the harness.
-/
namespace TenpyModel.C20.Events

structure Listener where
  id   : Nat
  cb   : Nat
  prio : Int
deriving Repr, DecidableEq

structure EH where
  listeners : List Listener
  counter   : Nat
deriving Repr

def init : EH := { listeners := [], counter := 0 }

/-- `EventHandler.connect`: append `Listener(self._id_counter, cb, prio)`, bump the counter. -/
def connect (h : EH) (cb : Nat) (prio : Int) : EH :=
  { listeners := h.listeners ++ [⟨h.counter, cb, prio⟩], counter := h.counter + 1 }

/-- first-match deletion, `for i, l in enumerate(listeners): if l.listener_id == lid: del; return` -/
def eraseFirstId (lid : Nat) : List Listener → List Listener
  | [] => []
  | l :: ls => if l.id = lid then ls else l :: eraseFirstId lid ls

/-- `EventHandler.disconnect`; the Bool is "a warning was emitted (no such id)". -/
def disconnect (h : EH) (lid : Nat) : EH × Bool :=
  if h.listeners.any (fun l => l.id = lid) then
    ({ h with listeners := eraseFirstId lid h.listeners }, false)
  else (h, true)

/-- insertion step of a stable sort by descending priority: `x` (which precedes all of the list in
the original order) goes in front of the first element whose priority is not larger. -/
def insertByPrio (x : Listener) : List Listener → List Listener
  | [] => [x]
  | y :: ys => if x.prio ≥ y.prio then x :: y :: ys else y :: insertByPrio x ys

/-- Python's `sorted(listeners, key=lambda l: -l.priority)` (stable). -/
def sortByPrio : List Listener → List Listener
  | [] => []
  | x :: xs => insertByPrio x (sortByPrio xs)

/-- `_prepare_emit` -/
def prepareEmit (h : EH) : EH := { h with listeners := sortByPrio h.listeners }

/-- `emit`: returns the new handler and the callbacks in call order. -/
def emit (h : EH) : EH × List Nat :=
  let h' := prepareEmit h
  (h', h'.listeners.map (·.cb))

/-- `emit_until_result` where `res cb = true` iff callback `cb` returns something not None. -/
def emitUntil (h : EH) (res : Nat → Bool) : EH × List Nat :=
  let h' := prepareEmit h
  let rec go : List Listener → List Nat
    | [] => []
    | l :: ls => if res l.cb then [l.cb] else l.cb :: go ls
  (h', go h'.listeners)

inductive Op where
  | connect (cb : Nat) (prio : Int)
  | disconnect (lid : Nat)
  | emit
  | emitUntil (stopAt : List Nat)   -- callbacks that return a result
deriving Repr

inductive Out where
  | unit
  | warned (w : Bool)
  | called (cbs : List Nat)
deriving Repr, DecidableEq

def step (h : EH) : Op → EH × Out
  | .connect cb p => (connect h cb p, .unit)
  | .disconnect lid => let r := disconnect h lid; (r.1, .warned r.2)
  | .emit => let r := emit h; (r.1, .called r.2)
  | .emitUntil s => let r := emitUntil h (fun c => s.contains c); (r.1, .called r.2)

def run : EH → List Op → EH × List Out
  | h, [] => (h, [])
  | h, op :: ops =>
    let r := step h op
    let rs := run r.1 ops
    (rs.1, r.2 :: rs.2)

end TenpyModel.C20.Events
