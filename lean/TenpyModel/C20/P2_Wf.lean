import TenpyModel.C20.P2_NoErrDefs
/-! The executable well-formedness check `wfProg` is equivalent to its declarative reading. -/
set_option linter.unusedSimpArgs false
set_option linter.unusedVariables false
namespace TenpyModel.C20.Threaded

/-- the `i`-th call of the program reads key `k` -/
def ReadsAt (p : List Call) (i : Nat) (k : Key) : Prop := p[i]? = some (.load k) ∨ p[i]? = some (.preload k)

/-- the read at position `i` is served: a `save k` precedes it with no `delete k` in between (or
the initial key set `h` holds `k` and no `delete k` precedes) -/
def Served (h : Key → Bool) (p : List Call) (i : Nat) (k : Key) : Prop :=
  (h k = true ∧ ∀ m, m < i → p[m]? ≠ some (.delete k)) ∨
  ∃ j v, j < i ∧ p[j]? = some (.save k v) ∧ ∀ m, j < m → m < i → p[m]? ≠ some (.delete k)

def upd (h : Key → Bool) : Call → Key → Bool
  | .save k _ => fun j => if j = k then true else h j
  | .delete k => fun j => if j = k then false else h j
  | _ => h

theorem wfProg_cons (h : Key → Bool) (c : Call) (p : List Call) :
    wfProg h (c :: p) = ((match c with | .load k | .preload k => h k | _ => true) && wfProg (upd h c) p) := by
  cases c <;> simp [wfProg, upd]

theorem served_succ (h : Key → Bool) (c : Call) (p : List Call) (i : Nat) (k : Key) :
    Served h (c :: p) (i + 1) k ↔ Served (upd h c) p i k := by
  constructor
  · rintro (⟨hk, hnd⟩ | ⟨j, v, hj, hsv, hnd⟩)
    · left
      have h0 := hnd 0 (by omega)
      refine ⟨?_, fun m hm => by simpa using hnd (m + 1) (by omega)⟩
      simp only [List.getElem?_cons_zero, ne_eq, Option.some.injEq] at h0
      cases c <;> simp_all [upd]
      all_goals grind
    · cases j with
      | zero =>
        left
        simp only [List.getElem?_cons_zero, Option.some.injEq] at hsv
        subst hsv
        refine ⟨by simp [upd], fun m hm => by simpa using hnd (m + 1) (by omega) (by omega)⟩
      | succ j =>
        right
        refine ⟨j, v, by omega, by simpa using hsv, fun m h1 h2 => by simpa using hnd (m + 1) (by omega) (by omega)⟩
  · rintro (⟨hk, hnd⟩ | ⟨j, v, hj, hsv, hnd⟩)
    · by_cases hs : ∃ v, c = .save k v
      · obtain ⟨v, rfl⟩ := hs
        right
        refine ⟨0, v, by omega, by simp, fun m h1 h2 => ?_⟩
        obtain ⟨m', rfl⟩ : ∃ m', m = m' + 1 := ⟨m - 1, by omega⟩
        simpa using hnd m' (by omega)
      · left
        have hc : c ≠ .delete k := by
          rintro rfl; simp [upd] at hk
        refine ⟨?_, fun m hm => ?_⟩
        · cases c <;> simp_all [upd]
          all_goals grind
        · cases m with
          | zero => simpa using hc
          | succ m => simpa using hnd m (by omega)
    · right
      refine ⟨j + 1, v, by omega, by simpa using hsv, fun m h1 h2 => ?_⟩
      obtain ⟨m', rfl⟩ : ∃ m', m = m' + 1 := ⟨m - 1, by omega⟩
      simpa using hnd m' (by omega) (by omega)

theorem wfProg_iff (p : List Call) (h : Key → Bool) :
    wfProg h p = true ↔ ∀ i k, ReadsAt p i k → Served h p i k := by
  induction p generalizing h with
  | nil => simp [wfProg, ReadsAt]
  | cons c p ih =>
    rw [wfProg_cons, Bool.and_eq_true, ih]
    constructor
    · rintro ⟨h0, hr⟩ i k hread
      cases i with
      | zero =>
        left
        refine ⟨?_, fun m hm => absurd hm (by omega)⟩
        simp only [ReadsAt, List.getElem?_cons_zero, Option.some.injEq] at hread
        rcases hread with rfl | rfl <;> simpa using h0
      | succ i =>
        rw [served_succ]
        exact hr i k (by simpa [ReadsAt] using hread)
    · intro hall
      refine ⟨?_, fun i k hread => ?_⟩
      · cases c with
        | load k =>
          rcases hall 0 k (by simp [ReadsAt]) with ⟨hk, _⟩ | ⟨j, _, hj, _⟩
          · simpa using hk
          · omega
        | preload k =>
          rcases hall 0 k (by simp [ReadsAt]) with ⟨hk, _⟩ | ⟨j, _, hj, _⟩
          · simpa using hk
          · omega
        | save k v => rfl
        | delete k => rfl
      · rw [← served_succ]
        exact hall (i + 1) k (by simpa [ReadsAt] using hread)

end TenpyModel.C20.Threaded
