import TenpyModel.C20.EventsProofs
/-!
# C20 (events part) — property theorems

"Event handlers call exactly the currently connected listeners in priority order, and
disconnecting removes exactly the named listener" — for **every** finite history of
connect / disconnect / emit / emit_until_result.

The specification `specActive` is the simplest possible one: the list of listeners connected so
far and not disconnected, in connection order, ids counted from 0.  It never sorts.
-/
open TenpyModel.C20.Events

namespace TenpyModel.C20.Events

/-- Abstract specification state: active listeners in connection order + number of connects. -/
def specStep (s : List Listener × Nat) : Op → List Listener × Nat
  | .connect cb p => (s.1 ++ [⟨s.2, cb, p⟩], s.2 + 1)
  | .disconnect lid => (s.1.filter (fun x => x.id ≠ lid), s.2)
  | .emit => s
  | .emitUntil _ => s

def specRun (ops : List Op) : List Listener × Nat := ops.foldl specStep ([], 0)

/-- Representation invariant of the implementation state w.r.t. the spec state. -/
structure Inv (h : EH) (s : List Listener × Nat) : Prop where
  perm    : h.listeners.Perm s.1
  counter : h.counter = s.2
  fresh   : ∀ l ∈ s.1, l.id < s.2
  nodup   : h.listeners.Pairwise (fun a b => a.id ≠ b.id)
  ties    : h.listeners.Pairwise (fun a b => a.prio = b.prio → a.id < b.id)

theorem inv_init : Inv init ([], 0) :=
  ⟨List.Perm.refl _, rfl, by simp, by simp [init], by simp [init]⟩

theorem inv_step (h : EH) (s : List Listener × Nat) (hi : Inv h s) (op : Op) :
    Inv (step h op).1 (specStep s op) := by
  obtain ⟨hp, hc, hf, hn, ht⟩ := hi
  have hlt : ∀ l ∈ h.listeners, l.id < h.counter := fun l hl => hc ▸ hf l (hp.mem_iff.1 hl)
  cases op with
  | connect cb p =>
    refine ⟨?_, ?_, ?_, ?_, ?_⟩
    · simp only [step, connect, specStep, hc]; exact List.Perm.append_right _ hp
    · simp [step, connect, specStep, hc]
    · intro l hl
      simp only [specStep, List.mem_append, List.mem_singleton] at hl
      rcases hl with hl | rfl
      · exact Nat.lt_succ_of_lt (hf l hl)
      · exact Nat.lt_succ_self _
    · simp only [step, connect]
      refine List.pairwise_append.2 ⟨hn, by simp, ?_⟩
      intro a ha b hb
      simp only [List.mem_singleton] at hb
      subst hb
      exact Nat.ne_of_lt (hlt a ha)
    · simp only [step, connect]
      refine List.pairwise_append.2 ⟨ht, by simp, ?_⟩
      intro a ha b hb
      simp only [List.mem_singleton] at hb
      subst hb
      intro _
      exact hlt a ha
  | disconnect lid =>
    have key : (step h (.disconnect lid)).1.listeners = h.listeners.filter (fun x => x.id ≠ lid) := by
      simp only [step, disconnect]
      split
      · exact eraseFirstId_eq_filter lid _ hn
      next hno =>
        symm
        apply List.filter_eq_self.2
        intro a ha
        simp only [List.any_eq_true, decide_eq_true_eq, not_exists, not_and] at hno
        simpa using hno a ha
    have hcnt : (step h (.disconnect lid)).1.counter = h.counter := by
      simp only [step, disconnect]; split <;> rfl
    refine ⟨?_, ?_, ?_, ?_, ?_⟩
    · rw [key]; exact hp.filter _
    · rw [hcnt]; exact hc
    · intro l hl; exact hf l (List.mem_filter.1 hl).1
    · rw [key]; exact hn.sublist List.filter_sublist
    · rw [key]; exact ht.sublist List.filter_sublist
  | emit =>
    refine ⟨(sortByPrio_perm _).trans hp, hc, hf, ?_, ?_⟩
    · exact (sortByPrio_perm h.listeners).symm.pairwise hn (fun {a b} h => h.symm)
    · exact (sortByPrio_before _ ht).imp (fun {a b} hb he => by rcases hb with hb | hb <;> omega)
  | emitUntil st =>
    refine ⟨(sortByPrio_perm _).trans hp, hc, hf, ?_, ?_⟩
    · exact (sortByPrio_perm h.listeners).symm.pairwise hn (fun {a b} h => h.symm)
    · exact (sortByPrio_before _ ht).imp (fun {a b} hb he => by rcases hb with hb | hb <;> omega)

theorem run_fst_eq_foldl (h : EH) (ops : List Op) :
    (run h ops).1 = ops.foldl (fun h op => (step h op).1) h := by
  induction ops generalizing h with
  | nil => rfl
  | cons op ops ih => simp [run, ih]

theorem inv_run (ops : List Op) : Inv (run init ops).1 (specRun ops) := by
  rw [run_fst_eq_foldl]
  unfold specRun
  suffices ∀ (h : EH) s, Inv h s →
      Inv (ops.foldl (fun h op => (step h op).1) h) (ops.foldl specStep s) from this _ _ inv_init
  induction ops with
  | nil => intro h s hi; exact hi
  | cons op ops ih => intro h s hi; exact ih _ _ (inv_step h s hi op)

end TenpyModel.C20.Events

/-- **Exactness and order of `emit`, every history.**  After any finite history of
connect/disconnect/emit calls, `emit` calls the callbacks of a list `L` that is a permutation of
the listeners connected and not disconnected (`specRun`), ordered by descending priority with
ties in connection order.  Such an `L` is unique (`before_unique`), so this determines the call
sequence completely. -/
theorem C20_events_emit_exact_ordered (ops : List Op) :
    ∃ L : List Listener, (emit (run init ops).1).2 = L.map (·.cb) ∧
      L.Perm (specRun ops).1 ∧ L.Pairwise Before := by
  have hi := inv_run ops
  exact ⟨sortByPrio (run init ops).1.listeners, rfl, (sortByPrio_perm _).trans hi.perm,
    sortByPrio_before _ hi.ties⟩

/-- **`disconnect` removes exactly the named listener** (every history): the remaining listeners
are those of the specification with that id filtered out; the relative order of the others is
untouched, and a warning is issued iff no such listener is connected. -/
theorem C20_events_disconnect_exact (ops : List Op) (lid : Nat) :
    let h := (run init ops).1
    (disconnect h lid).1.listeners = h.listeners.filter (fun x => x.id ≠ lid) ∧
    ((disconnect h lid).2 = true ↔ ∀ l ∈ (specRun ops).1, l.id ≠ lid) := by
  have hi := inv_run ops
  refine ⟨?_, ?_⟩
  · simp only [disconnect]
    split
    · exact eraseFirstId_eq_filter lid _ hi.nodup
    next hno =>
      symm
      apply List.filter_eq_self.2
      intro a ha
      simp only [List.any_eq_true, decide_eq_true_eq, not_exists, not_and] at hno
      simpa using hno a ha
  · simp only [disconnect]
    split
    next hany =>
      simp only [List.any_eq_true, decide_eq_true_eq] at hany
      obtain ⟨l, hl, hid⟩ := hany
      constructor
      · intro h; cases h
      · intro h; exact absurd hid (h l (hi.perm.mem_iff.1 hl))
    next hno =>
      simp only [List.any_eq_true, decide_eq_true_eq, not_exists, not_and] at hno
      constructor
      · intro _ l hl; exact hno l (hi.perm.mem_iff.2 hl)
      · intro _; rfl

/-- ids handed out by `connect` are never reused, so a listener id names at most one listener. -/
theorem C20_events_ids_unique (ops : List Op) :
    (run init ops).1.listeners.Pairwise (fun a b => a.id ≠ b.id) := (inv_run ops).nodup

/-- `emit` is idempotent on the handler state: a second emit right after an emit calls the same
callbacks in the same order (re-sorting a sorted list does nothing). -/
theorem C20_events_emit_stable (ops : List Op) :
    let h := (run init ops).1
    (emit (emit h).1).2 = (emit h).2 := by
  have hi := inv_run ops
  simp only [emit, prepareEmit]
  rw [sortByPrio_of_before _ (sortByPrio_before _ hi.ties)]

/-- `emit_until_result` calls a prefix of what `emit` would call and stops right after the first
callback that returns a result. -/
theorem C20_events_emit_until_prefix (h : EH) (res : Nat → Bool) :
    (emitUntil h res).2 <+: (emit h).2 ∧
    (∀ c ∈ (emitUntil h res).2.dropLast, res c = false) := by
  simp only [emitUntil, emit]
  generalize (prepareEmit h).listeners = ls
  induction ls with
  | nil => simp [emitUntil.go]
  | cons l ls ih =>
    unfold emitUntil.go
    split
    next hr => simp
    next hr =>
      refine ⟨by simpa using ih.1, ?_⟩
      intro c hc
      cases hgo : emitUntil.go res ls with
      | nil => simp [hgo] at hc
      | cons g gs =>
        rw [hgo, List.dropLast_cons_cons] at hc
        rcases List.mem_cons.1 hc with rfl | hc'
        · simpa using hr
        · exact ih.2 c (by rw [hgo]; exact hc')

/-- Non-vacuity: a concrete history with a tie, a disconnect in the middle and two emits. -/
example :
    (run init [.connect 10 0, .connect 11 5, .connect 12 0, .emit, .disconnect 1, .connect 13 0,
               .emit]).2
      = [.unit, .unit, .unit, .called [11, 10, 12], .warned false, .unit, .called [10, 12, 13]] := by
  decide
