import TenpyModel.C20.P2_NoErrMainC
/-! `InvN` is preserved by every step of the worker thread. -/
set_option linter.unusedSimpArgs false
set_option linter.unusedVariables false
namespace TenpyModel.C20.Threaded

macro "wnfld" : tactic => `(tactic| (
  simp only [infl, pend, held, wOk, loadsOk, healthy,
    List.nil_append, List.cons_append, List.singleton_append, List.mem_cons] at * <;> grind))

/-- the fields of `InvN` that a worker step can affect -/
structure InvNW (s : St) : Prop where
  ex  : s.exit = true → s.mpc = .closeTJoin ∨ s.mpc = .done
  wk  : wOk s
  tfq : ∀ t ∈ s.queue, t.fails = false
  tfr : ∀ t, s.wpc = .run t → t.fails = false
  lo  : healthy s.wpc = true → loadsOk s.disk (pend s)
  wl  : s.exit = false → ∀ k, s.waiting k = true → s.loaded k ≠ none ∨ (∃ t ∈ infl s, t.kind = .load ∧ t.key = k) ∨
          (∃ t, putPending s.mpc = some t ∧ t.kind = .load ∧ t.key = k)
  ln  : ∀ k, needLoaded s.mpc k → s.loaded k ≠ none

theorem invNW_stepWorker (s s' : St) (h : InvNW s) (hs : stepWorker s = some s') : InvNW s' := by
  obtain ⟨ex, wk, tfq, tfr, lo, wl, ln⟩ := h
  generalize hpp : putPending s.mpc = pp at *
  cases hwp : s.wpc with
  | run t =>
    simp only [stepWorker, hwp] at hs
    have hff := tfr t hwp
    simp only [hff, Bool.false_eq_true, if_false] at hs
    simp only [pend, hwp, List.singleton_append, loadsOk, healthy, true_implies] at lo
    simp only [wOk, hwp] at wk
    simp only [infl, held, hwp] at wl
    obtain ⟨lo1, lo2⟩ := lo
    cases hk : t.kind with
    | load =>
      simp only [hk] at hs
      rw [applyTask_load _ _ hk] at lo2
      cases hdk : s.disk t.key with
      | none => exact absurd hdk (lo1 hk)
      | some v =>
        simp only [hdk, Option.some.injEq] at hs; subst hs
        have eta := task_eta t hk hff
        refine { ex := ?_, wk := ?_, tfq := ?_, tfr := ?_, lo := ?_, wl := ?_, ln := ?_ } <;> wnfld
    | save v =>
      simp only [hk] at hs lo2; simp only [Option.some.injEq] at hs; subst hs
      refine { ex := ?_, wk := ?_, tfq := ?_, tfr := ?_, lo := ?_, wl := ?_, ln := ?_ } <;> wnfld
    | delete =>
      simp only [hk] at hs lo2; simp only [Option.some.injEq] at hs; subst hs
      refine { ex := ?_, wk := ?_, tfq := ?_, tfr := ?_, lo := ?_, wl := ?_, ln := ?_ } <;> wnfld
  | get =>
    simp only [stepWorker, hwp] at hs
    simp only [wOk, hwp] at wk
    simp only [pend, infl, held, healthy, hwp] at lo wl tfr
    cases hq : s.queue with
    | nil =>
      simp only [hq] at hs lo wl tfq
      worker_pc hs hwp
      refine { ex := ?_, wk := ?_, tfq := ?_, tfr := ?_, lo := ?_, wl := ?_, ln := ?_ } <;> wnfld
    | cons t q =>
      simp only [hq] at hs lo wl tfq
      worker_pc hs hwp
      refine { ex := ?_, wk := ?_, tfq := ?_, tfr := ?_, lo := ?_, wl := ?_, ln := ?_ } <;> wnfld
  | _ =>
    simp only [stepWorker, hwp] at hs <;> simp only [wOk, hwp] at wk <;> (
    simp only [pend, infl, held, healthy, hwp] at lo wl tfr
    worker_pc hs hwp
    all_goals (refine { ex := ?_, wk := ?_, tfq := ?_, tfr := ?_, lo := ?_, wl := ?_, ln := ?_ } <;> wnfld))

end TenpyModel.C20.Threaded
