import TenpyModel.C20.Cache
/-!
Specification (a plain dictionary per cache) and the refinement invariant for the `DictCache`
model.  The property theorems are in `PropsCache.lean`.
-/
set_option linter.unusedSimpArgs false
namespace TenpyModel.C20.Cache

/-! ### the dictionary specification: association list, Python `dict` semantics -/

abbrev Dict := List (Key × Val)

def dget : Dict → Key → Option Val
  | [], _ => none
  | (a, b) :: r, k => if a = k then some b else dget r k

def dkeys : Dict → List Key
  | [] => []
  | (a, _) :: r => a :: dkeys r

def dset : Dict → Key → Val → Dict
  | [], k, v => [(k, v)]
  | (a, b) :: r, k, v => if a = k then (a, v) :: r else (a, b) :: dset r k v

def ddel : Dict → Key → Dict
  | [], _ => []
  | (a, b) :: r, k => if a = k then ddel r k else (a, b) :: ddel r k

theorem dkeys_dset (d : Dict) (k : Key) (v : Val) : dkeys (dset d k v) = setAdd (dkeys d) k := by
  induction d with
  | nil => simp [dset, dkeys, setAdd]
  | cons p r ih => obtain ⟨a, b⟩ := p; grind [dset, dkeys, setAdd]

theorem dget_dset (d : Dict) (k : Key) (v : Val) (j : Key) :
    dget (dset d k v) j = if j = k then some v else dget d j := by
  induction d with
  | nil => grind [dset, dget]
  | cons p r ih => obtain ⟨a, b⟩ := p; grind [dset, dget]

theorem dkeys_ddel (d : Dict) (k : Key) : dkeys (ddel d k) = (dkeys d).filter (· ≠ k) := by
  induction d with
  | nil => rfl
  | cons p r ih => obtain ⟨a, b⟩ := p; grind [ddel, dkeys]

theorem dget_ddel (d : Dict) (k j : Key) :
    dget (ddel d k) j = if j = k then none else dget d j := by
  induction d with
  | nil => simp [ddel, dget]
  | cons p r ih => obtain ⟨a, b⟩ := p; grind [ddel, dget]

theorem mem_dkeys_iff (d : Dict) (k : Key) : k ∈ dkeys d ↔ dget d k ≠ none := by
  induction d with
  | nil => simp [dkeys, dget]
  | cons p r ih => obtain ⟨a, b⟩ := p; grind [dkeys, dget]

theorem dkeys_length (d : Dict) : (dkeys d).length = d.length := by
  induction d with
  | nil => rfl
  | cons p r ih => obtain ⟨a, b⟩ := p; simp [dkeys, ih]

/-! ### specification state and step -/

structure Spec where
  dicts  : Nat → Dict
  n      : Nat
  names  : Nat → List Nat
  opened : Bool

def specInit : Spec := { dicts := fun _ => [], n := 1, names := fun _ => [], opened := true }

/-- What a dictionary (one per cache) answers; `none` = not specified (any access to data after
`close`: the documentation only says it "is no longer possible"). -/
def specStep (kind : Kind) (sp : Spec) (i : Nat) (op : Op) : Spec × Option Out :=
  if i < sp.n then
    if sp.opened then
      let d := sp.dicts i
      match op with
      | .set k v => ({ sp with dicts := fun j => if j = i then dset d k v else sp.dicts j }, some .unit)
      | .get k => (sp, some (.val (dget d k)))
      | .getitem k =>
        (sp, some (match dget d k with | some v => .val (some v) | none => .err .keyError))
      | .del k => ({ sp with dicts := fun j => if j = i then ddel d k else sp.dicts j }, some .unit)
      | .contains k => (sp, some (.bool (decide (k ∈ dkeys d))))
      | .len => (sp, some (.nat d.length))
      | .iter => (sp, some (.keys (dkeys d)))
      | .setShortTermKeys _ => (sp, some .unit)
      | .preload ks r =>
        (sp, some (if r && ks.any (fun k => !decide (k ∈ dkeys d)) then .err .keyError else .unit))
      | .createSubcache name =>
        if kind.uniqueNames && (sp.names i).contains name then (sp, some (.err .subExists))
        else
          ({ sp with dicts := fun j => if j = sp.n then [] else sp.dicts j,
                     names := fun j => if j = sp.n then [] else if j = i then name :: sp.names i
                                        else sp.names j,
                     n := sp.n + 1 },
           some (.sub sp.n))
      | .close => if i = 0 then ({ sp with opened := false }, some .unit) else (sp, some (.err .badCache))
      | .isOpen => (sp, some (.bool true))
    else
      match op with
      | .close => (sp, some (if i = 0 then .err .alreadyClosed else .err .badCache))
      | .isOpen => (sp, some (.bool false))
      | _ => (sp, none)
  else (sp, some (.err .badCache))

def specRun (kind : Kind) : Spec → List (Nat × Op) → Spec × List (Option Out)
  | sp, [] => (sp, [])
  | sp, (i, op) :: ops =>
    let r := specStep kind sp i op
    let rs := specRun kind r.1 ops
    (rs.1, r.2 :: rs.2)

/-! ### refinement invariant -/

/-- While the storage is open: the key set is the dictionary's key set, the container holds exactly
the dictionary, and the short-term cache only holds current values of short-term keys. -/
structure Rel (kind : Kind) (s : Sys) (sp : Spec) : Prop where
  kind   : s.kind = kind
  opened : s.opened = sp.opened
  n      : s.n = sp.n
  names  : s.opened = true → ∀ i, s.names i = sp.names i
  ltk    : s.opened = true → ∀ i, s.ltk i = dkeys (sp.dicts i)
  disk   : s.opened = true → ∀ i k, s.disk i k = dget (sp.dicts i) k
  stc    : s.opened = true → ∀ i k v, s.stc i k = some v → dget (sp.dicts i) k = some v
  stk    : s.opened = true → ∀ i k v, s.stc i k = some v → k ∈ s.stk i

theorem rel_init (kind : Kind) : Rel kind (init kind) specInit := by
  constructor <;> simp [init, specInit, dkeys, dget]

theorem preloadLoop_spec (ltk : List Key) (r : Bool) (ks : List Key) :
    preloadLoop ltk true r ks
      = if r && ks.any (fun k => !decide (k ∈ ltk)) then .err .keyError else .unit := by
  induction ks with
  | nil => simp [preloadLoop]
  | cons k ks ih =>
    by_cases hk : k ∈ ltk
    · simp [preloadLoop, hk, ih]
    · cases r <;> simp [preloadLoop, hk, ih]

theorem mem_foldl_setAdd (ks : List Key) (l : List Key) (k : Key) :
    k ∈ ks.foldl setAdd l ↔ k ∈ l ∨ k ∈ ks := by
  induction ks generalizing l with
  | nil => simp
  | cons a r ih => simp only [List.foldl_cons, ih, setAdd]; grind

theorem ddel_not_mem (d : Dict) (k : Key) (h : k ∉ dkeys d) : ddel d k = d := by
  induction d with
  | nil => rfl
  | cons p r ih => obtain ⟨a, b⟩ := p; grind [ddel, dkeys]

macro "cache_case" : tactic => `(tactic|
   (refine ⟨⟨?_, ?_, ?_, ?_, ?_, ?_, ?_, ?_⟩, ?_⟩ <;>
     (try simp only [setitem, get, getitem, delitem, setShortTermKeys, preload, createSubcache, close,
       if_true, setLtk, setStc, setDisk, setStk, preloadLoop_spec, *]) <;>
     grind [dkeys_dset, dget_dset, dkeys_ddel, dget_ddel, mem_foldl_setAdd, ddel_not_mem]))

theorem rel_step_open (kind : Kind) (s : Sys) (sp : Spec) (h : Rel kind s sp) (i : Nat) (op : Op)
    (hi : i < s.n) (hop : s.opened = true) :
    Rel kind (step s i op).1 (specStep kind sp i op).1 ∧
      ∀ x, (specStep kind sp i op).2 = some x → (step s i op).2 = x := by
  obtain ⟨hk, ho, hn, hnm, hl, hd, hs, hst⟩ := h
  have hi' : i < sp.n := hn ▸ hi
  have hop' : sp.opened = true := ho ▸ hop
  have hnm := hnm hop; have hl := hl hop; have hd := hd hop; have hs := hs hop; have hst := hst hop
  have hmem := mem_dkeys_iff
  have hlen := dkeys_length
  cases op with
  | set k v => simp only [step, hi, specStep, hi', hop', hop, if_true]; cache_case
  | get k =>
    simp only [step, hi, specStep, hi', hop', hop, if_true, get]
    by_cases hkl : k ∈ s.ltk i <;> simp only [hkl, if_true, if_false]
    · simp only [getitem, hkl, if_true, hop]
      cases hc : s.stc i k <;> cases hdk : s.disk i k <;> simp only [] <;> cache_case
    · cache_case
  | getitem k =>
    simp only [step, hi, specStep, hi', hop', hop, if_true, getitem]
    cases hc : s.stc i k <;> simp only []
    · by_cases hkl : k ∈ s.ltk i <;> simp only [hkl, if_true, if_false]
      · cases hdk : s.disk i k <;> simp only [] <;> cache_case
      · cache_case
    · cache_case
  | del k =>
    simp only [step, hi, specStep, hi', hop', hop, if_true]
    by_cases hkl : k ∈ s.ltk i <;> simp only [delitem, hkl, if_true, if_false, hop] <;> cache_case
  | contains k => simp only [step, hi, specStep, hi', hop', hop, if_true]; cache_case
  | len => simp only [step, hi, specStep, hi', hop', hop, if_true]; cache_case
  | iter => simp only [step, hi, specStep, hi', hop', hop, if_true]; cache_case
  | setShortTermKeys ks => simp only [step, hi, specStep, hi', hop', hop, if_true]; cache_case
  | preload ks r => simp only [step, hi, specStep, hi', hop', hop, if_true]; cache_case
  | createSubcache name =>
    simp only [step, hi, specStep, hi', hop', hop, if_true, createSubcache, hk, hnm]
    by_cases hu : (kind.uniqueNames && (sp.names i).contains name) = true <;>
      simp only [hu, if_true, if_false, Bool.false_eq_true] <;> cache_case
  | close =>
    simp only [step, hi, specStep, hi', hop', hop, if_true]
    by_cases h0 : i = 0 <;> simp only [h0, if_true, if_false, close, hop] <;> cache_case
  | isOpen => simp only [step, hi, specStep, hi', hop', hop, if_true]; cache_case

theorem step_closed (s : Sys) (i : Nat) (op : Op) (hop : s.opened = false) :
    (step s i op).1.opened = false ∧ (step s i op).1.kind = s.kind ∧ (step s i op).1.n = s.n := by
  unfold step
  split
  · cases op <;>
      simp only [setitem, get, getitem, delitem, setShortTermKeys, preload, createSubcache, close, hop,
        setLtk, setStc, setDisk, setStk, Bool.false_eq_true, if_false] <;>
      (repeat' split) <;> simp [hop]
  · simp [hop]

theorem rel_step (kind : Kind) (s : Sys) (sp : Spec) (h : Rel kind s sp) (i : Nat) (op : Op) :
    Rel kind (step s i op).1 (specStep kind sp i op).1 ∧
      ∀ x, (specStep kind sp i op).2 = some x → (step s i op).2 = x := by
  by_cases hi : i < s.n
  case neg =>
    have hi' : ¬ i < sp.n := h.n ▸ hi
    simp only [step, hi, specStep, hi', if_false]
    exact ⟨h, by simp⟩
  by_cases hop : s.opened = true
  · exact rel_step_open kind s sp h i op hi hop
  · have hopf : s.opened = false := by simpa using hop
    have hop' : sp.opened = false := h.opened ▸ hopf
    have hi' : i < sp.n := h.n ▸ hi
    obtain ⟨c1, c2, c3⟩ := step_closed s i op hopf
    have hsp : (specStep kind sp i op).1 = sp := by
      simp only [specStep, hi', hop', if_true]; cases op <;> simp
    refine ⟨?_, ?_⟩
    · rw [hsp]
      refine ⟨c2 ▸ h.kind, by rw [c1, hop'], by rw [c3, h.n], ?_, ?_, ?_, ?_, ?_⟩ <;> simp [c1]
    · intro x hx
      simp only [specStep, hi', hop', if_true] at hx
      cases op <;> simp at hx <;> simp [step, hi, close, hopf] <;> grind


end TenpyModel.C20.Cache
