import TenpyModel.C20.Cache
/-!
Specification (a plain dictionary per cache) and the refinement invariant for the `DictCache`
model.  The property theorems are in `PropsCache.lean`.
-/
namespace TenpyModel.C20.Cache

/-! ### the dictionary specification: association list, Python `dict` semantics -/

abbrev Dict := List (Key × Val)

def dget : Dict → Key → Option Val
  | [], _ => none
  | (a, b) :: r, k => if a = k then some b else dget r k

def dkeys : Dict → List Key
  | [] => []
  | (a, _) :: r => a :: dkeys r

def dset : Dict → Key → Val → Dict
  | [], k, v => [(k, v)]
  | (a, b) :: r, k, v => if a = k then (a, v) :: r else (a, b) :: dset r k v

def ddel : Dict → Key → Dict
  | [], _ => []
  | (a, b) :: r, k => if a = k then ddel r k else (a, b) :: ddel r k

theorem dkeys_dset (d : Dict) (k : Key) (v : Val) : dkeys (dset d k v) = setAdd (dkeys d) k := by
  induction d with
  | nil => simp [dset, dkeys, setAdd]
  | cons p r ih => obtain ⟨a, b⟩ := p; grind [dset, dkeys, setAdd]

theorem dget_dset (d : Dict) (k : Key) (v : Val) (j : Key) :
    dget (dset d k v) j = if j = k then some v else dget d j := by
  induction d with
  | nil => grind [dset, dget]
  | cons p r ih => obtain ⟨a, b⟩ := p; grind [dset, dget]

theorem dkeys_ddel (d : Dict) (k : Key) : dkeys (ddel d k) = (dkeys d).filter (· ≠ k) := by
  induction d with
  | nil => rfl
  | cons p r ih => obtain ⟨a, b⟩ := p; grind [ddel, dkeys]

theorem dget_ddel (d : Dict) (k j : Key) :
    dget (ddel d k) j = if j = k then none else dget d j := by
  induction d with
  | nil => simp [ddel, dget]
  | cons p r ih => obtain ⟨a, b⟩ := p; grind [ddel, dget]

theorem mem_dkeys_iff (d : Dict) (k : Key) : k ∈ dkeys d ↔ dget d k ≠ none := by
  induction d with
  | nil => simp [dkeys, dget]
  | cons p r ih => obtain ⟨a, b⟩ := p; grind [dkeys, dget]

theorem dkeys_length (d : Dict) : (dkeys d).length = d.length := by
  induction d with
  | nil => rfl
  | cons p r ih => obtain ⟨a, b⟩ := p; simp [dkeys, ih]

/-! ### specification state and step -/

structure Spec where
  dicts  : Nat → Dict
  n      : Nat
  names  : Nat → List Nat
  opened : Bool

def specInit : Spec := { dicts := fun _ => [], n := 1, names := fun _ => [], opened := true }

/-- What a dictionary (one per cache) answers; `none` = not specified (any access to data after
`close`: the documentation only says it "is no longer possible"). -/
def specStep (kind : Kind) (sp : Spec) (i : Nat) (op : Op) : Spec × Option Out :=
  if i < sp.n then
    if sp.opened then
      let d := sp.dicts i
      match op with
      | .set k v => ({ sp with dicts := fun j => if j = i then dset d k v else sp.dicts j }, some .unit)
      | .get k => (sp, some (.val (dget d k)))
      | .getitem k =>
        (sp, some (match dget d k with | some v => .val (some v) | none => .err .keyError))
      | .del k => ({ sp with dicts := fun j => if j = i then ddel d k else sp.dicts j }, some .unit)
      | .contains k => (sp, some (.bool (decide (k ∈ dkeys d))))
      | .len => (sp, some (.nat d.length))
      | .iter => (sp, some (.keys (dkeys d)))
      | .setShortTermKeys _ => (sp, some .unit)
      | .preload ks r =>
        (sp, some (if r && ks.any (fun k => !decide (k ∈ dkeys d)) then .err .keyError else .unit))
      | .createSubcache name =>
        if kind.uniqueNames && (sp.names i).contains name then (sp, some (.err .subExists))
        else
          ({ sp with dicts := fun j => if j = sp.n then [] else sp.dicts j,
                     names := fun j => if j = sp.n then [] else if j = i then name :: sp.names i
                                        else sp.names j,
                     n := sp.n + 1 },
           some (.sub sp.n))
      | .close => if i = 0 then ({ sp with opened := false }, some .unit) else (sp, some (.err .badCache))
      | .isOpen => (sp, some (.bool true))
    else
      match op with
      | .close => (sp, some (if i = 0 then .err .alreadyClosed else .err .badCache))
      | .isOpen => (sp, some (.bool false))
      | _ => (sp, none)
  else (sp, some (.err .badCache))

def specRun (kind : Kind) : Spec → List (Nat × Op) → Spec × List (Option Out)
  | sp, [] => (sp, [])
  | sp, (i, op) :: ops =>
    let r := specStep kind sp i op
    let rs := specRun kind r.1 ops
    (rs.1, r.2 :: rs.2)

/-! ### refinement invariant -/

/-- While the storage is open: the key set is the dictionary's key set, the container holds exactly
the dictionary, and the short-term cache only holds current values of short-term keys. -/
structure Rel (kind : Kind) (s : Sys) (sp : Spec) : Prop where
  kind   : s.kind = kind
  opened : s.opened = sp.opened
  n      : s.n = sp.n
  names  : s.opened = true → ∀ i, (s.caches i).names = sp.names i
  ltk    : s.opened = true → ∀ i, (s.caches i).ltk = dkeys (sp.dicts i)
  disk   : s.opened = true → ∀ i k, s.disk i k = dget (sp.dicts i) k
  stc    : s.opened = true → ∀ i k v, (s.caches i).stc k = some v → dget (sp.dicts i) k = some v
  stk    : s.opened = true → ∀ i k v, (s.caches i).stc k = some v → k ∈ (s.caches i).stk

theorem rel_init (kind : Kind) : Rel kind (init kind) specInit := by
  constructor <;> simp [init, specInit, Cache.empty, dkeys, dget]

theorem preloadLoop_spec (ltk : List Key) (r : Bool) (ks : List Key) :
    preloadLoop ltk true r ks
      = if r && ks.any (fun k => !decide (k ∈ ltk)) then .err .keyError else .unit := by
  induction ks with
  | nil => simp [preloadLoop]
  | cons k ks ih =>
    by_cases hk : k ∈ ltk
    · simp [preloadLoop, hk, ih]
    · cases r <;> simp [preloadLoop, hk, ih]

theorem mem_foldl_setAdd (ks : List Key) (l : List Key) (k : Key) :
    k ∈ ks.foldl setAdd l ↔ k ∈ l ∨ k ∈ ks := by
  induction ks generalizing l with
  | nil => simp
  | cons a r ih => simp only [List.foldl_cons, ih, setAdd]; grind

end TenpyModel.C20.Cache
