import Lean.Data.Json
/-! Small JSON helpers shared by the line-protocol drivers (not part of any model or proof). -/
namespace TenpyModel.J
open Lean

def getNat (j : Json) : Except String Nat := j.getNat?
def getInt (j : Json) : Except String Int := j.getInt?
def getStr (j : Json) : Except String String := j.getStr?
def getBool (j : Json) : Except String Bool := j.getBool?
def getArr (j : Json) : Except String (List Json) := do return (← j.getArr?).toList
def field (j : Json) (k : String) : Except String Json := j.getObjVal? k
def fieldD (j : Json) (k : String) (d : Json) : Json := (j.getObjVal? k).toOption.getD d
def listOf (f : Json → Except String α) (j : Json) : Except String (List α) := do (← getArr j).mapM f
def natList := listOf getNat
def intList := listOf getInt
def optOf (f : Json → Except String α) (j : Json) : Except String (Option α) :=
  if j.isNull then pure none else some <$> f j

def ofNatList (l : List Nat) : Json := Json.arr (l.map (fun n => Json.num (JsonNumber.fromNat n))).toArray
def ofIntList (l : List Int) : Json := Json.arr (l.map (fun n => Json.num (JsonNumber.fromInt n))).toArray
def ofList (f : α → Json) (l : List α) : Json := Json.arr (l.map f).toArray
def obj (kvs : List (String × Json)) : Json := Json.mkObj kvs

/-- read stdin line by line, answer each line with one compact JSON line -/
partial def serve (handle : Json → Except String Json) : IO Unit := do
  let stdin ← IO.getStdin
  let stdout ← IO.getStdout
  let rec loop : IO Unit := do
    let line ← stdin.getLine
    if line.isEmpty then return ()
    let t := line.trimAscii.toString
    if t.isEmpty then loop else
    let out := match Json.parse t with
      | .error e => obj [("error", Json.str s!"parse: {e}")]
      | .ok j => match handle j with
        | .ok r => r
        | .error e => obj [("error", Json.str e)]
    stdout.putStrLn out.compress
    loop
  loop
  stdout.flush

end TenpyModel.J
