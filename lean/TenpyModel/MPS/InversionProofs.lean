import TenpyModel.MPS.TransformProofs
import TenpyModel.MPS.FormProofs
/-!
`spatial_inversion` on the bookkeeping layer: for a finite MPS the inverted MPS (tensors transposed,
order reversed, forms flipped, singular values mirrored) denotes the state with reversed
configuration.  Strategy: `get_theta(0, L)` is a chain with one diagonal weight `S^e` per bond,
attached to the left leg of each tensor (`wLsite`); moving every weight to the right leg of the
previous tensor (`wRsite`) does not change the contraction, and the reversed/transposed
right-weighted chain of `M` is literally the left-weighted chain of the inverted MPS.
-/
namespace TenpyModel.MPS

universe u
variable {α : Type u} [CommSemiring α]
set_option linter.unusedSectionVars false

/-- weight on the left leg of every site, the last site also on its right leg -/
def wLsite (Z : Nat → RSite α) (g : Nat → Vec α) (L j : Nat) : RSite α :=
  { dL := (Z j).dL, d := (Z j).d, dR := (Z j).dR,
    M := fun a p c => if j + 1 = L then g j a * (Z j).M a p c * g (j + 1) c else g j a * (Z j).M a p c }

/-- weight on the right leg of every site -/
def wRsite (Z : Nat → RSite α) (g : Nat → Vec α) (j : Nat) : RSite α :=
  { dL := (Z j).dL, d := (Z j).d, dR := (Z j).dR, M := fun a p c => (Z j).M a p c * g (j + 1) c }

/-- … and the first site also on its left leg -/
def wR0site (Z : Nat → RSite α) (g : Nat → Vec α) (j : Nat) : RSite α :=
  { dL := (Z j).dL, d := (Z j).d, dR := (Z j).dR,
    M := fun a p c => (if j = 0 then g 0 a else 1) * (Z j).M a p c * g (j + 1) c }

/-- moving the diagonal weights from the left legs to the right legs of the previous sites -/
theorem contract_wL_eq_wR (Z : Nat → RSite α) (g : Nat → Vec α) (L : Nat) (n : Nat) :
    ∀ (k : Nat) (v : Vec α) (σ : List Nat), k + (n + 1) = L →
      contract v ((List.range' k (n + 1)).map (wLsite Z g L)) σ
        = contract (fun a => v a * g k a) ((List.range' k (n + 1)).map (wRsite Z g)) σ := by
  induction n with
  | zero =>
    intro k v σ hk
    simp only [List.range'_succ, List.range'_zero, List.map_cons, List.map_nil]
    cases σ with
    | nil => rfl
    | cons p ps =>
      simp only [contract]
      have : vstep v (wLsite Z g L k) p = vstep (fun a => v a * g k a) (wRsite Z g k) p := by
        funext c
        simp only [vstep, wLsite, wRsite, show k + 1 = L from by omega, if_true]
        exact sumN_congr (fun a _ => by ring)
      rw [this]
  | succ n ih =>
    intro k v σ hk
    rw [List.range'_succ, List.map_cons, List.map_cons]
    cases σ with
    | nil => rfl
    | cons p ps =>
      simp only [contract]
      have hne : ¬ k + 1 = L := by omega
      rw [ih (k + 1) _ ps (by omega)]
      congr 1
      funext c
      simp only [vstep, wLsite, wRsite, hne, if_false]
      rw [sumN_mul]
      exact sumN_congr (fun a _ => by ring)

theorem contract_wR0 (Z : Nat → RSite α) (g : Nat → Vec α) (n : Nat) (v : Vec α) (σ : List Nat) :
    contract v ((List.range' 0 (n + 1)).map (wR0site Z g)) σ
      = contract (fun a => v a * g 0 a) ((List.range' 0 (n + 1)).map (wRsite Z g)) σ := by
  rw [List.range'_succ, List.map_cons, List.map_cons]
  have htail : (List.range' (0 + 1) n).map (wR0site Z g) = (List.range' (0 + 1) n).map (wRsite Z g) := by
    apply List.map_congr_left
    intro j hj
    have hj1 : j ≠ 0 := by
      rw [List.mem_range'] at hj; obtain ⟨i, _, rfl⟩ := hj; omega
    simp only [wR0site, wRsite, hj1, if_false, one_mul]
  rw [htail]
  cases σ with
  | nil => rfl
  | cons p ps =>
    simp only [contract]
    congr 1
    funext c
    simp only [vstep, wR0site, wRsite, if_true]
    exact sumN_congr (fun a _ => by ring)

/-- the reversed and transposed right-weighted chain is the left-weighted chain of the mirrored data -/
theorem reverseChain_wR0 (Z : Nat → RSite α) (g : Nat → Vec α) (L : Nat) :
    reverseChain ((List.range' 0 L).map (wR0site Z g))
      = (List.range' 0 L).map (wLsite (fun i => transposeSite (Z (L - 1 - i))) (fun i => g (L - i)) L) := by
  simp only [reverseChain, List.map_map]
  rw [← List.map_reverse, List.reverse_range', List.map_map, List.range_eq_range']
  apply List.map_congr_left
  intro x hx
  have hx' : x < L := by
    rw [List.mem_range'] at hx; obtain ⟨i, hi, rfl⟩ := hx; omega
  simp only [Function.comp, transposeSite, wR0site, wLsite, Nat.zero_add]
  have e1 : L - 1 - x + 1 = L - x := by omega
  congr 1
  funext a p c
  by_cases h : x + 1 = L
  · have h0 : L - 1 - x = 0 := by omega
    have h1 : L - (x + 1) = 0 := by omega
    have h2 : L - x = 1 := by omega
    simp only [h, h0, if_true, e1, h1, h2, Nat.sub_self, Nat.zero_add]
    ring
  · have h0 : ¬ L - 1 - x = 0 := by omega
    simp only [h, h0, if_false, e1]
    ring

end TenpyModel.MPS

namespace TenpyModel.MPS

universe u
variable {α : Type u} [CommSemiring α]
set_option linter.unusedSectionVars false

namespace MPSM

/-- stored form of site `k` (Nat index), `(0,0)` for `None` -/
def formN (M : MPSM α) (k : Nat) : Form := ((M.site k).form).getD (0, 0)

/-- net power of `S` (half units) that `get_theta(0, L)` puts on bond `j`: every bond carries
exactly one `S` -/
def expo (M : MPSM α) (j : Nat) : Int :=
  2 - (if j = 0 then 0 else (M.formN (j - 1)).2) - (if j = M.L then 0 else (M.formN j).1)

def gW (M : MPSM α) (j : Nat) : Vec α := Spow (M.bond j) (M.expo j)

def plainSiteN (M : MPSM α) (j : Nat) : RSite α :=
  { dL := (M.site j).dL, d := (M.site j).d, dR := (M.site j).dR, M := (M.site j).B }

theorem formAt_nat (M : MPSM α) (hbc : M.bc ≠ BC.infinite) (k : Nat) (hk : k < M.L) :
    M.formAt (k : Int) = M.formN k := by
  simp only [formAt, formN, siteAt, siteIdx_finite_nat M hbc k hk]

/-- `get_theta(0, L)` of a finite MPS is the left-weighted chain of its stored tensors -/
theorem thetaSites_eq_wL (M : MPSM α) (hbc : M.bc ≠ BC.infinite) (n : Nat) :
    ∀ (k : Nat), k + n = M.L →
      M.thetaSites 2 (k : Int) (2 - (if k = 0 then 0 else (M.formN (k - 1)).2)) n
        = (List.range' k n).map (wLsite M.plainSiteN M.gW M.L) := by
  induction n using Nat.strongRecOn with
  | _ n ih =>
    intro k hk
    match n, hk with
    | 0, _ => rfl
    | 1, hk =>
      have hkL : k < M.L := by omega
      simp only [thetaSites, List.range'_succ, List.range'_zero, List.map_cons, List.map_nil]
      congr 1
      simp only [getBsite, wLsite, plainSiteN, siteAt, siteIdx_finite_nat M hbc k hkL]
      congr 1
      funext a p c
      rw [getB_both, formAt_nat M hbc k hkL]
      simp only [siteAt, siteIdx_finite_nat M hbc k hkL, getSL, getSR, bondIdx_left_finite_nat M hbc k hkL,
        bondIdx_right_finite_nat M hbc k hkL, gW, expo, hk, if_true]
      have hne : ¬ k = M.L := by omega
      have hL0 : ¬ M.L = 0 := by omega
      have hLk : M.L - 1 = k := by omega
      simp only [hne, hL0, hLk, if_false, sub_zero]
    | n + 2, hk =>
      have hkL : k < M.L := by omega
      have hne : ¬ k + 1 = M.L := by omega
      have hneL : ¬ k = M.L := by omega
      simp only [thetaSites, List.range'_succ, List.map_cons]
      have e : ((k : Int) + 1) = ((k + 1 : Nat) : Int) := by push_cast; ring
      have ihk := ih (n + 1) (by omega) (k + 1) (by omega)
      simp only [show ¬ k + 1 = 0 from by omega, if_false, Nat.add_sub_cancel] at ihk
      rw [formAt_nat M hbc k hkL, e, ihk]
      congr 1
      simp only [getBsite, wLsite, plainSiteN, siteAt, siteIdx_finite_nat M hbc k hkL, hne, if_false]
      congr 1
      funext a p c
      rw [getB_left, formAt_nat M hbc k hkL]
      simp only [siteAt, siteIdx_finite_nat M hbc k hkL, getSL, bondIdx_left_finite_nat M hbc k hkL, gW, expo,
        hneL, if_false]

theorem chainOK_map_congr (f h : Nat → RSite α) (l : List Nat) (n0 : Nat)
    (hd : ∀ j, (f j).dL = (h j).dL ∧ (f j).dR = (h j).dR) :
    ChainOK n0 (l.map f) ↔ ChainOK n0 (l.map h) := by
  induction l generalizing n0 with
  | nil => simp [ChainOK]
  | cons j l ih => simp only [List.map_cons, ChainOK, (hd j).1, (hd j).2, ih]

theorem lastDim_map_congr (f h : Nat → RSite α) (l : List Nat) (n0 : Nat)
    (hd : ∀ j, (f j).dR = (h j).dR) : lastDim n0 (l.map f) = lastDim n0 (l.map h) := by
  induction l generalizing n0 with
  | nil => rfl
  | cons j l ih => simp only [List.map_cons, lastDim, hd j, ih]

end MPSM
end TenpyModel.MPS

namespace TenpyModel.MPS

universe u
variable {α : Type u} [CommSemiring α]
set_option linter.unusedSectionVars false

namespace MPSM

theorem formN_inv (M : MPSM α) (i : Nat) :
    M.spatialInversion.formN i = ((M.formN (M.L - 1 - i)).2, (M.formN (M.L - 1 - i)).1) := by
  simp only [formN, spatialInversion, flipSite]
  cases (M.site (M.L - 1 - i)).form <;> rfl

theorem expo_inv (M : MPSM α) (hL : 0 < M.L) (i : Nat) (hi : i ≤ M.L) :
    M.spatialInversion.expo i = M.expo (M.L - i) := by
  have hLinv : M.spatialInversion.L = M.L := rfl
  simp only [expo, formN_inv, hLinv]
  by_cases h0 : i = 0
  · subst h0
    have h1 : ¬ (0 = M.L) := by omega
    have h2 : ¬ (M.L = 0) := by omega
    simp only [if_true, h1, if_false, Nat.sub_zero, h2]
    ring
  · by_cases hl : i = M.L
    · subst hl
      have h2 : ¬ (0 = M.L) := by omega
      have e0 : M.L - 1 - (M.L - 1) = 0 := by omega
      simp only [h0, if_false, if_true, Nat.sub_self, h2, e0]
      ring
    · have h1 : ¬ (M.L - i = 0) := by omega
      have h2 : ¬ (M.L - i = M.L) := by omega
      have e1 : M.L - 1 - (i - 1) = M.L - i := by omega
      have e2 : M.L - i - 1 = M.L - 1 - i := by omega
      simp only [h0, hl, h1, h2, if_false, e1, e2]
      ring

theorem gW_inv (M : MPSM α) (hbc : M.bc ≠ BC.infinite) (hL : 0 < M.L) (i : Nat) (hi : i ≤ M.L) :
    M.spatialInversion.gW i = M.gW (M.L - i) := by
  have hfb : M.finiteBC = true := by simp [finiteBC, hbc]
  simp only [gW, expo_inv M hL i hi]
  simp only [spatialInversion, hfb, if_true]

/-- **`spatial_inversion` of a finite MPS reverses the configuration**: with the tensors
transposed and reversed, the form exponents swapped and the singular values mirrored,
`toState (inv ψ) (reverse σ) = toState ψ σ` — any stored forms, any bond dimensions. -/
theorem toStateN_spatialInversion (M : MPSM α) (hbc : M.bc ≠ BC.infinite) (hL : 0 < M.L)
    (hchain : ChainOK 1 ((List.range' 0 M.L).map M.plainSiteN))
    (hlast : lastDim 1 ((List.range' 0 M.L).map M.plainSiteN) = 1)
    (σ : List Nat) (hσ : σ.length = M.L) :
    M.spatialInversion.toStateN σ.reverse = M.toStateN σ := by
  have hLinv : M.spatialInversion.L = M.L := rfl
  have hbcinv : M.spatialInversion.bc ≠ BC.infinite := hbc
  obtain ⟨n, hn⟩ : ∃ n, M.L = n + 1 := ⟨M.L - 1, by omega⟩
  simp only [toStateN, List.length_reverse, hσ, hLinv, if_true, theta]
  -- both `get_theta(0, L)` as left-weighted chains
  have t1 := thetaSites_eq_wL M hbc M.L 0 (by omega)
  have t2 := thetaSites_eq_wL M.spatialInversion hbcinv M.L 0 (by rw [hLinv]; omega)
  simp only [if_true, sub_zero, Nat.cast_zero, hLinv] at t1 t2
  rw [t1, t2]
  -- the inverted MPS has the mirrored data
  have e : (List.range' 0 M.L).map (wLsite M.spatialInversion.plainSiteN M.spatialInversion.gW M.L)
      = (List.range' 0 M.L).map
          (wLsite (fun i => transposeSite (M.plainSiteN (M.L - 1 - i))) (fun i => M.gW (M.L - i)) M.L) := by
    apply List.map_congr_left
    intro j hj
    have hj' : j < M.L := by
      rw [List.mem_range'] at hj; obtain ⟨i, hi, rfl⟩ := hj; omega
    simp only [wLsite, gW_inv M hbc hL j (by omega), gW_inv M hbc hL (j + 1) (by omega)]
    rfl
  rw [e, ← reverseChain_wR0 M.plainSiteN M.gW M.L]
  -- reversal of tensors = reversal of the configuration
  have hcY : ChainOK 1 ((List.range' 0 M.L).map (wR0site M.plainSiteN M.gW)) :=
    (chainOK_map_congr (wR0site M.plainSiteN M.gW) M.plainSiteN _ 1 (fun j => ⟨rfl, rfl⟩)).2 hchain
  have hlY : lastDim 1 ((List.range' 0 M.L).map (wR0site M.plainSiteN M.gW)) = 1 := by
    rw [lastDim_map_congr (wR0site M.plainSiteN M.gW) M.plainSiteN _ 1 (fun j => rfl)]; exact hlast
  have rev := contract_reverseChain ((List.range' 0 M.L).map (wR0site M.plainSiteN M.gW)) 1
    (fun a => delta a 0) (fun a => (delta a 0 : α)) σ hcY (by simp [hσ])
  rw [hlY] at rev
  have hcl : ∀ u : Vec α, close 1 u (fun a => delta a 0) = u 0 := by
    intro u; simp [close, sumN_one, delta]
  rw [hcl, hcl] at rev
  rw [rev]
  have h3 := contract_wR0 M.plainSiteN M.gW n (fun a => (delta a 0 : α)) σ
  have h4 := contract_wL_eq_wR M.plainSiteN M.gW (n + 1) n 0 (fun a => (delta a 0 : α)) σ (by omega)
  rw [hn, h3, h4]

end MPSM
end TenpyModel.MPS
