import TenpyModel.MPS.ChainProofs
import TenpyModel.MPS.Measure
/-!
Measurements: operator insertion = dense operator application, environments of isometric chains
collapse to the identity, Born weights of `sample_measurements`.
-/
namespace TenpyModel.MPS

universe u
variable {α : Type u} [CommSemiring α]

/-! ### operator insertion -/

theorem vstep_opSite (v : Vec α) (O : Mat α) (s : RSite α) (p : Nat) :
    vstep v (opSite O s) p = fun b => sumN s.d (fun q => O p q * vstep v s q b) := by
  funext b
  simp only [vstep, opSite]
  calc sumN s.dL (fun a => v a * sumN s.d (fun q => O p q * s.M a q b))
      = sumN s.dL (fun a => sumN s.d (fun q => O p q * (v a * s.M a q b))) :=
        sumN_congr (fun a _ => by rw [mul_sumN]; exact sumN_congr (fun q _ => by ring))
    _ = sumN s.d (fun q => sumN s.dL (fun a => O p q * (v a * s.M a q b))) := sumN_comm _ _ _
    _ = _ := sumN_congr (fun q _ => by rw [mul_sumN])

theorem dims_applyAt (k : Nat) (O : Mat α) (ss : List (RSite α)) : dims (applyAt k O ss) = dims ss := by
  induction ss generalizing k with
  | nil => cases k <;> rfl
  | cons s ss ih =>
    cases k with
    | zero => simp [applyAt, dims, opSite]
    | succ k => simp only [applyAt, dims, List.map_cons] at ih ⊢; rw [ih]

/-- **Applying a one-site operator to site `k` of a chain is dense operator application**:
`(O_k ψ)(σ) = Σ_q O(σ_k, q) ψ(σ[k ↦ q])`. -/
theorem contract_applyAt (O : Mat α) (ss : List (RSite α)) :
    ∀ (k : Nat) (σ : List Nat) (v : Vec α), k < ss.length → ss.length = σ.length →
      contract v (applyAt k O ss) σ
        = fun b => sumN ((dims ss).getD k 0) (fun q => O (σ.getD k 0) q * contract v ss (σ.set k q) b) := by
  induction ss with
  | nil => intro k σ v hk; simp at hk
  | cons s ss ih =>
    intro k σ v hk hlen
    cases σ with
    | nil => simp at hlen
    | cons p ps =>
      cases k with
      | zero =>
        simp only [applyAt, contract, dims, List.map_cons, List.getD_cons_zero, List.set_cons_zero]
        rw [vstep_opSite, contract_sumN]
        funext b
        refine sumN_congr (fun q _ => ?_)
        rw [contract_smul]
      | succ k =>
        simp only [applyAt, contract, dims, List.map_cons, List.getD_cons_succ, List.set_cons_succ]
        exact ih k ps _ (by simpa using hk) (by simpa using hlen)

theorem close_sumN_smul (n m : Nat) (c : Nat → α) (us : Nat → Vec α) (w : Vec α) :
    close n (fun b => sumN m (fun q => c q * us q b)) w = sumN m (fun q => c q * close n (us q) w) := by
  simp only [close]
  calc sumN n (fun a => sumN m (fun q => c q * us q a) * w a)
      = sumN n (fun a => sumN m (fun q => c q * (us q a * w a))) :=
        sumN_congr (fun a _ => by rw [sumN_mul]; exact sumN_congr (fun q _ => by ring))
    _ = sumN m (fun q => sumN n (fun a => c q * (us q a * w a))) := sumN_comm _ _ _
    _ = _ := sumN_congr (fun q _ => by rw [mul_sumN])

/-! ### product operators (`apply_product_op`, `expectation_value_multi_sites`) -/

/-- `Π_i O_i(σ_i, τ_i)` -/
def prodOp : List (Mat α) → List Nat → List Nat → α
  | O :: Os, p :: ps, q :: qs => O p q * prodOp Os ps qs
  | [], [], [] => 1
  | _, _, _ => 0

theorem contract_applyOps (Os : List (Mat α)) :
    ∀ (ss : List (RSite α)) (σ : List Nat) (v : Vec α), Os.length = ss.length → ss.length = σ.length →
      contract v (applyOps (Os.map some) ss) σ
        = fun b => sumCfg (dims ss) (fun τ => prodOp Os σ τ * contract v ss τ b) := by
  induction Os with
  | nil =>
    intro ss σ v h1 h2
    cases ss with
    | nil =>
      cases σ with
      | nil => funext b; simp [applyOps, dims, sumCfg, prodOp, contract]
      | cons _ _ => simp at h2
    | cons _ _ => simp at h1
  | cons O Os ih =>
    intro ss σ v h1 h2
    cases ss with
    | nil => simp at h1
    | cons s ss =>
      cases σ with
      | nil => simp at h2
      | cons p ps =>
        simp only [List.map_cons, applyOps, contract, dims, sumCfg]
        rw [vstep_opSite, contract_sumN]
        funext b
        refine sumN_congr (fun q _ => ?_)
        rw [contract_smul, ih ss ps _ (by simpa using h1) (by simpa using h2)]
        beta_reduce
        rw [mul_sumCfg]
        exact sumCfg_congr (fun τ => by simp only [prodOp]; ring)

/-! ### isometric chains: environments collapse -/

/-- left-isometric site (`'A'` form): `Σ_{a,p} conj(M a p b') M a p b = δ(b', b)` -/
def LeftIso (cj : α → α) (t : RSite α) : Prop :=
  ∀ b' b, b' < t.dR → b < t.dR →
    sumN t.d (fun p => sumN t.dL (fun a => cj (t.M a p b') * t.M a p b)) = delta b' b

/-- right-isometric site (`'B'` form): `Σ_{p,b} M a p b conj(M a' p b) = δ(a, a')` -/
def RightIso (cj : α → α) (t : RSite α) : Prop :=
  ∀ a' a, a' < t.dL → a < t.dL →
    sumN t.d (fun p => sumN t.dR (fun b => cj (t.M a' p b) * t.M a p b)) = delta a' a

theorem tmStep_congr_range (cj : α → α) (E E' : Mat α) (sb sk : RSite α)
    (h : ∀ a' a, a' < sb.dL → a < sk.dL → E a' a = E' a' a) :
    tmStep cj E sb sk = tmStep cj E' sb sk := by
  funext b' b
  simp only [tmStep]
  exact sumN_congr (fun p _ => sumN_congr (fun a' ha' => by
    congr 1; exact sumN_congr (fun a ha => by rw [h a' a ha' ha])))

theorem tmStep_id {cj : α → α} (E : Mat α) (t : RSite α) (hE : ∀ a' a, a' < t.dL → a < t.dL → E a' a = delta a' a)
    (ht : LeftIso cj t) : ∀ b' b, b' < t.dR → b < t.dR → tmStep cj E t t b' b = delta b' b := by
  intro b' b hb' hb
  rw [← ht b' b hb' hb]
  simp only [tmStep]
  refine sumN_congr (fun p _ => sumN_congr (fun a' ha' => ?_))
  congr 1
  rw [sumN_congr (fun a ha => by rw [hE a' a ha' ha]), sumN_delta_left']
  simp [ha']

/-- **Left environment of a left-canonical chain is the identity** (`LP = 1`): any number of
sites, any dimensions. -/
theorem tmFold_id {cj : α → α} (ts : List (RSite α)) :
    ∀ (n0 : Nat) (E : Mat α), ChainOK n0 ts → (∀ t ∈ ts, LeftIso cj t) →
      (∀ a' a, a' < n0 → a < n0 → E a' a = delta a' a) →
      ∀ b' b, b' < lastDim n0 ts → b < lastDim n0 ts → tmFold cj E ts ts b' b = delta b' b := by
  induction ts with
  | nil => intro n0 E _ _ hE b' b hb' hb; exact hE b' b hb' hb
  | cons t ts ih =>
    intro n0 E hc hiso hE b' b hb' hb
    simp only [tmFold, lastDim] at hb' hb ⊢
    refine ih t.dR _ hc.2 (fun t' ht' => hiso t' (List.mem_cons_of_mem _ ht')) ?_ b' b hb' hb
    exact tmStep_id E t (fun a' a ha' ha => hE a' a (hc.1 ▸ ha') (hc.1 ▸ ha)) (hiso t List.mem_cons_self)

/-! right environments: duality between the left-to-right fold and `_contract_RP` -/

/-- `_contract_RP`: `RP' = B_ket · RP · B_bra^*` -/
def rpStep (cj : α → α) (R : Mat α) (sb sk : RSite α) : Mat α :=
  fun a' a => sumN sk.d (fun p => sumN sk.dR (fun b =>
    sk.M a p b * sumN sb.dR (fun b' => cj (sb.M a' p b') * R b' b)))

def rpFold (cj : α → α) (R : Mat α) : List (RSite α) → List (RSite α) → Mat α
  | [], [] => R
  | sb :: sbs, sk :: sks => rpStep cj (rpFold cj R sbs sks) sb sk
  | _, _ => fun _ _ => 0

theorem sumN_comm₁ (n m l : Nat) (f : Nat → Nat → Nat → α) :
    sumN n (fun i => sumN m (fun j => sumN l (fun k => f i j k)))
      = sumN n (fun i => sumN l (fun k => sumN m (fun j => f i j k))) :=
  sumN_congr (fun _ _ => sumN_comm _ _ _)

/-- one step of the duality: `Σ (tmStep E)·R = Σ E·(rpStep R)` -/
theorem tmStep_rpStep (cj : α → α) (E R : Mat α) (sb sk : RSite α) :
    sumN sb.dR (fun b' => sumN sk.dR (fun b => tmStep cj E sb sk b' b * R b' b))
      = sumN sb.dL (fun a' => sumN sk.dL (fun a => E a' a * rpStep cj R sb sk a' a)) := by
  -- both sides are the five-fold sum of  conj(Mb a' p b') · E a' a · Mk a p b · R b' b
  have L : sumN sb.dR (fun b' => sumN sk.dR (fun b => tmStep cj E sb sk b' b * R b' b))
      = sumN sk.d (fun p => sumN sb.dL (fun a' => sumN sk.dL (fun a => sumN sb.dR (fun b' =>
          sumN sk.dR (fun b => cj (sb.M a' p b') * E a' a * sk.M a p b * R b' b))))) := by
    calc sumN sb.dR (fun b' => sumN sk.dR (fun b => tmStep cj E sb sk b' b * R b' b))
        = sumN sb.dR (fun b' => sumN sk.dR (fun b => sumN sk.d (fun p => sumN sb.dL (fun a' =>
            sumN sk.dL (fun a => cj (sb.M a' p b') * E a' a * sk.M a p b * R b' b))))) := by
          refine sumN_congr (fun b' _ => sumN_congr (fun b _ => ?_))
          simp only [tmStep]
          rw [sumN_mul]
          refine sumN_congr (fun p _ => ?_)
          rw [sumN_mul]
          refine sumN_congr (fun a' _ => ?_)
          rw [mul_sumN, sumN_mul]
          exact sumN_congr (fun a _ => by ring)
      _ = sumN sb.dR (fun b' => sumN sk.d (fun p => sumN sk.dR (fun b => sumN sb.dL (fun a' =>
            sumN sk.dL (fun a => cj (sb.M a' p b') * E a' a * sk.M a p b * R b' b))))) :=
          sumN_congr (fun _ _ => sumN_comm _ _ _)
      _ = sumN sk.d (fun p => sumN sb.dR (fun b' => sumN sk.dR (fun b => sumN sb.dL (fun a' =>
            sumN sk.dL (fun a => cj (sb.M a' p b') * E a' a * sk.M a p b * R b' b))))) := sumN_comm _ _ _
      _ = sumN sk.d (fun p => sumN sb.dR (fun b' => sumN sb.dL (fun a' => sumN sk.dR (fun b =>
            sumN sk.dL (fun a => cj (sb.M a' p b') * E a' a * sk.M a p b * R b' b))))) :=
          sumN_congr (fun _ _ => sumN_congr (fun _ _ => sumN_comm _ _ _))
      _ = sumN sk.d (fun p => sumN sb.dL (fun a' => sumN sb.dR (fun b' => sumN sk.dR (fun b =>
            sumN sk.dL (fun a => cj (sb.M a' p b') * E a' a * sk.M a p b * R b' b))))) :=
          sumN_congr (fun _ _ => sumN_comm _ _ _)
      _ = sumN sk.d (fun p => sumN sb.dL (fun a' => sumN sb.dR (fun b' => sumN sk.dL (fun a =>
            sumN sk.dR (fun b => cj (sb.M a' p b') * E a' a * sk.M a p b * R b' b))))) :=
          sumN_congr (fun _ _ => sumN_congr (fun _ _ => sumN_congr (fun _ _ => sumN_comm _ _ _)))
      _ = _ := sumN_congr (fun _ _ => sumN_congr (fun _ _ => sumN_comm _ _ _))
  have Rr : sumN sb.dL (fun a' => sumN sk.dL (fun a => E a' a * rpStep cj R sb sk a' a))
      = sumN sk.d (fun p => sumN sb.dL (fun a' => sumN sk.dL (fun a => sumN sb.dR (fun b' =>
          sumN sk.dR (fun b => cj (sb.M a' p b') * E a' a * sk.M a p b * R b' b))))) := by
    calc sumN sb.dL (fun a' => sumN sk.dL (fun a => E a' a * rpStep cj R sb sk a' a))
        = sumN sb.dL (fun a' => sumN sk.dL (fun a => sumN sk.d (fun p => sumN sk.dR (fun b =>
            sumN sb.dR (fun b' => cj (sb.M a' p b') * E a' a * sk.M a p b * R b' b))))) := by
          refine sumN_congr (fun a' _ => sumN_congr (fun a _ => ?_))
          simp only [rpStep]
          rw [mul_sumN]
          refine sumN_congr (fun p _ => ?_)
          rw [mul_sumN]
          refine sumN_congr (fun b _ => ?_)
          rw [mul_sumN, mul_sumN]
          exact sumN_congr (fun b' _ => by ring)
      _ = sumN sb.dL (fun a' => sumN sk.d (fun p => sumN sk.dL (fun a => sumN sk.dR (fun b =>
            sumN sb.dR (fun b' => cj (sb.M a' p b') * E a' a * sk.M a p b * R b' b))))) :=
          sumN_congr (fun _ _ => sumN_comm _ _ _)
      _ = sumN sk.d (fun p => sumN sb.dL (fun a' => sumN sk.dL (fun a => sumN sk.dR (fun b =>
            sumN sb.dR (fun b' => cj (sb.M a' p b') * E a' a * sk.M a p b * R b' b))))) := sumN_comm _ _ _
      _ = _ := sumN_congr (fun _ _ => sumN_congr (fun _ _ => sumN_congr (fun _ _ => sumN_comm _ _ _)))
  rw [L, Rr]

/-- **duality of left and right environments** -/
theorem closeMat_tmFold_eq_rpFold (cj : α → α) (wb wk : Vec α) (sbs : List (RSite α)) :
    ∀ (sks : List (RSite α)) (nb0 nk0 : Nat) (E : Mat α), ChainOK nb0 sbs → ChainOK nk0 sks →
      sbs.length = sks.length →
      closeMat cj (lastDim nb0 sbs) (lastDim nk0 sks) (tmFold cj E sbs sks) wb wk
        = sumN nb0 (fun a' => sumN nk0 (fun a =>
            E a' a * rpFold cj (fun b' b => cj (wb b') * wk b) sbs sks a' a)) := by
  induction sbs with
  | nil =>
    intro sks nb0 nk0 E _ _ hl
    cases sks with
    | nil => rfl
    | cons _ _ => simp at hl
  | cons sb sbs ih =>
    intro sks nb0 nk0 E hb hk hl
    cases sks with
    | nil => simp at hl
    | cons sk sks =>
      simp only [tmFold, lastDim, rpFold]
      rw [ih sks sb.dR sk.dR _ hb.2 hk.2 (by simpa using hl), tmStep_rpStep, hb.1, hk.1]

theorem rpStep_congr_range (cj : α → α) (R R' : Mat α) (sb sk : RSite α)
    (h : ∀ b' b, b' < sb.dR → b < sk.dR → R b' b = R' b' b) : rpStep cj R sb sk = rpStep cj R' sb sk := by
  funext a' a
  simp only [rpStep]
  exact sumN_congr (fun p _ => sumN_congr (fun b hb => by
    congr 1; exact sumN_congr (fun b' hb' => by rw [h b' b hb' hb])))

theorem rpStep_id {cj : α → α} (R : Mat α) (t : RSite α)
    (hR : ∀ b' b, b' < t.dR → b < t.dR → R b' b = delta b' b) (ht : RightIso cj t) :
    ∀ a' a, a' < t.dL → a < t.dL → rpStep cj R t t a' a = delta a' a := by
  intro a' a ha' ha
  rw [← ht a' a ha' ha]
  simp only [rpStep]
  refine sumN_congr (fun p _ => sumN_congr (fun b hb => ?_))
  rw [sumN_congr (fun b' hb' => by rw [hR b' b hb' hb]), sumN_delta_right]
  simp only [hb, if_true]; ring

/-- **Right environment of a right-canonical chain is the identity** (`RP = 1`). -/
theorem rpFold_id {cj : α → α} (ts : List (RSite α)) :
    ∀ (n0 : Nat) (R : Mat α), ChainOK n0 ts → (∀ t ∈ ts, RightIso cj t) →
      (∀ b' b, b' < lastDim n0 ts → b < lastDim n0 ts → R b' b = delta b' b) →
      ∀ a' a, a' < n0 → a < n0 → rpFold cj R ts ts a' a = delta a' a := by
  induction ts with
  | nil => intro n0 R _ _ hR a' a ha' ha; exact hR a' a ha' ha
  | cons t ts ih =>
    intro n0 R hc hiso hR a' a ha' ha
    simp only [rpFold]
    have hin := ih t.dR R hc.2 (fun t' ht' => hiso t' (List.mem_cons_of_mem _ ht')) hR
    exact rpStep_id _ t hin (hiso t List.mem_cons_self) a' a (hc.1 ▸ ha') (hc.1 ▸ ha)

theorem tmFold_append (cj : α → α) (E : Mat α) (b1 k1 b2 k2 : List (RSite α)) (h : b1.length = k1.length) :
    tmFold cj E (b1 ++ b2) (k1 ++ k2) = tmFold cj (tmFold cj E b1 k1) b2 k2 := by
  induction b1 generalizing E k1 with
  | nil =>
    cases k1 with
    | nil => rfl
    | cons _ _ => simp at h
  | cons s b1 ih =>
    cases k1 with
    | nil => simp at h
    | cons t k1 => simp only [List.cons_append, tmFold]; exact ih _ _ (by simpa using h)

theorem tmFold_congr_range (cj : α → α) (E E' : Mat α) (sbs sks : List (RSite α)) (nb nk : Nat)
    (hb : ChainOK nb sbs) (hk : ChainOK nk sks) (hne : sbs ≠ [])
    (h : ∀ a' a, a' < nb → a < nk → E a' a = E' a' a) :
    tmFold cj E sbs sks = tmFold cj E' sbs sks := by
  cases sbs with
  | nil => exact absurd rfl hne
  | cons sb sbs =>
    cases sks with
    | nil => rfl
    | cons sk sks =>
      simp only [tmFold]
      rw [tmStep_congr_range cj E E' sb sk (fun a' a ha' ha => h a' a (hb.1 ▸ ha') (hk.1 ▸ ha))]

/-! ### Born weights -/

/-- **`sample_measurements`**: whatever non-zero numbers `w i` the intermediate wave functions are
divided by, the returned product `Π w_i · θ[0,0] / w_{L-1}` is the amplitude `⟨σ|ψ⟩`. -/
theorem sampleGo_eq (w winv : Nat → α) (hw : ∀ i, w i * winv i = 1) (ss : List (RSite α)) :
    ∀ (i : Nat) (v : Vec α) (tot : α) (σ : List Nat), ss ≠ [] → ss.length = σ.length →
      sampleGo w winv i v tot ss σ = tot * contract v ss σ 0 := by
  induction ss with
  | nil => intro i v tot σ h; exact absurd rfl h
  | cons s ss ih =>
    intro i v tot σ _ hl
    cases σ with
    | nil => simp at hl
    | cons p ps =>
      cases ss with
      | nil =>
        cases ps with
        | nil =>
          simp only [sampleGo, contract]
          calc tot * w i * (vstep v s p 0 * winv i) = tot * (w i * winv i) * vstep v s p 0 := by ring
            _ = _ := by rw [hw]; ring
        | cons _ _ => simp at hl
      | cons s2 ss =>
        cases ps with
        | nil => simp at hl
        | cons p2 ps =>
          have hs : sampleGo w winv i v tot (s :: s2 :: ss) (p :: p2 :: ps)
              = sampleGo w winv (i + 1) (fun b => winv i * vstep v s p b) (tot * w i) (s2 :: ss) (p2 :: ps) := by
            rw [sampleGo]; intro h; cases h
          rw [hs, ih (i + 1) _ _ (p2 :: ps) (by simp) (by simpa using hl)]
          have e1 := congrFun (contract_smul (winv i) (vstep v s p) (s2 :: ss) (p2 :: ps)) 0
          have e2 : contract v (s :: s2 :: ss) (p :: p2 :: ps) = contract (vstep v s p) (s2 :: ss) (p2 :: ps) := rfl
          rw [e1, e2]
          calc tot * w i * (winv i * contract (vstep v s p) (s2 :: ss) (p2 :: ps) 0)
              = tot * (w i * winv i) * contract (vstep v s p) (s2 :: ss) (p2 :: ps) 0 := by ring
            _ = _ := by rw [hw]; ring

end TenpyModel.MPS
