import TenpyModel.MPS.Measure
import TenpyModel.MPS.Transform
/-
Array-memoised evaluation of the model definitions for the line-protocol driver.

The definitions of `Chain.lean` are closures over closures; evaluating `contract` literally would
recompute every partial contraction for every entry.  The functions below are the same
definitions with the intermediate vectors / matrices / tensors tabulated into arrays
(`memoVec n v` agrees with `v` on indices `< n`).  The driver cross-checks them against the
literal definitions on every run (`selfcheck` lines).  Not used by any theorem.
-/
namespace TenpyModel.MPS.Eval
open TenpyModel.MPS

universe u
variable {α : Type u} [Zero α] [One α] [Add α] [Mul α]

def memoVec (n : Nat) (v : Vec α) : Vec α :=
  let arr := Array.ofFn (n := n) (fun i => v i.val)
  fun a => arr.getD a 0

def memoMat (m n : Nat) (E : Mat α) : Mat α :=
  let arr := Array.ofFn (n := m * n) (fun i => E (i.val / n) (i.val % n))
  fun a b => if a < m ∧ b < n then arr.getD (a * n + b) 0 else 0

def memoT3 (m d n : Nat) (T : T3 α) : T3 α :=
  let arr := Array.ofFn (n := m * d * n) (fun i => T (i.val / n / d) (i.val / n % d) (i.val % n))
  fun a p c => if a < m ∧ p < d ∧ c < n then arr.getD ((a * d + p) * n + c) 0 else 0

def tabSite (s : RSite α) : RSite α := { s with M := memoT3 s.dL s.d s.dR s.M }

def contractE : Vec α → List (RSite α) → List Nat → Vec α
  | v, [], [] => v
  | v, s :: ss, p :: ps => contractE (memoVec s.dR (vstep v s p)) ss ps
  | _, _, _ => fun _ => 0

/-- all amplitudes in row-major order of `σ`; each closed by `cl` into a list of scalars -/
def allAmpsE (cl : Vec α → List α) : Vec α → List (RSite α) → List α
  | v, [] => cl v
  | v, s :: ss => (List.range s.d).flatMap (fun p => allAmpsE cl (memoVec s.dR (vstep v s p)) ss)

/-- two-stage transfer-matrix step (`LP·B_ket`, then `B_bra^*·…`), extensionally `tmStep` -/
def tmStepE (cj : α → α) (E : Mat α) (sb sk : RSite α) : Mat α :=
  let T1 := memoT3 sb.dL sk.d sk.dR (fun a' p b => sumN sk.dL (fun a => E a' a * sk.M a p b))
  memoMat sb.dR sk.dR (fun b' b => sumN sk.d (fun p => sumN sb.dL (fun a' => cj (sb.M a' p b') * T1 a' p b)))

def tmFoldE (cj : α → α) : Mat α → List (RSite α) → List (RSite α) → Mat α
  | E, [], [] => E
  | E, sb :: sbs, sk :: sks => tmFoldE cj (tmStepE cj E sb sk) sbs sks
  | _, _, _ => fun _ _ => 0

def overlapTME (cj : α → α) (vb vk : Vec α) (sbs sks : List (RSite α)) (nb nk : Nat)
    (wb wk : Vec α) : α :=
  closeMat cj nb nk (tmFoldE cj (outer cj vb vk) (sbs.map tabSite) (sks.map tabSite)) wb wk

end TenpyModel.MPS.Eval
