import TenpyModel.MPS.Measure
import TenpyModel.MPS.Transform
/-
Array-memoised evaluation of the model definitions for the line-protocol driver.

The definitions of `Chain.lean` are closures over closures; evaluating `contract` literally would
recompute every partial contraction for every entry.  The functions below are the same
definitions with the intermediate vectors / matrices / tensors tabulated into arrays
(`ofArr (tabVec n v)` agrees with `v` on indices `< n`).  The driver cross-checks them against the
literal definitions on every run (`selfcheck` lines on small chains).  Not used by any theorem.

(Arrays are computed by the *caller* and then captured: a definition of function type such as
`memo n v : Vec α := let arr := …; fun a => arr[a]` would be eta-expanded by the compiler and
rebuild the array on every call.)
-/
namespace TenpyModel.MPS.Eval
open TenpyModel.MPS

universe u
variable {α : Type u} [Zero α] [One α] [Add α] [Mul α]

def tabVec (n : Nat) (v : Vec α) : Array α := Array.ofFn (n := n) (fun i => v i.val)
def ofArr (arr : Array α) : Vec α := fun a => arr.getD a 0

def tabMat (m n : Nat) (E : Mat α) : Array α :=
  Array.ofFn (n := m * n) (fun i => E (i.val / n) (i.val % n))
def ofArrMat (m n : Nat) (arr : Array α) : Mat α :=
  fun a b => if a < m ∧ b < n then arr.getD (a * n + b) 0 else 0

def tabT3 (m d n : Nat) (T : T3 α) : Array α :=
  Array.ofFn (n := m * d * n) (fun i => T (i.val / n / d) (i.val / n % d) (i.val % n))
def ofArrT3 (m d n : Nat) (arr : Array α) : T3 α :=
  fun a p c => if a < m ∧ p < d ∧ c < n then arr.getD ((a * d + p) * n + c) 0 else 0

def tabSite (s : RSite α) : RSite α :=
  let arr := tabT3 s.dL s.d s.dR s.M
  { s with M := ofArrT3 s.dL s.d s.dR arr }

def contractE : Vec α → List (RSite α) → List Nat → Vec α
  | v, [], [] => v
  | v, s :: ss, p :: ps =>
    let arr := tabVec s.dR (vstep v s p)
    contractE (ofArr arr) ss ps
  | _, _, _ => fun _ => 0

/-- all amplitudes in row-major order of `σ`; each closed by `cl` into a list of scalars -/
def allAmpsE (cl : Vec α → List α) : Vec α → List (RSite α) → List α
  | v, [] => cl v
  | v, s :: ss => (List.range s.d).flatMap (fun p =>
      let arr := tabVec s.dR (vstep v s p)
      allAmpsE cl (ofArr arr) ss)

/-- two-stage transfer-matrix step (`LP·B_ket`, then `B_bra^*·…`), extensionally `tmStep`;
returns the tabulated matrix -/
def tmStepE (cj : α → α) (E : Mat α) (sb sk : RSite α) : Array α :=
  let t1 := tabT3 sb.dL sk.d sk.dR (fun a' p b => sumN sk.dL (fun a => E a' a * sk.M a p b))
  let T1 := ofArrT3 sb.dL sk.d sk.dR t1
  tabMat sb.dR sk.dR (fun b' b => sumN sk.d (fun p => sumN sb.dL (fun a' => cj (sb.M a' p b') * T1 a' p b)))

def tmFoldE (cj : α → α) : Mat α → List (RSite α) → List (RSite α) → Mat α
  | E, [], [] => E
  | E, sb :: sbs, sk :: sks =>
    let arr := tmStepE cj E sb sk
    tmFoldE cj (ofArrMat sb.dR sk.dR arr) sbs sks
  | _, _, _ => fun _ _ => 0

def overlapTME (cj : α → α) (vb vk : Vec α) (sbs sks : List (RSite α)) (nb nk : Nat)
    (wb wk : Vec α) : α :=
  closeMat cj nb nk (tmFoldE cj (outer cj vb vk) (sbs.map tabSite) (sks.map tabSite)) wb wk

end TenpyModel.MPS.Eval

namespace TenpyModel.MPS.Eval
open TenpyModel.MPS
universe u
variable {α : Type u} [Zero α] [One α] [Add α] [Mul α]

/-- `sampleGo` with tabulated intermediate vectors -/
def sampleGoE (w winv : Nat → α) : Nat → Vec α → α → List (RSite α) → List Nat → α
  | i, v, tot, [s], [p] => tot * w i * (vstep v s p 0 * winv i)
  | i, v, tot, s :: ss, p :: ps =>
      let arr := tabVec s.dR (fun b => winv i * vstep v s p b)
      sampleGoE w winv (i + 1) (ofArr arr) (tot * w i) ss ps
  | _, _, _, _, _ => 0

end TenpyModel.MPS.Eval
