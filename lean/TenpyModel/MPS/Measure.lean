import TenpyModel.MPS.Basic
/-
Model of the measurement algorithms of `tenpy/networks/mps.py`: `MPSEnvironment.full_contraction`
/ `MPS.overlap` (finite), `expectation_value` (canonical short cut and with environments),
`expectation_value_multi_sites`, `norm_test`, `sample_measurements`.
-/
namespace TenpyModel.MPS

universe u
variable {α : Type u}

section ring
variable [Zero α] [One α] [Add α] [Mul α]

def fA : Option (Option Int × Option Int) := some (some formA.1, some formA.2)
def fB : Option (Option Int × Option Int) := some (some formB.1, some formB.2)
def fTh : Option (Option Int × Option Int) := some (some formTh.1, some formTh.2)

namespace MPSM

/-- sites `i, …, i+n-1` all in one requested form (`get_B(j, form)`) -/
def formSites (M : MPSM α) (nf : Option (Option Int × Option Int)) : Int → Nat → List (RSite α)
  | _, 0 => []
  | i, n + 1 => M.getBsite i nf :: formSites M nf (i + 1) n

/-- The tensors `MPSEnvironment.full_contraction(i0)` contracts: `'A'` forms up to site `i0`
(`get_LP(i0+1)`), the singular values `get_SR(i0)` of the MPS itself, `'B'` forms to the right
(`get_RP(i0)`). -/
def envSites (M : MPSM α) (i0 : Nat) : List (RSite α) :=
  let left := formSites M fA 0 (i0 + 1)
  let right := formSites M fB ((i0 : Int) + 1) (M.L - (i0 + 1))
  let S := M.getSR i0
  (left.dropLast ++ (left.getLast?.map (scaleRight (Spow S 2))).toList) ++ right

/-- `MPS.overlap(other)` for finite bc = `MPSEnvironment(self, other).full_contraction(0)`:
`<self|other> * self.norm * other.norm`, `LP[0]`/`RP[L-1]` identities on the trivial outer legs. -/
def overlap (cj : α → α) (bra ket : MPSM α) : α :=
  overlapTM cj (fun a => delta a 0) (fun a => delta a 0) (bra.envSites 0) (ket.envSites 0) 1 1
    (fun a => delta a 0) (fun a => delta a 0) * cj bra.norm * ket.norm

/-- `MPS.expectation_value(op, [i])` for a one-site operator: trivial environments,
`inner(theta, op·theta)` with `theta = get_theta(i, 1) = get_B(i, 'Th')`. -/
def expval1 (cj : α → α) (M : MPSM α) (i : Int) (O : Mat α) : α :=
  let s := M.getBsite i fTh
  sumN s.dL (fun a => sumN s.d (fun p => sumN s.dR (fun b =>
    cj (s.M a p b) * sumN s.d (fun q => O p q * s.M a q b))))

/-- `MPSEnvironment(bra, ket).expectation_value_multi_sites(ops, i0)` on a finite chain: operators
inserted on the ket, everything contracted with transfer matrices, times both norms. -/
def sandwich (cj : α → α) (bra ket : MPSM α) (ops : List (Option (Mat α))) : α :=
  overlapTM cj (fun a => delta a 0) (fun a => delta a 0) (bra.envSites 0)
    (applyOps ops (ket.envSites 0)) 1 1 (fun a => delta a 0) (fun a => delta a 0)
    * cj bra.norm * ket.norm

/-- `norm_test()[i]`: the two matrices whose norms are returned,
`Σ_{p,b} θ θ* - diag(S_L²)` and `Σ_{a,p} θ* θ - diag(S_R²)`. -/
def normTestL (cj : α → α) (M : MPSM α) (i : Int) : Mat α :=
  let s := M.getBsite i fTh
  fun a a' => sumN s.d (fun p => sumN s.dR (fun b => s.M a p b * cj (s.M a' p b)))

def normTestR (cj : α → α) (M : MPSM α) (i : Int) : Mat α :=
  let s := M.getBsite i fTh
  fun b b' => sumN s.dL (fun a => sumN s.d (fun p => s.M a p b * cj (s.M a p b')))

end MPSM

/-- `sample_measurements` on a finite chain, all sites, for the outcome `σ` that was drawn:
`w i` is the norm the code divides by after projecting site `i` (`winv i` its inverse); the
returned `total_weight` is `Π w_i · theta[0,0] / w_{L-1}`.  The chain is
`[get_theta(0,1), get_B(1), …]`. -/
def sampleGo (w winv : Nat → α) : Nat → Vec α → α → List (RSite α) → List Nat → α
  | i, v, tot, [s], [p] => tot * w i * (vstep v s p 0 * winv i)
  | i, v, tot, s :: ss, p :: ps =>
      sampleGo w winv (i + 1) (fun b => winv i * vstep v s p b) (tot * w i) ss ps
  | _, _, _, _, _ => 0

end ring
end TenpyModel.MPS
