import TenpyModel.MPS.Scalar
/-
Raw matrix-product chains: a list of rank-3 tensors with explicit bond dimensions, contracted
left to right exactly the way `MPS.get_theta` / `MPSEnvironment._contract_LP` do
(`npc.tensordot(theta, B, axes=['vR','vL'])`), no canonical-form bookkeeping.
The bookkeeping layer (`TenpyModel/MPS/Basic.lean`) reduces to this one.
-/
namespace TenpyModel.MPS

universe u
variable {α : Type u}

/-- one site of a raw chain: tensor `M a p b` with `a < dL`, `p < d`, `b < dR`. -/
structure RSite (α : Type u) where
  dL : Nat
  d : Nat
  dR : Nat
  M : T3 α

section ring
variable [Zero α] [One α] [Add α] [Mul α]

/-- `tensordot(v, B[:, p, :], axes=[vR, vL])`: row vector times the `p`-slice of the site. -/
def vstep (v : Vec α) (s : RSite α) (p : Nat) : Vec α :=
  fun b => sumN s.dL (fun a => v a * s.M a p b)

/-- left-to-right contraction of the chain for the basis configuration `σ` (one physical index per
site), starting from the row vector `v` on the left-most bond.  Length mismatch gives `0`. -/
def contract : Vec α → List (RSite α) → List Nat → Vec α
  | v, [], [] => v
  | v, s :: ss, p :: ps => contract (vstep v s p) ss ps
  | _, _, _ => fun _ => 0

/-- close an open right bond of dimension `n` with the vector `w`. -/
def close (n : Nat) (v w : Vec α) : α := sumN n (fun a => v a * w a)

/-- dimension of the right-most bond of a chain whose left-most bond has dimension `n0`. -/
def lastDim (n0 : Nat) : List (RSite α) → Nat
  | [] => n0
  | s :: ss => lastDim s.dR ss

/-- bond dimensions fit together: `dR` of a site is `dL` of the next one. -/
def ChainOK (n0 : Nat) : List (RSite α) → Prop
  | [] => True
  | s :: ss => s.dL = n0 ∧ ChainOK s.dR ss

/-- the amplitude written as nested sums from the right,
`Σ_{b₁} M₀(a,σ₀,b₁) Σ_{b₂} M₁(b₁,σ₁,b₂) … w(b_L)` — "the matrix product of the given tensors". -/
def pathSum (w : Vec α) : List (RSite α) → List Nat → Nat → α
  | [], [], a => w a
  | s :: ss, p :: ps, a => sumN s.dR (fun b => s.M a p b * pathSum w ss ps b)
  | _, _, _ => 0

/-- physical dimensions of a chain -/
def dims (ss : List (RSite α)) : List Nat := ss.map (·.d)

/-! ### transfer matrices (`MPSEnvironment._contract_LP`, `TransferMatrix.matvec` transposed) -/

/-- one step of the left environment: `LP' = B_bra^* · (LP · B_ket)`;
`E a' a` has the bra index first (`vR*`, `vR`). -/
def tmStep (cj : α → α) (E : Mat α) (sb sk : RSite α) : Mat α :=
  fun b' b => sumN sk.d (fun p => sumN sb.dL (fun a' =>
    cj (sb.M a' p b') * sumN sk.dL (fun a => E a' a * sk.M a p b)))

def tmFold (cj : α → α) : Mat α → List (RSite α) → List (RSite α) → Mat α
  | E, [], [] => E
  | E, sb :: sbs, sk :: sks => tmFold cj (tmStep cj E sb sk) sbs sks
  | _, _, _ => fun _ _ => 0

/-- rank-one start `LP[0] = conj(v_bra) ⊗ v_ket` -/
def outer (cj : α → α) (vb vk : Vec α) : Mat α := fun a' a => cj (vb a') * vk a

/-- contract the final environment with closing vectors on the right. -/
def closeMat (cj : α → α) (nb nk : Nat) (E : Mat α) (wb wk : Vec α) : α :=
  sumN nb (fun a' => sumN nk (fun a => E a' a * (cj (wb a') * wk a)))

/-- `<bra|ket>` by site-by-site transfer-matrix contraction. -/
def overlapTM (cj : α → α) (vb vk : Vec α) (sbs sks : List (RSite α)) (nb nk : Nat)
    (wb wk : Vec α) : α :=
  closeMat cj nb nk (tmFold cj (outer cj vb vk) sbs sks) wb wk

/-- identity start (`init_LP` of an environment) -/
def idMat : Mat α := fun a' a => delta a' a

/-! ### operators -/

/-- `npc.tensordot(op, B, axes=['p*','p'])`: apply the one-site operator `O p q` to a site. -/
def opSite (O : Mat α) (s : RSite α) : RSite α :=
  { s with M := fun a p b => sumN s.d (fun q => O p q * s.M a q b) }

/-- apply `O` on site `k` of the chain. -/
def applyAt (k : Nat) (O : Mat α) : List (RSite α) → List (RSite α)
  | [] => []
  | s :: ss => match k with
    | 0 => opSite O s :: ss
    | k + 1 => s :: applyAt k O ss

/-- apply one operator per site (`apply_product_op`, `expectation_value_multi_sites`);
`none` = identity (the `'Id'` short cut of the code). -/
def applyOps : List (Option (Mat α)) → List (RSite α) → List (RSite α)
  | o :: os, s :: ss => (match o with | some O => opSite O s | none => s) :: applyOps os ss
  | _, ss => ss

/-- `B.iscale_axis(signs, 'vL')` (`apply_JW_string_left_of_virt_leg`). -/
def signLeft (g : Vec α) (s : RSite α) : RSite α :=
  { s with M := fun a p b => g a * s.M a p b }

/-- scale the right leg with a vector (absorbing singular values / a diagonal gauge). -/
def scaleRight (g : Vec α) (s : RSite α) : RSite α :=
  { s with M := fun a p b => s.M a p b * g b }

/-- multiply a matrix into the right leg: `tensordot(B, X, axes=['vR','vL'])`, new `dR = n`. -/
def mulRight (s : RSite α) (X : Mat α) (n : Nat) : RSite α :=
  { s with dR := n, M := fun a p b' => sumN s.dR (fun b => s.M a p b * X b b') }

/-- multiply a matrix into the left leg: `tensordot(X, B, axes=['vR','vL'])`, new `dL = n`. -/
def mulLeft (X : Mat α) (n : Nat) (s : RSite α) : RSite α :=
  { s with dL := n, M := fun a' p b => sumN s.dL (fun a => X a' a * s.M a p b) }

/-! ### transformations -/

/-- `B.replace_labels(['vL','vR'],['vR','vL']).transpose(...)` -/
def transposeSite (s : RSite α) : RSite α :=
  { dL := s.dR, d := s.d, dR := s.dL, M := fun a p b => s.M b p a }

/-- `spatial_inversion` on a raw chain -/
def reverseChain (ss : List (RSite α)) : List (RSite α) := (ss.map transposeSite).reverse

/-- `get_theta(i, 2)` with the two physical legs combined in C order (`combine_legs`), i.e.
`group_sites(n=2)` for one pair of sites. -/
def groupPair (s t : RSite α) : RSite α :=
  { dL := s.dL, d := s.d * t.d, dR := t.dR,
    M := fun a P b => sumN s.dR (fun c => s.M a (P / t.d) c * t.M c (P % t.d) b) }

/-- group neighbouring sites pairwise (an odd site at the end is left alone). -/
def groupPairs : List (RSite α) → List (RSite α)
  | s :: t :: rest => groupPair s t :: groupPairs rest
  | ss => ss

/-- physical indices of the ungrouped chain belonging to grouped indices. -/
def ungroupCfg : List (RSite α) → List Nat → List Nat
  | _ :: t :: rest, P :: Ps => (P / t.d) :: (P % t.d) :: ungroupCfg rest Ps
  | _, Ps => Ps

/-- `npc.grid_concat([[B1, 0], [0, B2]])`: block-diagonal direct sum of two sites. -/
def blockDiag (s t : RSite α) : RSite α :=
  { dL := s.dL + t.dL, d := s.d, dR := s.dR + t.dR,
    M := fun a p b =>
      if a < s.dL then (if b < s.dR then s.M a p b else 0)
      else (if b < s.dR then 0 else t.M (a - s.dL) p (b - s.dR)) }

/-- first site of `MPS.add`: `grid_concat([[alpha*theta_self, beta*theta_other]])` (same `vL`). -/
def blockRow (x y : α) (s t : RSite α) : RSite α :=
  { dL := s.dL, d := s.d, dR := s.dR + t.dR,
    M := fun a p b => if b < s.dR then x * s.M a p b else y * t.M a p (b - s.dR) }

/-- last site of `MPS.add`: `grid_concat([[B_self], [B_other]])` (same `vR`). -/
def blockCol (s t : RSite α) : RSite α :=
  { dL := s.dL + t.dL, d := s.d, dR := s.dR,
    M := fun a p b => if a < s.dL then s.M a p b else t.M (a - s.dL) p b }

def blockDiagList : List (RSite α) → List (RSite α) → List (RSite α)
  | [s], [t] => [blockCol s t]
  | s :: ss, t :: ts => blockDiag s t :: blockDiagList ss ts
  | _, _ => []

/-- the tensors of `MPS.add(other, x, y)` before `canonical_form_finite` (needs `L ≥ 2`). -/
def addChain (x y : α) : List (RSite α) → List (RSite α) → List (RSite α)
  | s :: ss, t :: ts => blockRow x y s t :: blockDiagList ss ts
  | _, _ => []

/-- A chain `ss'` is an *enlargement* of `ss` (`enlarge_chi`): larger bonds, the old tensor in
the upper-left block, **zero** new columns; the new rows are arbitrary. -/
def IsPadding : List (RSite α) → List (RSite α) → Prop
  | [], [] => True
  | s :: ss, s' :: ss' =>
      s.dL ≤ s'.dL ∧ s.dR ≤ s'.dR ∧ s.d = s'.d ∧
      (∀ a p b, a < s.dL → b < s.dR → s'.M a p b = s.M a p b) ∧
      (∀ a p b, a < s.dL → s.dR ≤ b → s'.M a p b = 0) ∧ IsPadding ss ss'
  | _, _ => False

end ring
end TenpyModel.MPS
