import TenpyModel.MPS.BasicProofs
/-!
`convert_form` / `get_B` / `get_theta`: changing the stored form leaves every `get_theta` (hence
the state) unchanged.  Constructors denote their input.
-/
namespace TenpyModel.MPS

universe u
variable {α : Type u} [CommSemiring α]
set_option linter.unusedSectionVars false

namespace MPSM

/-- Well-formedness used by the form-conversion theorems: singular values invertible on their
bond (`S > 0`), tensor dimensions = lengths of the adjacent `S` (`MPS.test_sanity`). -/
structure WF (M : MPSM α) : Prop where
  inv : ∀ k a, a < (M.bond k).chi → (M.bond k).R a * (M.bond k).Rinv a = 1
  dimL : ∀ i, M.Window i 1 → (M.siteAt i).dL = (M.getSL i).chi
  dimR : ∀ i, M.Window i 1 → (M.siteAt i).dR = (M.getSR i).chi

theorem WF.invL {M : MPSM α} (h : M.WF) (i : Int) (a : Nat) (ha : a < (M.getSL i).chi) :
    (M.getSL i).R a * (M.getSL i).Rinv a = 1 := h.inv _ a ha

theorem WF.invR {M : MPSM α} (h : M.WF) (i : Int) (a : Nat) (ha : a < (M.getSR i).chi) :
    (M.getSR i).R a * (M.getSR i).Rinv a = 1 := h.inv _ a ha

theorem Window.one_of_succ {M : MPSM α} {i : Int} {n : Nat} (h : M.Window i (n + 1)) :
    M.Window i 1 := by
  rcases h with h | ⟨h1, h2, h3⟩
  · exact Or.inl h
  · exact Or.inr ⟨h1, h2, by push_cast at h3 ⊢; omega⟩

/-- `_to_valid_site_index` is idempotent -/
theorem siteIdx_idem {M : MPSM α} {i : Int} (h : M.Window i 1) :
    M.siteIdx ((M.siteIdx i : Nat) : Int) = M.siteIdx i := by
  have hlt := h.siteIdx_lt
  rcases h with ⟨h1, h2⟩ | ⟨h1, _, _⟩
  · have hfb : M.finiteBC = false := by simp [finiteBC, h1]
    have hL : M.L ≠ 0 := by omega
    have e : ∀ j : Int, M.siteIdx j = (j % (M.L : Int)).toNat := by
      intro j; simp [siteIdx, siteIdx?, hL, hfb]
    rw [e, e]
    have hpos : (0 : Int) < (M.L : Int) := by omega
    have h0 := Int.emod_nonneg i (by omega : (M.L : Int) ≠ 0)
    have h1' := Int.emod_lt_of_pos i hpos
    rw [Int.toNat_of_nonneg h0, Int.emod_emod_of_dvd i (dvd_refl _)]
  · exact siteIdx_finite_nat M h1 _ hlt

theorem bondIdxL_eq {M : MPSM α} (i : Int) : M.bondIdx i true = M.siteIdx i := by
  unfold bondIdx; split <;> simp

theorem getSL_idem {M : MPSM α} {i : Int} (h : M.Window i 1) :
    M.getSL ((M.siteIdx i : Nat) : Int) = M.getSL i := by
  simp only [getSL, bondIdxL_eq, siteIdx_idem h]

theorem getSR_idem {M : MPSM α} {i : Int} (h : M.Window i 1) :
    M.getSR ((M.siteIdx i : Nat) : Int) = M.getSR i := by
  have hlt := h.siteIdx_lt
  rcases h with ⟨h1, h2⟩ | ⟨h1, h2, h3⟩
  · have hfb : M.finiteBC = false := by simp [finiteBC, h1]
    have hL : M.L ≠ 0 := by omega
    have e : ∀ j : Int, M.siteIdx j = (j % (M.L : Int)).toNat := by
      intro j; simp [siteIdx, siteIdx?, hL, hfb]
    simp only [getSR, bondIdx, hfb]
    congr 1
    simp only [Bool.false_eq_true, if_false]
    rw [e, e, e]
    have h0 := Int.emod_nonneg i (by omega : (M.L : Int) ≠ 0)
    rw [Int.toNat_of_nonneg h0, Int.emod_add_emod]
  · have hfb : M.finiteBC = true := by simp [finiteBC, h1]
    simp only [getSR, bondIdx, hfb, if_true]
    rw [siteIdx_finite_nat M h1 _ hlt]

theorem siteAt_idem {M : MPSM α} {i : Int} (h : M.Window i 1) :
    M.siteAt ((M.siteIdx i : Nat) : Int) = M.siteAt i := by
  simp only [siteAt, siteIdx_idem h]

theorem formAt_idem {M : MPSM α} {i : Int} (h : M.Window i 1) :
    M.formAt ((M.siteIdx i : Nat) : Int) = M.formAt i := by
  simp only [formAt, siteAt_idem h]

/-! ### what `convert_form` does to one site -/

section convert
variable (M : MPSM α) (nf : Nat → Form)

theorem convert_getSL (i : Int) : (M.convertForm nf).getSL i = M.getSL i := rfl
theorem convert_getSR (i : Int) : (M.convertForm nf).getSR i = M.getSR i := rfl
theorem convert_siteIdx (i : Int) : (M.convertForm nf).siteIdx i = M.siteIdx i := rfl

theorem convert_window {i : Int} {n : Nat} (h : M.Window i n) : (M.convertForm nf).Window i n := h

theorem convert_siteAt {i : Int} (h : M.Window i 1) :
    (M.convertForm nf).siteAt i =
      { M.siteAt i with
        B := M.getB i (some (some (nf (M.siteIdx i)).1, some (nf (M.siteIdx i)).2)),
        form := some (nf (M.siteIdx i)) } := by
  have hlt := h.siteIdx_lt
  show (M.convertForm nf).site (M.siteIdx i) = _
  simp only [convertForm, hlt, if_true]
  have : M.getB ((M.siteIdx i : Nat) : Int)
      (some (some (nf (M.siteIdx i)).1, some (nf (M.siteIdx i)).2))
      = M.getB i (some (some (nf (M.siteIdx i)).1, some (nf (M.siteIdx i)).2)) := by
    funext a p c
    rw [getB_both, getB_both, getSL_idem h, getSR_idem h, formAt_idem h, siteAt_idem h]
  rw [this]; rfl

theorem convert_formAt {i : Int} (h : M.Window i 1) :
    (M.convertForm nf).formAt i = nf (M.siteIdx i) := by
  simp only [formAt, convert_siteAt M nf h]; rfl

theorem convert_B {i : Int} (h : M.Window i 1) (a p c : Nat) :
    ((M.convertForm nf).siteAt i).B a p c
      = Spow (M.getSL i) ((nf (M.siteIdx i)).1 - (M.formAt i).1) a * (M.siteAt i).B a p c
        * Spow (M.getSR i) ((nf (M.siteIdx i)).2 - (M.formAt i).2) c := by
  rw [convert_siteAt M nf h]; exact getB_both M i _ _ a p c

theorem convert_dL {i : Int} (h : M.Window i 1) :
    ((M.convertForm nf).siteAt i).dL = (M.siteAt i).dL := by
  rw [convert_siteAt M nf h]

theorem convert_d {i : Int} (h : M.Window i 1) :
    ((M.convertForm nf).siteAt i).d = (M.siteAt i).d := by
  rw [convert_siteAt M nf h]

theorem convert_dR {i : Int} (h : M.Window i 1) :
    ((M.convertForm nf).siteAt i).dR = (M.siteAt i).dR := by
  rw [convert_siteAt M nf h]

theorem convert_WF (hWF : M.WF) : (M.convertForm nf).WF :=
  ⟨hWF.inv,
   fun i h => by rw [convert_dL M nf h]; exact hWF.dimL i h,
   fun i h => by rw [convert_dR M nf h]; exact hWF.dimR i h⟩

/-- **`get_B` does not depend on the stored form**: after `convert_form`, asking for any form
returns the same tensor as before (on the index ranges of the bonds). -/
theorem getB_convert (hWF : M.WF) {i : Int} (h : M.Window i 1) (l r : Int) (a p c : Nat)
    (ha : a < (M.getSL i).chi) (hc : c < (M.getSR i).chi) :
    (M.convertForm nf).getB i (some (some l, some r)) a p c
      = M.getB i (some (some l, some r)) a p c := by
  rw [getB_both, getB_both, convert_formAt M nf h, convert_B M nf h, convert_getSL, convert_getSR]
  have e1 : l - (M.formAt i).1 = (l - (nf (M.siteIdx i)).1) + ((nf (M.siteIdx i)).1 - (M.formAt i).1) := by
    ring
  have e2 : r - (M.formAt i).2 = ((nf (M.siteIdx i)).2 - (M.formAt i).2) + (r - (nf (M.siteIdx i)).2) := by
    ring
  rw [e1, e2, Spow_add _ _ (hWF.invL i a ha), Spow_add _ _ (hWF.invR i c hc)]
  ring

/-- main induction: the tensors `get_theta` contracts after `convert_form` differ from the ones
before by diagonal gauges `S^(Δnu_R)` that cancel bond by bond. -/
theorem theta_convert_aux (hWF : M.WF) (fR : Int) (ps : List Nat) :
    ∀ (p : Nat) (i tL tL' : Int) (v v' : Vec α), M.Window i (ps.length + 1) →
      (∀ a, a < (M.getSL i).chi → v' a = v a * Spow (M.getSL i) (tL - tL') a) →
      ∀ c, c < (M.getSR (i + ps.length)).chi →
        contract v' (thetaSites (M.convertForm nf) fR i tL' (ps.length + 1)) (p :: ps) c
          = contract v (thetaSites M fR i tL (ps.length + 1)) (p :: ps) c := by
  induction ps with
  | nil =>
    intro p i tL tL' v v' hw hv c hc
    have hw1 : M.Window i 1 := hw
    simp only [List.length_nil, Nat.zero_add, thetaSites, contract, vstep, getBsite]
    rw [convert_dL M nf hw1, hWF.dimL i hw1]
    simp only [Int.natCast_zero, Int.add_zero, List.length_nil] at hc
    refine sumN_congr (fun a ha => ?_)
    rw [hv a ha, getB_both, getB_both, convert_formAt M nf hw1, convert_B M nf hw1,
      convert_getSL, convert_getSR]
    have e1 : tL - (M.formAt i).1
        = (tL - tL') + ((tL' - (nf (M.siteIdx i)).1) + ((nf (M.siteIdx i)).1 - (M.formAt i).1)) := by
      ring
    have e2 : fR - (M.formAt i).2
        = ((nf (M.siteIdx i)).2 - (M.formAt i).2) + (fR - (nf (M.siteIdx i)).2) := by ring
    rw [e1, e2, Spow_add _ _ (hWF.invL i a ha), Spow_add _ _ (hWF.invL i a ha),
      Spow_add _ _ (hWF.invR i c hc)]
    ring
  | cons q rest ih =>
    intro p i tL tL' v v' hw hv c hc
    have hw1 : M.Window i 1 := Window.one_of_succ hw
    have hwt : M.Window (i + 1) (rest.length + 1) := Window.tail hw
    have hSR : M.getSR i = M.getSL (i + 1) := getSR_eq_getSL_succ (n := rest.length) hw
    simp only [List.length_cons, thetaSites, contract]
    have hc' : c < (M.getSR (i + 1 + (rest.length : Int))).chi := by
      have : i + 1 + (rest.length : Int) = i + ((q :: rest).length : Int) := by
        simp only [List.length_cons]; push_cast; ring
      rw [this]; exact hc
    rw [convert_formAt M nf hw1]
    refine ih q (i + 1) (2 - (M.formAt i).2) (2 - (nf (M.siteIdx i)).2) _ _ hwt ?_ c hc'
    intro b hb
    simp only [vstep, getBsite]
    rw [convert_dL M nf hw1, hWF.dimL i hw1, sumN_mul]
    refine sumN_congr (fun a ha => ?_)
    rw [hv a ha, getB_left, getB_left, convert_formAt M nf hw1, convert_B M nf hw1,
      convert_getSL, ← hSR]
    have e1 : tL - (M.formAt i).1
        = (tL - tL') + ((tL' - (nf (M.siteIdx i)).1) + ((nf (M.siteIdx i)).1 - (M.formAt i).1)) := by
      ring
    have e2 : 2 - (M.formAt i).2 - (2 - (nf (M.siteIdx i)).2)
        = (nf (M.siteIdx i)).2 - (M.formAt i).2 := by ring
    rw [e1, e2, Spow_add _ _ (hWF.invL i a ha), Spow_add _ _ (hWF.invL i a ha)]
    ring

end convert

/-- `get_theta(i, n)` is invariant under `convert_form` (any window, any open indices in range). -/
theorem theta_convert (M : MPSM α) (nf : Nat → Form) (hWF : M.WF) (i : Int) (σ : List Nat)
    (hne : σ ≠ []) (hw : M.Window i σ.length) (aL aR : Nat)
    (hR : aR < (M.getSR (i + σ.length - 1)).chi) :
    (M.convertForm nf).theta i aL σ aR = M.theta i aL σ aR := by
  cases σ with
  | nil => exact absurd rfl hne
  | cons p ps =>
    simp only [theta, List.length_cons]
    have hR' : aR < (M.getSR (i + (ps.length : Int))).chi := by
      have : i + ((p :: ps).length : Int) - 1 = i + (ps.length : Int) := by
        simp only [List.length_cons]; push_cast; ring
      rw [← this]; exact hR
    refine theta_convert_aux M nf hWF 2 ps p i 2 2 _ _ hw (fun a _ => ?_) aR hR'
    simp [Spow_zero]

end MPSM
end TenpyModel.MPS
