import TenpyModel.MPS.MeasureProofs
import TenpyModel.MPS.FormProofs
/-!
`MPS.overlap` on the bookkeeping layer: the tensors `MPSEnvironment.full_contraction(0)` contracts
(`'A'` form on site 0, the singular values, `'B'` forms to the right) denote the same state as
`get_theta(0, L)`, hence `overlap(bra, ket) = Σ_σ conj(toState bra σ) · toState ket σ`.
-/
namespace TenpyModel.MPS

universe u
variable {α : Type u} [CommSemiring α]
set_option linter.unusedSectionVars false

/-- two chains with the same dimensions whose tensors agree on the index ranges -/
def ChainEqOn : List (RSite α) → List (RSite α) → Prop
  | [], [] => True
  | s :: ss, t :: ts =>
      s.dL = t.dL ∧ s.dR = t.dR ∧ (∀ a p c, a < s.dL → c < s.dR → s.M a p c = t.M a p c) ∧ ChainEqOn ss ts
  | _, _ => False

theorem contract_chainEqOn (ss : List (RSite α)) :
    ∀ (ts : List (RSite α)) (n0 : Nat) (v v' : Vec α) (σ : List Nat), ChainEqOn ss ts → ChainOK n0 ss →
      (∀ a, a < n0 → v a = v' a) →
      ∀ c, c < lastDim n0 ss → contract v ss σ c = contract v' ts σ c := by
  induction ss with
  | nil =>
    intro ts n0 v v' σ h _ hv c hc
    cases ts with
    | nil => cases σ with
      | nil => exact hv c hc
      | cons _ _ => rfl
    | cons _ _ => simp [ChainEqOn] at h
  | cons s ss ih =>
    intro ts n0 v v' σ h hc hv c hcl
    cases ts with
    | nil => simp [ChainEqOn] at h
    | cons t ts =>
      obtain ⟨h1, h2, h3, h4⟩ := h
      cases σ with
      | nil => rfl
      | cons p ps =>
        simp only [contract, lastDim] at hcl ⊢
        refine ih ts s.dR _ _ ps h4 hc.2 ?_ c hcl
        intro b hb
        simp only [vstep, ← h1]
        exact sumN_congr (fun a ha => by rw [hv a (hc.1 ▸ ha), h3 a p b ha hb])

namespace MPSM

/-- the forms `['Th', 'B', 'B', …]` -/
def envForms : Nat → Form := fun k => if k = 0 then formTh else formB

theorem formTh_eq : formTh = (2, 2) := by decide
theorem formB_eq : formB = (0, 2) := by decide
theorem formA_eq : formA = (2, 0) := by decide

/-- with stored forms `['Th','B','B',…]` `get_theta` multiplies no singular values at all -/
theorem thetaSites_envForms (M : MPSM α) (hbc : M.bc ≠ BC.infinite) (n : Nat) :
    ∀ (k : Nat), k + n = M.L → (∀ j, j < M.L → (M.site j).form = some (envForms j)) →
      M.thetaSites 2 (k : Int) (if k = 0 then 2 else 0) n = M.plainSites (k : Int) n := by
  induction n using Nat.strongRecOn with
  | _ n ih =>
    intro k hk hf
    have hform : ∀ j, j < M.L → M.formAt (j : Int) = envForms j := by
      intro j hj
      simp only [formAt, siteAt, siteIdx_finite_nat M hbc j hj, hf j hj, Option.getD_some]
    match n, hk with
    | 0, _ => rfl
    | 1, hk =>
      have hkL : k < M.L := by omega
      simp only [thetaSites, plainSites]
      congr 1
      simp only [getBsite, getB, hform k hkL, envForms]
      by_cases h0 : k = 0
      · simp [h0, formTh_eq, scaleL, scaleR]
      · simp [h0, formB_eq, scaleL, scaleR]
    | n + 2, hk =>
      have hkL : k < M.L := by omega
      simp only [thetaSites, plainSites]
      have e : ((k : Int) + 1) = ((k + 1 : Nat) : Int) := by push_cast; ring
      have ihk := ih (n + 1) (by omega) (k + 1) (by omega) hf
      simp only [show ¬ k + 1 = 0 from by omega, if_false] at ihk
      have hr : (2 : Int) - (M.formAt (k : Int)).2 = 0 := by
        rw [hform k hkL]; simp only [envForms]
        by_cases h0 : k = 0
        · simp [h0, formTh_eq]
        · simp [h0, formB_eq]
      rw [hr, e, ihk]
      congr 1
      simp only [getBsite, getB, hform k hkL, envForms]
      by_cases h0 : k = 0
      · simp [h0, formTh_eq, scaleL]
      · simp [h0, formB_eq, scaleL]

end MPSM
end TenpyModel.MPS

namespace TenpyModel.MPS

universe u
variable {α : Type u} [CommSemiring α]
set_option linter.unusedSectionVars false

theorem chainEqOn_refl (ss : List (RSite α)) : ChainEqOn ss ss := by
  induction ss with
  | nil => trivial
  | cons s ss ih => exact ⟨rfl, rfl, fun _ _ _ _ _ => rfl, ih⟩

theorem sumCfg_congr_len {ds : List Nat} {f g : List Nat → α}
    (h : ∀ σ, σ.length = ds.length → f σ = g σ) : sumCfg ds f = sumCfg ds g := by
  induction ds generalizing f g with
  | nil => exact h [] rfl
  | cons d ds ih =>
    simp only [sumCfg]
    exact sumN_congr (fun p _ => ih (fun ps hps => h (p :: ps) (by simp [hps])))

namespace MPSM

theorem formSites_length (M : MPSM α) (nf : Option (Option Int × Option Int)) (n : Nat) :
    ∀ i : Int, (M.formSites nf i n).length = n := by
  induction n with
  | zero => intro i; rfl
  | succ n ih => intro i; simp [formSites, ih]

theorem winNat (M : MPSM α) (hbc : M.bc ≠ BC.infinite) (k : Nat) (hk : k < M.L) : M.Window (k : Int) 1 :=
  Or.inr ⟨hbc, by omega, by push_cast; omega⟩

/-- sites `k ≥ 1`: `get_B(k, 'B')` is the stored tensor of the MPS converted to `['Th','B',…]` -/
theorem formSites_eq_plain_convert (M : MPSM α) (hbc : M.bc ≠ BC.infinite) (n : Nat) :
    ∀ k : Nat, 1 ≤ k → k + n = M.L →
      M.formSites fB (k : Int) n = (M.convertForm envForms).plainSites (k : Int) n := by
  induction n with
  | zero => intro k _ _; rfl
  | succ n ih =>
    intro k hk1 hk
    have hkL : k < M.L := by omega
    simp only [formSites, plainSites]
    have e : ((k : Int) + 1) = ((k + 1 : Nat) : Int) := by push_cast; ring
    rw [e, ih (k + 1) (by omega) (by omega)]
    congr 1
    have hw := winNat M hbc k hkL
    simp only [getBsite, getB, convert_siteAt M envForms hw, siteIdx_finite_nat M hbc k hkL, envForms,
      show ¬ k = 0 from by omega, if_false, fB]

/-- the tensors contracted by `full_contraction(0)` agree (on the bond ranges) with the stored
tensors of the MPS converted to the forms `['Th','B','B',…]` -/
theorem envSites_chainEqOn (M : MPSM α) (hWF : M.WF) (hbc : M.bc ≠ BC.infinite) (hL : 0 < M.L) :
    ChainEqOn (M.envSites 0) ((M.convertForm envForms).plainSites 0 M.L) := by
  obtain ⟨n, hn⟩ : ∃ n, M.L = n + 1 := ⟨M.L - 1, by omega⟩
  have hw0 : M.Window (0 : Int) 1 := by
    have := winNat M hbc 0 hL; simpa using this
  have hrest := formSites_eq_plain_convert M hbc n 1 (le_refl _) (by omega)
  simp only [envSites, formSites, Nat.zero_add, List.dropLast, List.getLast?_singleton, Option.map_some,
    Option.toList_some, List.nil_append, List.cons_append, hn, Nat.add_sub_cancel, plainSites,
    Nat.cast_zero, zero_add]
  have e1 : ((1 : Nat) : Int) = 1 := rfl
  rw [e1] at hrest
  rw [hrest]
  refine ⟨?_, ?_, ?_, chainEqOn_refl _⟩
  · simp only [scaleRight, getBsite, convert_siteAt M envForms hw0]
  · simp only [scaleRight, getBsite, convert_siteAt M envForms hw0]
  · intro a p c ha hc
    simp only [scaleRight, getBsite] at ha hc ⊢
    rw [hWF.dimR 0 hw0] at hc
    have hs0 : M.siteIdx (0 : Int) = 0 := by
      have := siteIdx_finite_nat M hbc 0 hL; simpa using this
    simp only [getB, convert_siteAt M envForms hw0, hs0, envForms, if_true, fA, formA_eq, formTh_eq,
      scaleL_apply, scaleR_apply]
    have e2 : (2 : Int) - (M.formAt 0).2 = (0 - (M.formAt 0).2) + 2 := by ring
    rw [e2, Spow_add _ _ (hWF.invR 0 c hc)]
    ring

/-- **the environment tensors denote the state**: contracting what `full_contraction(0)`
contracts gives `get_theta(0, L)`. -/
theorem contract_envSites (M : MPSM α) (hWF : M.WF) (hbc : M.bc ≠ BC.infinite) (hL : 0 < M.L)
    (hchain : ChainOK 1 (M.envSites 0)) (hlast : 0 < lastDim 1 (M.envSites 0))
    (hχ : 0 < (M.getSR ((M.L : Int) - 1)).chi) (σ : List Nat) (hσ : σ.length = M.L) :
    contract (fun a => delta a 0) (M.envSites 0) σ 0 = M.toStateN σ := by
  have h1 := contract_chainEqOn (M.envSites 0) _ 1 (fun a => (delta a 0 : α)) (fun a => delta a 0) σ
    (envSites_chainEqOn M hWF hbc hL) hchain (fun _ _ => rfl) 0 hlast
  rw [h1]
  have hf : ∀ j, j < (M.convertForm envForms).L → ((M.convertForm envForms).site j).form = some (envForms j) := by
    intro j hj
    have hj' : j < M.L := hj
    simp only [convertForm, hj', if_true]
  have h2 := thetaSites_envForms (M.convertForm envForms) hbc M.L 0 (by show 0 + M.L = M.L; omega) hf
  simp only [if_true, Nat.cast_zero] at h2
  rw [← h2]
  have hne : σ ≠ [] := by intro h; rw [h] at hσ; simp at hσ; omega
  have h3 := theta_convert M envForms hWF 0 σ hne (Or.inr ⟨hbc, le_refl _, by rw [hσ]; simp⟩) 0 0
    (by rw [hσ]; simpa using hχ)
  simp only [theta, hσ] at h3
  simp only [toStateN, hσ, if_true, theta]
  exact h3

end MPSM
end TenpyModel.MPS
