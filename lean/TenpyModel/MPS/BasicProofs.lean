import TenpyModel.MPS.ChainProofs
import TenpyModel.MPS.Basic
/-!
Lemmas about the canonical-form bookkeeping (`get_B`, `_scale_axis_B`, `get_theta`,
`convert_form`, constructors).
-/
namespace TenpyModel.MPS

universe u
variable {α : Type u} [CommSemiring α]
set_option linter.unusedSectionVars false

/-! ### powers of singular values -/

theorem Spow_zero (b : Bond α) (a : Nat) : Spow b 0 a = 1 := rfl

theorem Spow_eq_units (b : Bond α) (a : Nat) (h : b.R a * b.Rinv a = 1) (k : Int) :
    Spow b k a = (((⟨b.R a, b.Rinv a, h, by rw [mul_comm]; exact h⟩ : αˣ) ^ k : αˣ) : α) := by
  cases k with
  | ofNat n =>
    simp only [Spow, powN_eq_pow]
    rw [Int.ofNat_eq_natCast, zpow_natCast, Units.val_pow_eq_pow_val]
  | negSucc n =>
    simp only [Spow, powN_eq_pow]
    rw [zpow_negSucc, ← inv_pow, Units.val_pow_eq_pow_val]
    rfl

/-- `S^x · S^y = S^(x+y)` wherever `S` is invertible. -/
theorem Spow_add (b : Bond α) (a : Nat) (h : b.R a * b.Rinv a = 1) (j k : Int) :
    Spow b (j + k) a = Spow b j a * Spow b k a := by
  rw [Spow_eq_units b a h, Spow_eq_units b a h, Spow_eq_units b a h, zpow_add, Units.val_mul]

theorem Spow_oneBond (k : Int) (a : Nat) : Spow (oneBond : Bond α) k a = 1 := by
  cases k <;> simp [Spow, oneBond, powN_one]

theorem scaleL_apply (b : Bond α) (diff : Int) (B : T3 α) (a p c : Nat) :
    scaleL b diff B a p c = Spow b diff a * B a p c := by
  unfold scaleL
  by_cases h : diff = 0
  · subst h; simp [Spow_zero]
  · simp [h]

theorem scaleR_apply (b : Bond α) (diff : Int) (B : T3 α) (a p c : Nat) :
    scaleR b diff B a p c = B a p c * Spow b diff c := by
  unfold scaleR
  by_cases h : diff = 0
  · subst h; simp [Spow_zero]
  · simp [h]

namespace MPSM

/-- `get_B(i, (l, r))` entrywise: `S_L^(l-nuL) · B · S_R^(r-nuR)` -/
theorem getB_both (M : MPSM α) (i : Int) (l r : Int) (a p c : Nat) :
    M.getB i (some (some l, some r)) a p c
      = Spow (M.getSL i) (l - (M.formAt i).1) a * (M.siteAt i).B a p c
        * Spow (M.getSR i) (r - (M.formAt i).2) c := by
  simp only [getB, scaleR_apply, scaleL_apply]

theorem getB_left (M : MPSM α) (i : Int) (l : Int) (a p c : Nat) :
    M.getB i (some (some l, none)) a p c
      = Spow (M.getSL i) (l - (M.formAt i).1) a * (M.siteAt i).B a p c := by
  simp only [getB, scaleL_apply]

/-! ### index arithmetic -/

theorem siteIdx_finite_nat (M : MPSM α) (hf : M.bc ≠ BC.infinite) (j : Nat) (hj : j < M.L) :
    M.siteIdx (j : Int) = j := by
  have hL : M.L ≠ 0 := by omega
  have hfb : M.finiteBC = true := by simp [finiteBC, hf]
  have h2 : (0 : Int) ≤ (j : Int) ∧ (j : Int) < (M.L : Int) := ⟨by omega, by omega⟩
  simp [siteIdx, siteIdx?, hL, hfb, h2]

theorem bondIdx_left_finite_nat (M : MPSM α) (hf : M.bc ≠ BC.infinite) (j : Nat) (hj : j < M.L) :
    M.bondIdx (j : Int) true = j := by
  have hfb : M.finiteBC = true := by simp [finiteBC, hf]
  simp [bondIdx, hfb, siteIdx_finite_nat M hf j hj]

theorem bondIdx_right_finite_nat (M : MPSM α) (hf : M.bc ≠ BC.infinite) (j : Nat) (hj : j < M.L) :
    M.bondIdx (j : Int) false = j + 1 := by
  have hfb : M.finiteBC = true := by simp [finiteBC, hf]
  simp [bondIdx, hfb, siteIdx_finite_nat M hf j hj]

/-- window of sites `i, …, i+n-1` on which `get_theta` is defined: anywhere for an infinite MPS,
inside `[0, L)` for a finite/segment one. -/
def Window (M : MPSM α) (i : Int) (n : Nat) : Prop :=
  (M.bc = BC.infinite ∧ 0 < M.L) ∨ (M.bc ≠ BC.infinite ∧ 0 ≤ i ∧ i + n ≤ M.L)

theorem Window.tail {M : MPSM α} {i : Int} {n : Nat} (h : M.Window i (n + 1)) :
    M.Window (i + 1) n := by
  rcases h with h | ⟨h1, h2, h3⟩
  · exact Or.inl h
  · exact Or.inr ⟨h1, by omega, by push_cast at h3 ⊢; omega⟩

theorem Window.siteIdx_lt {M : MPSM α} {i : Int} {n : Nat} (h : M.Window i (n + 1)) :
    M.siteIdx i < M.L := by
  rcases h with ⟨h1, h2⟩ | ⟨h1, h2, h3⟩
  · have hfb : M.finiteBC = false := by simp [finiteBC, h1]
    have hL : M.L ≠ 0 := by omega
    have e : M.siteIdx i = (i % (M.L : Int)).toNat := by simp [siteIdx, siteIdx?, hL, hfb]
    have hpos : (0 : Int) < (M.L : Int) := by omega
    have := Int.emod_lt_of_pos i hpos
    have h0 := Int.emod_nonneg i (by omega : (M.L : Int) ≠ 0)
    rw [e]; omega
  · push_cast at h3
    obtain ⟨k, rfl⟩ : ∃ k : Nat, i = (k : Int) := ⟨i.toNat, by omega⟩
    rw [siteIdx_finite_nat M h1 k (by omega)]
    omega

/-- the bond right of site `i` is the bond left of site `i+1` -/
theorem getSR_eq_getSL_succ {M : MPSM α} {i : Int} {n : Nat} (h : M.Window i (n + 2)) :
    M.getSR i = M.getSL (i + 1) := by
  rcases h with ⟨h1, _⟩ | ⟨h1, h2, h3⟩
  · have hfb : M.finiteBC = false := by simp [finiteBC, h1]
    simp [getSR, getSL, bondIdx, hfb]
  · push_cast at h3
    obtain ⟨k, rfl⟩ : ∃ k : Nat, i = (k : Int) := ⟨i.toNat, by omega⟩
    have e2 : (k : Int) + 1 = (((k + 1 : Nat)) : Int) := by omega
    simp only [getSR, getSL]
    rw [e2, bondIdx_left_finite_nat M h1 _ (by omega), bondIdx_right_finite_nat M h1 _ (by omega)]

end MPSM
end TenpyModel.MPS
