import TenpyModel.MPS.Chain
import TenpyModel.Gen.C07Forms
/-
Executable model of `tenpy/networks/mps.py :: MPS` — the canonical-form bookkeeping layer.

An `MPSM α` stores per site the rank-3 tensor `_B[i]` with index order `(vL, p, vR)`, its form
exponents `(nuL, nuR)` and per bond the singular values.  Exponents are kept in HALF units
(`Int`; `'B' = (0, 2)`, `'C' = (1, 1)` — generated from `MPS._valid_forms`), and a bond carries
`R = S^(1/2)` and `Rinv = S^(-1/2)` as data, so `S^nu` is the integer power `R^(2 nu)` and the same
definitions run exactly over Gaussian rationals and approximately over floats.
Sites and bonds are indexed by functions `Nat → _` (entries `< L` resp. `≤ L` are meaningful),
mirroring the index arithmetic of the code (`_to_valid_site_index`, `_to_valid_bond_index`).
-/
namespace TenpyModel.MPS

universe u
variable {α : Type u}

inductive BC where
  | finite | segment | infinite
deriving DecidableEq, Repr

/-- singular values on one bond: `chi`, `S^(1/2)` and `S^(-1/2)`. -/
structure Bond (α : Type u) where
  chi : Nat
  R : Vec α
  Rinv : Vec α

/-- exponents in half units -/
abbrev Form := Int × Int

structure Site (α : Type u) where
  dL : Nat
  d : Nat
  dR : Nat
  B : T3 α
  form : Option Form      -- `none` = non-canonical (`MPS.form[i] is None`)

structure MPSM (α : Type u) where
  L : Nat
  site : Nat → Site α
  bond : Nat → Bond α
  norm : α
  bc : BC

/-- look up `MPS._valid_forms[name]` in the generated table -/
def formOf (name : String) : Option Form :=
  match TenpyModel.Gen.C07.validForms.find? (fun e => e.1 == name) with
  | some (_, f) => f
  | none => none

def formA : Form := (formOf "A").getD (0, 0)
def formB : Form := (formOf "B").getD (0, 0)
def formC : Form := (formOf "C").getD (0, 0)
def formG : Form := (formOf "G").getD (0, 0)
def formTh : Form := (formOf "Th").getD (0, 0)

section ring
variable [Zero α] [One α] [Add α] [Mul α]

/-- `S ** (k/2)` on index `a`: `R^k` for `k ≥ 0`, `Rinv^(-k)` for `k < 0`
(`_scale_axis_B`: `1/S` for `form_diff == -1`, `S**form_diff` otherwise). -/
def Spow (b : Bond α) (k : Int) (a : Nat) : α :=
  match k with
  | .ofNat n => powN (b.R a) n
  | .negSucc n => powN (b.Rinv a) (n + 1)

/-- `B.scale_axis(S**diff, 'vL')`, returning `B` itself for `diff == 0` as the code does. -/
def scaleL (b : Bond α) (diff : Int) (B : T3 α) : T3 α :=
  if diff = 0 then B else fun a p c => Spow b diff a * B a p c

/-- `B.scale_axis(S**diff, 'vR')` -/
def scaleR (b : Bond α) (diff : Int) (B : T3 α) : T3 α :=
  if diff = 0 then B else fun a p c => B a p c * Spow b diff c

namespace MPSM

def finiteBC (M : MPSM α) : Bool := M.bc != BC.infinite

/-- `_to_valid_site_index`: index inside the unit cell (negative indices of a finite chain are
still accepted with a deprecation warning and mean `i + L`); `none` = `ValueError`. -/
def siteIdx? (M : MPSM α) (i : Int) : Option Nat :=
  if M.L = 0 then none
  else if M.finiteBC then
    (if 0 ≤ i ∧ i < M.L then some i.toNat
     else if -(M.L : Int) ≤ i ∧ i < 0 then some (i + M.L).toNat else none)
  else some (i % (M.L : Int)).toNat

def siteIdx (M : MPSM α) (i : Int) : Nat := (M.siteIdx? i).getD 0

/-- `_to_valid_bond_index(i_site, is_left)` -/
def bondIdx (M : MPSM α) (i : Int) (isLeft : Bool) : Nat :=
  if M.finiteBC then M.siteIdx i + (if isLeft then 0 else 1)
  else M.siteIdx (i + (if isLeft then 0 else 1))

def siteAt (M : MPSM α) (i : Int) : Site α := M.site (M.siteIdx i)
/-- `get_SL(i)` -/
def getSL (M : MPSM α) (i : Int) : Bond α := M.bond (M.bondIdx i true)
/-- `get_SR(i)` -/
def getSR (M : MPSM α) (i : Int) : Bond α := M.bond (M.bondIdx i false)

/-- stored form with `(0,0)` standing in for `None` (validity is tracked by `canonical`). -/
def formAt (M : MPSM α) (i : Int) : Form := ((M.siteAt i).form).getD (0, 0)

/-- every site has a canonical form (`get_theta` raises otherwise). -/
def canonical (M : MPSM α) : Bool := (List.range M.L).all (fun i => (M.site i).form.isSome)

/-- `get_B(i, form)` for a requested form `(nuL | None, nuR | None)`; `none` = return `_B[i]` as
stored.  (The `ValueError` for converting a non-canonical site is `getBValid`.) -/
def getB (M : MPSM α) (i : Int) (nf : Option (Option Int × Option Int)) : T3 α :=
  let s := M.siteAt i
  match nf with
  | none => s.B
  | some (nl, nr) =>
    let old := M.formAt i
    let B1 := match nl with
      | some l => scaleL (M.getSL i) (l - old.1) s.B
      | none => s.B
    match nr with
    | some r => scaleR (M.getSR i) (r - old.2) B1
    | none => B1

def getBValid (M : MPSM α) (i : Int) (nf : Option (Option Int × Option Int)) : Bool :=
  (M.siteIdx? i).isSome &&
  match nf with
  | none => true
  | some _ => ((M.siteAt i).form).isSome

/-- `get_B` packaged as a site of a raw chain -/
def getBsite (M : MPSM α) (i : Int) (nf : Option (Option Int × Option Int)) : RSite α :=
  let s := M.siteAt i
  { dL := s.dL, d := s.d, dR := s.dR, M := M.getB i nf }

/-- The tensors `get_theta(i, n, formL, formR)` contracts, in order:
`get_B(i, (formL, None))`, then `get_B(i+k, (1 - old_fR, None))`, the last one with `formR` on
the right; for `n = 1` it is `get_B(i, (formL, formR))`.  `tL` is the requested left exponent of
the current site. -/
def thetaSites (M : MPSM α) (formR : Int) : Int → Int → Nat → List (RSite α)
  | _, _, 0 => []
  | i, tL, 1 => [M.getBsite i (some (some tL, some formR))]
  | i, tL, n + 2 =>
      M.getBsite i (some (some tL, none)) :: thetaSites M formR (i + 1) (2 - (M.formAt i).2) (n + 1)

/-- `get_theta(i, n)` (default `formL = formR = 1`) as a function of the open indices:
`theta aL σ aR`. -/
def theta (M : MPSM α) (i : Int) (aL : Nat) (σ : List Nat) (aR : Nat) : α :=
  contract (fun a => delta a aL) (thetaSites M 2 i 2 σ.length) σ aR

/-- The state a finite MPS denotes (`get_theta(0, L)` squeezed), **without** `norm`. -/
def toStateN (M : MPSM α) (σ : List Nat) : α :=
  if σ.length = M.L then M.theta 0 0 σ 0 else 0

/-- `norm * get_theta(0, L)`: amplitudes of the state in the computational basis. -/
def toState (M : MPSM α) (σ : List Nat) : α := M.norm * M.toStateN σ

/-- contraction of the stored `_B` as they are (what `canonical_form_finite` starts from when a
site has `form = None`; `overlap(..., ignore_form=True)`). -/
def plainSites (M : MPSM α) : Int → Nat → List (RSite α)
  | _, 0 => []
  | i, n + 1 => M.getBsite i none :: plainSites M (i + 1) n

def toStatePlain (M : MPSM α) (σ : List Nat) : α :=
  if σ.length = M.L then contract (fun a => delta a 0) (M.plainSites 0 M.L) σ 0 else 0

/-- `convert_form(new_form)`: `set_B(i, get_B(i, form=new_form_i), form=new_form_i)` for every
site. -/
def convertForm (M : MPSM α) (nf : Nat → Form) : MPSM α :=
  { M with site := fun i =>
      if i < M.L then
        { M.site i with B := M.getB i (some (some (nf i).1, some (nf i).2)), form := some (nf i) }
      else M.site i }

/-- a sequence of conversions -/
def convertSeq (M : MPSM α) : List (Nat → Form) → MPSM α
  | [] => M
  | nf :: rest => convertSeq (M.convertForm nf) rest

end MPSM

/-! ### constructors -/

/-- the trivial bond `S = [1.]` -/
def oneBond : Bond α := { chi := 1, R := fun _ => 1, Rinv := fun _ => 1 }

/-- per-site input of `from_Bflat`: dims, the site's basis permutation `site.perm` (identity if
`permute=False`), and `Bflat[i]` with index order `(p, vL, vR)`. -/
structure BflatSite (α : Type u) where
  dL : Nat
  d : Nat
  dR : Nat
  perm : Nat → Nat
  T : Nat → Nat → Nat → α      -- (p, vL, vR)

/-- `from_Bflat` up to (excluding) the final `canonical_form()` call, which happens iff
`L > 1 and max(chi) > 1`:  `B = Bflat[i][site.perm, :, :]`, labels `(p, vL, vR)` transposed to
`(vL, p, vR)` by `MPS.__init__`. -/
def fromBflat (L : Nat) (bs : Nat → BflatSite α) (bonds : Nat → Bond α) (form : Option Form)
    (bc : BC) : MPSM α :=
  { L := L
    site := fun i =>
      let b := bs i
      { dL := b.dL, d := b.d, dR := b.dR, B := fun a p c => b.T (b.perm p) a c, form := form }
    bond := bonds, norm := 1, bc := bc }

/-- one entry of `p_state`: an index (after label translation: `perm = False`) or a local vector. -/
inductive PState (α : Type u) where
  | idx (k : Nat)
  | vec (u : Nat → α)

/-- `from_product_state`: `B[p_st,0,0] = 1` resp. `B = p_st.reshape(d,1,1)`, permuted with
`site.perm` unless the entry was a label/`permute=False`; all `S = [1.]`; then `from_Bflat`
(with `permute=False`). -/
def fromProductState (L : Nat) (d : Nat → Nat) (perm : Nat → Nat → Nat) (permute : Bool)
    (labelled : Nat → Bool) (ps : Nat → PState α) (form : Option Form) (bc : BC) : MPSM α :=
  fromBflat L
    (fun i =>
      let usePerm := permute && !(labelled i)
      let Bd : Nat → α := match ps i with
        | .idx k => fun p => delta p k
        | .vec u => u
      { dL := 1, d := d i, dR := 1, perm := fun p => p,
        T := fun p _ _ => if usePerm then Bd (perm i p) else Bd p })
    (fun _ => oneBond) form bc

/-- local amplitude of site `i` in the site's own basis order -/
def localAmp (perm : Nat → Nat → Nat) (permute : Bool) (labelled : Nat → Bool)
    (ps : Nat → PState α) (i p : Nat) : α :=
  let q := if permute && !(labelled i) then perm i p else p
  match ps i with
  | .idx k => delta q k
  | .vec u => u q

/-- `Π_i amp (i0 + i) σ_i` -/
def prodAmp (amp : Nat → Nat → α) : Nat → List Nat → α
  | _, [] => 1
  | i, p :: ps => amp i p * prodAmp amp (i + 1) ps

end ring
end TenpyModel.MPS
