import TenpyModel.MPS.P2_Sweep
/-!
Round 2 (C07): `MPS.from_full` — the sequence of SVDs that splits the tensors `B[L-1], …, B[1]` off
a dense wave function from the RIGHT (`for i in range(L - 1, 0, -1)`), the factorization being a
parameter with post-condition `psi = U · diag(S) · B`.

The tensor `psi` of the loop has legs `((vL.p0…p_{i-1}).p_i, vR)`; it is modelled as a function of
the left configuration `τ ++ [p_i]` and the right bond index.  After the SVD the code keeps
`psi ← U · S/|S|` for `i > 1`; for `i = 1` it keeps `U` as the `'A'` tensor of site 0 and `get_theta`
multiplies the stored `S/|S|` onto the left leg of `B[1]` (forms `['A','B','B',…]`).
-/
namespace TenpyModel.MPS

universe u
variable {α : Type u}

/-- `psi` inside the loop of `from_full`: amplitudes by (left configuration, right bond index `< n`) -/
structure PsiT (α : Type u) where
  n : Nat
  f : List Nat → Nat → α

/-- result of one `npc.svd(psi)` -/
structure Split (α : Type u) where
  U : PsiT α
  S : Vec α
  B : RSite α

section defs
variable [Zero α] [One α] [Add α] [Mul α]

/-- the loop `for i in range(L - 1, 1, -1)` (site indices `n+1, n, …, 2`): split off `B[i]`, keep
`psi ← U · (S/|S|)`; `nzS i = (|S_i|, 1/|S_i|)`; returns the remaining `psi`, the `'B'` tensors and
the product of the `|S_i|`. -/
def fromFullGo (nzS : Nat → α × α) (split : Nat → PsiT α → Split α) :
    Nat → PsiT α → List (RSite α) → α → PsiT α × List (RSite α) × α
  | 0, Ψ, acc, w => (Ψ, acc, w)
  | n + 1, Ψ, acc, w =>
      let f := split (n + 2) Ψ
      fromFullGo nzS split n
        { n := f.U.n, f := fun τ k => (nzS (n + 2)).2 * (f.U.f τ k * f.S k) }
        (f.B :: acc) (w * (nzS (n + 2)).1)

/-- `from_full` for `L = n + 2` sites: returns the chain that `get_theta(0, L)` contracts for the
resulting MPS in forms `['A','B',…]` — `[U, (S₁/|S₁|)·B₁, B₂, …]` — and the product of all `|S_i|`
(`= ‖psi‖`; divided out, `norm = npc.norm(psi)` if `normalize=False`). -/
def fromFull (nzS : Nat → α × α) (split : Nat → PsiT α → Split α) (d0 : Nat) (n : Nat) (ψ : List Nat → α) :
    List (RSite α) × α :=
  let g := fromFullGo nzS split n { n := 1, f := fun τ _ => ψ τ } [] 1
  let f := split 1 g.1
  ({ dL := 1, d := d0, dR := f.U.n, M := fun _ p k => f.U.f [p] k } ::
     signLeft (fun k => (nzS 1).2 * f.S k) f.B :: g.2.1,
   g.2.2 * (nzS 1).1)

/-- the `(site index, psi)` pairs handed to `npc.svd` by the loop -/
def fromFullGoCalls (nzS : Nat → α × α) (split : Nat → PsiT α → Split α) :
    Nat → PsiT α → List (Nat × PsiT α)
  | 0, _ => []
  | n + 1, Ψ =>
      (n + 2, Ψ) :: fromFullGoCalls nzS split n
        { n := (split (n + 2) Ψ).U.n,
          f := fun τ k => (nzS (n + 2)).2 * ((split (n + 2) Ψ).U.f τ k * (split (n + 2) Ψ).S k) }

def fromFullCalls (nzS : Nat → α × α) (split : Nat → PsiT α → Split α) (n : Nat) (ψ : List Nat → α) :
    List (Nat × PsiT α) :=
  fromFullGoCalls nzS split n { n := 1, f := fun τ _ => ψ τ } ++
    [(1, (fromFullGo nzS split n { n := 1, f := fun τ _ => ψ τ } [] 1).1)]

end defs

variable [CommSemiring α]
set_option linter.unusedSectionVars false

/-- post-condition of the SVD at site `i`: `psi[(τ, p), r] = Σ_k U[τ, k] S[k] B[k, p, r]` for
left configurations `τ` of sites `0 … i-1`, and the shapes fit. -/
structure SplitSpec (split : Nat → PsiT α → Split α) (i : Nat) (Ψ : PsiT α) : Prop where
  dR : (split i Ψ).B.dR = Ψ.n
  dL : (split i Ψ).B.dL = (split i Ψ).U.n
  eq : ∀ τ p r, τ.length = i → r < Ψ.n →
    sumN (split i Ψ).U.n (fun k => (split i Ψ).U.f τ k * (split i Ψ).S k * (split i Ψ).B.M k p r)
      = Ψ.f (τ ++ [p]) r

theorem fromFullGo_inv (nzS : Nat → α × α) (split : Nat → PsiT α → Split α)
    (hnz : ∀ i, (nzS i).1 * (nzS i).2 = 1) (ψ : List Nat → α) (n : Nat) :
    ∀ (Ψ : PsiT α) (acc : List (RSite α)) (w : α),
      (∀ c ∈ fromFullGoCalls nzS split n Ψ, SplitSpec split c.1 c.2) →
      ChainOK Ψ.n acc → lastDim Ψ.n acc = 1 →
      (∀ τ ρ, τ.length = n + 2 → ρ.length = acc.length → w * contract (Ψ.f τ) acc ρ 0 = ψ (τ ++ ρ)) →
      ChainOK (fromFullGo nzS split n Ψ acc w).1.n (fromFullGo nzS split n Ψ acc w).2.1 ∧
      lastDim (fromFullGo nzS split n Ψ acc w).1.n (fromFullGo nzS split n Ψ acc w).2.1 = 1 ∧
      (fromFullGo nzS split n Ψ acc w).2.1.length = acc.length + n ∧
      (∀ τ ρ, τ.length = 2 → ρ.length = (fromFullGo nzS split n Ψ acc w).2.1.length →
        (fromFullGo nzS split n Ψ acc w).2.2 * contract ((fromFullGo nzS split n Ψ acc w).1.f τ)
          (fromFullGo nzS split n Ψ acc w).2.1 ρ 0 = ψ (τ ++ ρ)) := by
  induction n with
  | zero => intro Ψ acc w _ h1 h2 h3; exact ⟨h1, h2, rfl, h3⟩
  | succ n ih =>
    intro Ψ acc w hsAll h1 h2 h3
    have hs : SplitSpec split (n + 2) Ψ := hsAll (n + 2, Ψ) (by simp [fromFullGoCalls])
    have hsRest := fun c hc => hsAll c (by simp only [fromFullGoCalls, List.mem_cons]; exact Or.inr hc)
    simp only [fromFullGo]
    have hc' : ChainOK (split (n + 2) Ψ).U.n ((split (n + 2) Ψ).B :: acc) :=
      ⟨hs.dL, by rw [hs.dR]; exact h1⟩
    have hl' : lastDim (split (n + 2) Ψ).U.n ((split (n + 2) Ψ).B :: acc) = 1 := by
      simp only [lastDim]; rw [hs.dR]; exact h2
    have key : ∀ τ ρ', τ.length = n + 2 → ρ'.length = ((split (n + 2) Ψ).B :: acc).length →
        w * (nzS (n + 2)).1 * contract
          (fun k => (nzS (n + 2)).2 * ((split (n + 2) Ψ).U.f τ k * (split (n + 2) Ψ).S k))
          ((split (n + 2) Ψ).B :: acc) ρ' 0 = ψ (τ ++ ρ') := by
      intro τ ρ' hτ hρ'
      cases ρ' with
      | nil => simp at hρ'
      | cons p ρ =>
        simp only [contract]
        have hρ : ρ.length = acc.length := by simpa using hρ'
        -- one step of the contraction reproduces `psi` (divided by `|S|`) on the bond range
        have hv : ∀ r, r < Ψ.n →
            vstep (fun k => (nzS (n + 2)).2 * ((split (n + 2) Ψ).U.f τ k * (split (n + 2) Ψ).S k))
              (split (n + 2) Ψ).B p r = (nzS (n + 2)).2 * Ψ.f (τ ++ [p]) r := by
          intro r hr
          simp only [vstep]
          rw [← hs.eq τ p r hτ hr, hs.dL, mul_sumN]
          exact sumN_congr (fun k _ => by ring)
        have e := contract_chainEqOn acc acc Ψ.n _ (fun r => (nzS (n + 2)).2 * Ψ.f (τ ++ [p]) r) ρ
          (chainEqOn_refl acc) h1 hv 0 (by rw [h2]; exact Nat.one_pos)
        rw [e, contract_smul]
        have h3' := h3 (τ ++ [p]) ρ (by simp [hτ]) hρ
        rw [List.append_assoc] at h3'
        simp only [List.singleton_append] at h3'
        rw [← h3']
        calc w * (nzS (n + 2)).1 * ((nzS (n + 2)).2 * contract (Ψ.f (τ ++ [p])) acc ρ 0)
            = w * ((nzS (n + 2)).1 * (nzS (n + 2)).2) * contract (Ψ.f (τ ++ [p])) acc ρ 0 := by ring
          _ = _ := by rw [hnz]; ring
    obtain ⟨i1, i2, i3, i4⟩ := ih
      { n := (split (n + 2) Ψ).U.n,
        f := fun τ k => (nzS (n + 2)).2 * ((split (n + 2) Ψ).U.f τ k * (split (n + 2) Ψ).S k) }
      ((split (n + 2) Ψ).B :: acc) (w * (nzS (n + 2)).1) hsRest hc' hl' key
    refine ⟨i1, i2, ?_, i4⟩
    rw [i3, List.length_cons]; omega

/-- **`from_full` reproduces the wave function**: (product of the `|S_i|`) × (contraction of the
returned tensors) `= ψ σ` for every configuration of `L = n + 2` sites. -/
theorem fromFull_state (nzS : Nat → α × α) (split : Nat → PsiT α → Split α)
    (hnz : ∀ i, (nzS i).1 * (nzS i).2 = 1) (d0 n : Nat) (ψ : List Nat → α)
    (hsAll : ∀ c ∈ fromFullCalls nzS split n ψ, SplitSpec split c.1 c.2)
    (σ : List Nat) (hσ : σ.length = n + 2) :
    (fromFull nzS split d0 n ψ).2 * contract (fun a => delta a 0) (fromFull nzS split d0 n ψ).1 σ 0 = ψ σ := by
  obtain ⟨g1, g2, g3, g4⟩ := fromFullGo_inv nzS split hnz ψ n { n := 1, f := fun τ _ => ψ τ } [] 1
    (fun c hc => hsAll c (by simp only [fromFullCalls, List.mem_append]; exact Or.inl hc)) trivial rfl (by
      intro τ ρ _ hρ
      have : ρ = [] := List.length_eq_zero_iff.1 (by simpa using hρ)
      subst this
      simp [contract])
  match σ, hσ with
  | p0 :: p1 :: ρ, hσ =>
    have hρ : ρ.length = n := by simpa using hσ
    simp only [fromFull, contract]
    have hs : SplitSpec split 1 (fromFullGo nzS split n { n := 1, f := fun τ _ => ψ τ } [] 1).1 :=
      hsAll (1, (fromFullGo nzS split n { n := 1, f := fun τ _ => ψ τ } [] 1).1)
        (by simp only [fromFullCalls, List.mem_append, List.mem_singleton]; exact Or.inr trivial)
    set g := fromFullGo nzS split n { n := 1, f := fun τ _ => ψ τ } [] 1 with hg
    have hv0 : vstep (fun a => (delta a 0 : α))
        { dL := 1, d := d0, dR := (split 1 g.1).U.n, M := fun _ p k => (split 1 g.1).U.f [p] k } p0
        = (split 1 g.1).U.f [p0] := by
      funext k; simp [vstep, sumN_one, delta]
    rw [hv0]
    have hv : ∀ r, r < g.1.n →
        vstep ((split 1 g.1).U.f [p0]) (signLeft (fun k => (nzS 1).2 * (split 1 g.1).S k) (split 1 g.1).B) p1 r
          = (nzS 1).2 * g.1.f ([p0] ++ [p1]) r := by
      intro r hr
      simp only [vstep, signLeft]
      rw [← hs.eq [p0] p1 r rfl hr, hs.dL, mul_sumN]
      exact sumN_congr (fun k _ => by ring)
    have e := contract_chainEqOn g.2.1 g.2.1 g.1.n _ (fun r => (nzS 1).2 * g.1.f ([p0] ++ [p1]) r) ρ
      (chainEqOn_refl _) g1 hv 0 (by rw [g2]; exact Nat.one_pos)
    rw [e, contract_smul]
    have h4 := g4 [p0, p1] ρ rfl (by rw [g3, hρ]; simp)
    simp only [List.cons_append, List.nil_append] at h4 ⊢
    rw [← h4]
    calc g.2.2 * (nzS 1).1 * ((nzS 1).2 * contract (g.1.f [p0, p1]) g.2.1 ρ 0)
        = g.2.2 * ((nzS 1).1 * (nzS 1).2) * contract (g.1.f [p0, p1]) g.2.1 ρ 0 := by ring
      _ = _ := by rw [hnz]; ring

end TenpyModel.MPS
