import TenpyModel.MPS.FormProofs
/-!
Constructors denote their input: `from_product_state`, `from_Bflat`.
-/
namespace TenpyModel.MPS

universe u
variable {α : Type u} [CommSemiring α]
set_option linter.unusedSectionVars false

section product
variable (L : Nat) (d : Nat → Nat) (perm : Nat → Nat → Nat) (permute : Bool)
  (labelled : Nat → Bool) (ps : Nat → PState α) (f : Option Form)

theorem fromProductState_B (i a p c : Nat) :
    ((fromProductState L d perm permute labelled ps f BC.finite).site i).B a p c
      = localAmp perm permute labelled ps i p := by
  simp only [fromProductState, fromBflat, localAmp]
  cases ps i <;> cases (permute && !labelled i) <;> simp

theorem fromProductState_getB (i : Int) (nf : Option (Option Int × Option Int)) (a p c : Nat) :
    (fromProductState L d perm permute labelled ps f BC.finite).getB i nf a p c
      = localAmp perm permute labelled ps
          ((fromProductState L d perm permute labelled ps f BC.finite).siteIdx i) p := by
  have hb : ∀ k, (fromProductState L d perm permute labelled ps f BC.finite).bond k = oneBond := fun _ => rfl
  cases nf with
  | none => exact fromProductState_B L d perm permute labelled ps f _ a p c
  | some x =>
    obtain ⟨nl, nr⟩ := x
    cases nl <;> cases nr <;>
      simp only [MPSM.getB, scaleL_apply, scaleR_apply, MPSM.getSL, MPSM.getSR, hb, Spow_oneBond,
        one_mul, mul_one] <;>
      exact fromProductState_B L d perm permute labelled ps f _ a p c

theorem fromProductState_dL (i : Nat) :
    ((fromProductState L d perm permute labelled ps f BC.finite).site i).dL = 1 := rfl

/-- left-to-right contraction of a product state multiplies the local amplitudes -/
theorem product_contract_aux (fR : Int) (qs : List Nat) :
    ∀ (p j : Nat) (tL : Int) (v : Vec α), j + qs.length + 1 ≤ L →
      contract v (MPSM.thetaSites (fromProductState L d perm permute labelled ps f BC.finite)
        fR (j : Int) tL (qs.length + 1)) (p :: qs) 0
        = v 0 * prodAmp (localAmp perm permute labelled ps) j (p :: qs) := by
  have hbc : (fromProductState L d perm permute labelled ps f BC.finite).bc ≠ BC.infinite := by
    simp [fromProductState, fromBflat]
  have hL : (fromProductState L d perm permute labelled ps f BC.finite).L = L := rfl
  induction qs with
  | nil =>
    intro p j tL v hj
    simp only [List.length_nil, Nat.zero_add, MPSM.thetaSites, contract, vstep, MPSM.getBsite,
      prodAmp, mul_one]
    rw [show ((fromProductState L d perm permute labelled ps f BC.finite).siteAt (j : Int)).dL = 1 from rfl,
      sumN_one, fromProductState_getB,
      MPSM.siteIdx_finite_nat _ hbc j (by rw [hL]; simp at hj; omega)]
  | cons q rest ih =>
    intro p j tL v hj
    simp only [List.length_cons, MPSM.thetaSites, contract]
    have e : ((j : Int) + 1) = ((j + 1 : Nat) : Int) := by push_cast; ring
    rw [e, ih q (j + 1) _ _ (by simp only [List.length_cons] at hj; omega)]
    simp only [vstep, MPSM.getBsite, prodAmp]
    rw [show ((fromProductState L d perm permute labelled ps f BC.finite).siteAt (j : Int)).dL = 1 from rfl,
      sumN_one, fromProductState_getB,
      MPSM.siteIdx_finite_nat _ hbc j (by rw [hL]; simp only [List.length_cons] at hj; omega)]
    ring

end product

/-! ### `from_Bflat` -/

/-- the raw chain `Bflat[i][site.perm]` transposed to `(vL, p, vR)` -/
def bflatChain (bs : Nat → BflatSite α) : Nat → Nat → List (RSite α)
  | _, 0 => []
  | i, n + 1 =>
    { dL := (bs i).dL, d := (bs i).d, dR := (bs i).dR,
      M := fun a p c => (bs i).T ((bs i).perm p) a c } :: bflatChain bs (i + 1) n

theorem plainSites_fromBflat (L : Nat) (bs : Nat → BflatSite α) (bonds : Nat → Bond α)
    (f : Option Form) (bc : BC) (hbc : bc ≠ BC.infinite) (n : Nat) :
    ∀ i : Nat, i + n ≤ L →
      MPSM.plainSites (fromBflat L bs bonds f bc) (i : Int) n = bflatChain bs i n := by
  induction n with
  | zero => intro i _; rfl
  | succ n ih =>
    intro i hi
    simp only [MPSM.plainSites, bflatChain]
    have e : ((i : Int) + 1) = ((i + 1 : Nat) : Int) := by push_cast; ring
    rw [e, ih (i + 1) (by omega)]
    have hs : (fromBflat L bs bonds f bc).siteIdx (i : Int) = i :=
      MPSM.siteIdx_finite_nat _ (by simpa [fromBflat] using hbc) i (by show i < L; omega)
    simp only [MPSM.getBsite, MPSM.getB, MPSM.siteAt, hs]
    rfl

end TenpyModel.MPS
