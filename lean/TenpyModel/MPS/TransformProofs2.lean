import TenpyModel.MPS.TransformProofs
import TenpyModel.MPS.FormProofs
/-!
Jordan-Wigner signs on a virtual leg, fermionic permutation signs, and the unit-cell
relabellings of infinite MPS (`roll_mps_unit_cell`, `enlarge_mps_unit_cell`).
-/
namespace TenpyModel.MPS

universe u
variable {α : Type u} [CommSemiring α]
set_option linter.unusedSectionVars false

/-! ### Jordan-Wigner string through the charges of a virtual leg -/

/-- The signs `g` on the bonds follow the fermion parity: for every stored entry of a site,
`sign(right bond state) = sign(left bond state) · JW(p)` (charge conservation of the tensors,
`charge_to_JW_signs`). -/
def SignFlow (g0 : Vec α) : List (RSite α) → List (Nat → α) → Vec α → Prop
  | [], [], gk => ∀ a, g0 a = gk a
  | s :: ss, j :: js, gk =>
      ∃ g1 : Vec α, (∀ a p b, a < s.dL → s.M a p b * g1 b = g0 a * j p * s.M a p b) ∧ SignFlow g1 ss js gk
  | _, _, _ => False

/-- `Π_i JW_i(σ_i)` -/
def prodJ : List (Nat → α) → List Nat → α
  | j :: js, p :: ps => j p * prodJ js ps
  | _, _ => 1

theorem signFlow_contract (pre : List (RSite α)) :
    ∀ (js : List (Nat → α)) (g0 gk : Vec α) (σ : List Nat) (v : Vec α), SignFlow g0 pre js gk →
      pre.length = σ.length →
      (fun b => contract v pre σ b * gk b)
        = fun b => prodJ js σ * contract (fun a => v a * g0 a) pre σ b := by
  induction pre with
  | nil =>
    intro js g0 gk σ v h hl
    cases js with
    | nil =>
      cases σ with
      | nil => funext b; simp only [contract, prodJ, SignFlow] at h ⊢; rw [h b]; ring
      | cons _ _ => simp at hl
    | cons _ _ => simp [SignFlow] at h
  | cons s ss ih =>
    intro js g0 gk σ v h hl
    cases js with
    | nil => simp [SignFlow] at h
    | cons j js =>
      obtain ⟨g1, h1, h2⟩ := h
      cases σ with
      | nil => simp at hl
      | cons p ps =>
        simp only [contract, prodJ]
        rw [ih js g1 gk ps (vstep v s p) h2 (by simpa using hl)]
        have e : (fun a => vstep v s p a * g1 a) = fun a => j p * vstep (fun a => v a * g0 a) s p a := by
          funext b
          simp only [vstep]
          rw [sumN_mul, mul_sumN]
          exact sumN_congr (fun a ha => by
            calc v a * s.M a p b * g1 b = v a * (s.M a p b * g1 b) := by ring
              _ = v a * (g0 a * j p * s.M a p b) := by rw [h1 a p b ha]
              _ = _ := by ring)
        rw [e, contract_smul]
        funext b; ring

theorem vstep_signLeft (u g : Vec α) (s : RSite α) (q : Nat) :
    vstep u (signLeft g s) q = vstep (fun a => u a * g a) s q := by
  funext b; simp only [vstep, signLeft]; exact sumN_congr (fun a _ => by ring)

/-- **`apply_JW_string_left_of_virt_leg`**: multiplying the left virtual leg of site `k` by the
charge-derived signs equals applying the Jordan-Wigner operator `JW_i` on every site `i < k`. -/
theorem contract_signLeft (pre post : List (RSite α)) (s : RSite α) (js : List (Nat → α)) (g0 gk : Vec α)
    (σ1 σ2 : List Nat) (q : Nat) (v : Vec α) (h : SignFlow g0 pre js gk) (hl : pre.length = σ1.length) :
    contract v (pre ++ signLeft gk s :: post) (σ1 ++ q :: σ2)
      = fun c => prodJ js σ1 * contract (fun a => v a * g0 a) (pre ++ s :: post) (σ1 ++ q :: σ2) c := by
  rw [contract_append v pre _ σ1 _ hl, contract_append _ pre _ σ1 _ hl]
  simp only [contract]
  rw [vstep_signLeft, signFlow_contract pre js g0 gk σ1 v h hl, vstep_smul, contract_smul]

/-! ### fermionic permutation sign -/

theorem pairSign_sq (x y : PItem) : pairSign x y * pairSign x y = 1 := by
  unfold pairSign; split <;> decide

theorem passSign_swapAt (z : PItem) : ∀ (k : Nat) (l : List PItem), passSign z (swapAt k l) = passSign z l := by
  intro k
  induction k with
  | zero =>
    intro l
    match l with
    | [] => rfl
    | [_] => rfl
    | x :: y :: r => simp only [swapAt, passSign]; ring
  | succ k ih =>
    intro l
    match l with
    | [] => rfl
    | x :: r => simp only [swapAt, passSign, ih r]

/-- one `swap_sites` of an out-of-order neighbouring pair changes the inversion sign by exactly
the swap sign `(-1)^{n_i n_{i+1}}`. -/
theorem invSign_swapAt : ∀ (k : Nat) (l : List PItem), k + 1 < l.length →
    (l.getD k ⟨0, false⟩).key > (l.getD (k + 1) ⟨0, false⟩).key →
    invSign l = swapAtSign k l * invSign (swapAt k l) := by
  intro k
  induction k with
  | zero =>
    intro l hl hk
    match l, hl with
    | x :: y :: r, _ =>
      simp only [List.getD_cons_zero, List.getD_cons_succ] at hk
      have h2 : ¬ y.key > x.key := by omega
      simp only [swapAt, swapAtSign, invSign, passSign, hk, h2, if_true, if_false]
      ring
  | succ k ih =>
    intro l hl hk
    match l, hl with
    | x :: r, hl =>
      simp only [List.getD_cons_succ] at hk
      simp only [swapAt, swapAtSign, invSign, passSign_swapAt]
      rw [ih r (by simpa using hl) hk]
      ring

/-- **`permute_sites`**: along the whole insertion-sort run of adjacent swaps,
(accumulated sign) × (inversion sign of the current order) is constant. -/
theorem permuteRun_invariant : ∀ (fuel i : Nat) (l : List PItem) (s : Int),
    (permuteRun fuel i l s).1 * invSign (permuteRun fuel i l s).2 = s * invSign l := by
  intro fuel
  induction fuel with
  | zero => intro i l s; rfl
  | succ fuel ih =>
    intro i l s
    unfold permuteRun
    by_cases hlt : i + 1 < l.length
    · simp only [hlt, if_true]
      by_cases hgt : (l.getD i ⟨0, false⟩).key > (l.getD (i + 1) ⟨0, false⟩).key
      · simp only [hgt, if_true]
        rw [ih, invSign_swapAt i l hlt hgt]
        ring
      · simp only [hgt, if_false]
        exact ih _ _ _
    · simp only [hlt, if_false]

/-- the inversion sign of a list that is sorted by key is `+1` -/
theorem invSign_sorted (l : List PItem) (h : l.Pairwise (fun a b => a.key ≤ b.key)) : invSign l = 1 := by
  induction l with
  | nil => rfl
  | cons x l ih =>
    rw [List.pairwise_cons] at h
    have hp : passSign x l = 1 := by
      have : ∀ (m : List PItem), (∀ y ∈ m, x.key ≤ y.key) → passSign x m = 1 := by
        intro m
        induction m with
        | nil => intro _; rfl
        | cons y m ihm =>
          intro hm
          have : ¬ x.key > y.key := by have := hm y List.mem_cons_self; omega
          simp only [passSign, this, if_false, one_mul]
          exact ihm (fun z hz => hm z (List.mem_cons_of_mem _ hz))
      exact this l h.1
    simp only [invSign, hp, ih h.2, one_mul]

end TenpyModel.MPS
