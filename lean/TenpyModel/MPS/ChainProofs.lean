import TenpyModel.MPS.Lemmas
/-!
Multilinear algebra of raw chains: everything here holds for all chain lengths, physical and bond
dimensions, over every commutative semiring.
-/
namespace TenpyModel.MPS

universe u
variable {α : Type u} [CommSemiring α]

/-! ### left-to-right contraction = nested sums from the right -/

theorem contract_zero (ss : List (RSite α)) (σ : List Nat) :
    contract (fun _ => (0 : α)) ss σ = fun _ => 0 := by
  induction ss generalizing σ with
  | nil => cases σ <;> rfl
  | cons s ss ih =>
    cases σ with
    | nil => rfl
    | cons p ps =>
      simp only [contract]
      have : vstep (fun _ => (0 : α)) s p = fun _ => 0 := by
        funext b; simp [vstep, sumN_zero]
      rw [this, ih]

theorem close_zero_left (n : Nat) (w : Vec α) : close n (fun _ => (0 : α)) w = 0 := by
  simp [close, sumN_zero]

theorem contract_pathSum (n0 : Nat) (v w : Vec α) (ss : List (RSite α)) (σ : List Nat)
    (hc : ChainOK n0 ss) :
    close (lastDim n0 ss) (contract v ss σ) w = sumN n0 (fun a => v a * pathSum w ss σ a) := by
  induction ss generalizing n0 v σ with
  | nil =>
    cases σ with
    | nil => rfl
    | cons p ps => simp [contract, pathSum, lastDim, close, sumN_zero]
  | cons s ss ih =>
    obtain ⟨h1, h2⟩ := hc
    cases σ with
    | nil => simp [contract, pathSum, lastDim, close, sumN_zero]
    | cons p ps =>
      simp only [contract, lastDim, pathSum]
      rw [ih s.dR (vstep v s p) ps h2, ← h1]
      simp only [vstep]
      calc sumN s.dR (fun b => sumN s.dL (fun a => v a * s.M a p b) * pathSum w ss ps b)
          = sumN s.dR (fun b => sumN s.dL (fun a => v a * (s.M a p b * pathSum w ss ps b))) :=
            sumN_congr (fun b _ => by rw [sumN_mul]; exact sumN_congr (fun a _ => by ring))
        _ = sumN s.dL (fun a => sumN s.dR (fun b => v a * (s.M a p b * pathSum w ss ps b))) :=
            sumN_comm _ _ _
        _ = sumN s.dL (fun a => v a * sumN s.dR (fun b => s.M a p b * pathSum w ss ps b)) :=
            sumN_congr (fun a _ => by rw [mul_sumN])

/-! ### linearity of the contraction in the incoming vector -/

theorem vstep_add (v1 v2 : Vec α) (s : RSite α) (p : Nat) :
    vstep (fun a => v1 a + v2 a) s p = fun b => vstep v1 s p b + vstep v2 s p b := by
  funext b; simp only [vstep]; rw [← sumN_add]; exact sumN_congr (fun a _ => by ring)

theorem vstep_smul (c : α) (v : Vec α) (s : RSite α) (p : Nat) :
    vstep (fun a => c * v a) s p = fun b => c * vstep v s p b := by
  funext b; simp only [vstep]; rw [mul_sumN]; exact sumN_congr (fun a _ => by ring)

theorem contract_add (v1 v2 : Vec α) (ss : List (RSite α)) (σ : List Nat) :
    contract (fun a => v1 a + v2 a) ss σ = fun b => contract v1 ss σ b + contract v2 ss σ b := by
  induction ss generalizing v1 v2 σ with
  | nil => cases σ <;> simp [contract]
  | cons s ss ih =>
    cases σ with
    | nil => simp [contract]
    | cons p ps => simp only [contract]; rw [vstep_add, ih]

theorem contract_smul (c : α) (v : Vec α) (ss : List (RSite α)) (σ : List Nat) :
    contract (fun a => c * v a) ss σ = fun b => c * contract v ss σ b := by
  induction ss generalizing v σ with
  | nil => cases σ <;> simp [contract]
  | cons s ss ih =>
    cases σ with
    | nil => simp [contract]
    | cons p ps => simp only [contract]; rw [vstep_smul, ih]

theorem contract_sumN (n : Nat) (vs : Nat → Vec α) (ss : List (RSite α)) (σ : List Nat) :
    contract (fun a => sumN n (fun i => vs i a)) ss σ
      = fun b => sumN n (fun i => contract (vs i) ss σ b) := by
  induction n with
  | zero => simp only [sumN]; exact contract_zero ss σ
  | succ n ih =>
    simp only [sumN]
    rw [contract_add (fun a => sumN n (fun i => vs i a)) (vs n), ih]

theorem contract_append (v : Vec α) (ss ts : List (RSite α)) (σ τ : List Nat)
    (h : ss.length = σ.length) :
    contract v (ss ++ ts) (σ ++ τ) = contract (contract v ss σ) ts τ := by
  induction ss generalizing v σ with
  | nil =>
    cases σ with
    | nil => rfl
    | cons p ps => simp at h
  | cons s ss ih =>
    cases σ with
    | nil => simp at h
    | cons p ps =>
      simp only [List.cons_append, contract]
      exact ih _ _ (by simpa using h)

/-- only the entries `v a`, `a < dL` of the incoming vector matter -/
theorem contract_congr_vec (n0 : Nat) (v v' : Vec α) (ss : List (RSite α)) (σ : List Nat)
    (hc : ChainOK n0 ss) (hne : ss ≠ []) (h : ∀ a, a < n0 → v a = v' a) :
    contract v ss σ = contract v' ss σ := by
  cases ss with
  | nil => exact absurd rfl hne
  | cons s ss =>
    cases σ with
    | nil => rfl
    | cons p ps =>
      simp only [contract]
      have : vstep v s p = vstep v' s p := by
        funext b; simp only [vstep]
        exact sumN_congr (fun a ha => by rw [h a (hc.1 ▸ ha)])
      rw [this]

/-! ### transfer matrices -/

theorem tmStep_add (cj : α → α) (E1 E2 : Mat α) (sb sk : RSite α) :
    tmStep cj (fun a' a => E1 a' a + E2 a' a) sb sk
      = fun b' b => tmStep cj E1 sb sk b' b + tmStep cj E2 sb sk b' b := by
  funext b' b
  simp only [tmStep]
  rw [← sumN_add]
  refine sumN_congr (fun p _ => ?_)
  rw [← sumN_add]
  refine sumN_congr (fun a' _ => ?_)
  rw [← mul_add, ← sumN_add]
  congr 1
  exact sumN_congr (fun a _ => by ring)

theorem tmStep_zero (cj : α → α) (sb sk : RSite α) :
    tmStep cj (fun _ _ => (0 : α)) sb sk = fun _ _ => 0 := by
  funext b' b
  simp only [tmStep]
  refine sumN_eq_zero (fun p _ => sumN_eq_zero (fun a' _ => ?_))
  rw [sumN_eq_zero (fun a _ => by ring)]; ring

theorem tmFold_zero (cj : α → α) (sbs sks : List (RSite α)) :
    tmFold cj (fun _ _ => (0 : α)) sbs sks = fun _ _ => 0 := by
  induction sbs generalizing sks with
  | nil => cases sks <;> rfl
  | cons sb sbs ih =>
    cases sks with
    | nil => rfl
    | cons sk sks => simp only [tmFold]; rw [tmStep_zero, ih]

theorem tmFold_add (cj : α → α) (E1 E2 : Mat α) (sbs sks : List (RSite α)) :
    tmFold cj (fun a' a => E1 a' a + E2 a' a) sbs sks
      = fun b' b => tmFold cj E1 sbs sks b' b + tmFold cj E2 sbs sks b' b := by
  induction sbs generalizing E1 E2 sks with
  | nil => cases sks <;> simp [tmFold]
  | cons sb sbs ih =>
    cases sks with
    | nil => simp [tmFold]
    | cons sk sks => simp only [tmFold]; rw [tmStep_add, ih]

theorem tmFold_sumN (cj : α → α) (n : Nat) (Es : Nat → Mat α) (sbs sks : List (RSite α)) :
    tmFold cj (fun a' a => sumN n (fun i => Es i a' a)) sbs sks
      = fun b' b => sumN n (fun i => tmFold cj (Es i) sbs sks b' b) := by
  induction n with
  | zero => simp only [sumN]; exact tmFold_zero cj sbs sks
  | succ n ih =>
    simp only [sumN]
    rw [tmFold_add cj (fun a' a => sumN n (fun i => Es i a' a)) (Es n), ih]

theorem closeMat_sumN (cj : α → α) (nb nk n : Nat) (Es : Nat → Mat α) (wb wk : Vec α) :
    closeMat cj nb nk (fun a' a => sumN n (fun i => Es i a' a)) wb wk
      = sumN n (fun i => closeMat cj nb nk (Es i) wb wk) := by
  simp only [closeMat]
  calc sumN nb (fun a' => sumN nk (fun a => sumN n (fun i => Es i a' a) * (cj (wb a') * wk a)))
      = sumN nb (fun a' => sumN n (fun i => sumN nk (fun a => Es i a' a * (cj (wb a') * wk a)))) :=
        sumN_congr (fun a' _ => by
          rw [sumN_comm]; exact sumN_congr (fun a _ => by rw [sumN_mul]))
    _ = _ := sumN_comm _ _ _

theorem closeMat_outer {cj : α → α} (hcj : ConjLike cj) (nb nk : Nat) (vb vk wb wk : Vec α) :
    closeMat cj nb nk (outer cj vb vk) wb wk = cj (close nb vb wb) * close nk vk wk := by
  simp only [closeMat, outer, close]
  rw [hcj.sumN, sumN_mul]
  refine sumN_congr (fun a' _ => ?_)
  rw [mul_sumN]
  exact sumN_congr (fun a _ => by rw [hcj.mul]; ring)

theorem tmStep_outer {cj : α → α} (hcj : ConjLike cj) (vb vk : Vec α) (sb sk : RSite α) :
    tmStep cj (outer cj vb vk) sb sk
      = fun b' b => sumN sk.d (fun p => outer cj (vstep vb sb p) (vstep vk sk p) b' b) := by
  funext b' b
  simp only [tmStep, outer, vstep]
  refine sumN_congr (fun p _ => ?_)
  rw [hcj.sumN, sumN_mul]
  refine sumN_congr (fun a' _ => ?_)
  rw [hcj.mul]
  have : sumN sk.dL (fun a => cj (vb a') * vk a * sk.M a p b)
       = cj (vb a') * sumN sk.dL (fun a => vk a * sk.M a p b) := by
    rw [mul_sumN]; exact sumN_congr (fun a _ => by ring)
  rw [this]; ring

theorem sumCfg_zero (ds : List Nat) : sumCfg ds (fun _ => (0 : α)) = 0 := by
  induction ds with
  | nil => rfl
  | cons d ds ih => simp only [sumCfg, ih, sumN_zero]

/-- **Transfer-matrix contraction = dense inner product**, any two chains, any start and closing
vectors, no canonical-form assumption. -/
theorem overlapTM_eq_dense {cj : α → α} (hcj : ConjLike cj) (vb vk : Vec α)
    (sbs sks : List (RSite α)) (nb nk : Nat) (wb wk : Vec α) :
    overlapTM cj vb vk sbs sks nb nk wb wk
      = sumCfg (dims sks) (fun σ =>
          cj (close nb (contract vb sbs σ) wb) * close nk (contract vk sks σ) wk) := by
  unfold overlapTM
  induction sks generalizing sbs vb vk with
  | nil =>
    cases sbs with
    | nil => simp only [tmFold, dims, List.map_nil, sumCfg, contract]; exact closeMat_outer hcj ..
    | cons sb sbs =>
      simp only [tmFold, dims, List.map_nil, sumCfg, contract]
      rw [close_zero_left, hcj.zero]
      simp [closeMat, sumN_zero]
  | cons sk sks ih =>
    cases sbs with
    | nil =>
      simp only [tmFold, dims, List.map_cons, sumCfg, contract]
      rw [close_zero_left, hcj.zero]
      simp [closeMat, sumN_zero, sumCfg_zero]
    | cons sb sbs =>
      simp only [tmFold, dims, List.map_cons, sumCfg, contract]
      rw [tmStep_outer hcj, tmFold_sumN, closeMat_sumN]
      exact sumN_congr (fun p _ => ih _ _ _)

end TenpyModel.MPS
