import TenpyModel.MPS.MeasureProofs
/-!
Round 2 (C08): which operator `correlation_function` / `_corr_up_diag` puts on which site, and in
which ORDER the factors on one site are multiplied (`i < j`, `i = j`, `i > j`, operator string
between, `str_on_first`, `apply_opstr_first`).

* `corrOps` — the executable model of the code: one (optional) operator per site of `0 … max(i,j)`.
* `docProduct` — the documented operator product applied to the ket factor by factor, right-most
  factor first: `ops1[i] · Π_{i≤r<j} opstr[r] · ops2[j]` for `i < j`,
  `Π_{j≤r<i} opstr[r] · ops1[i] · ops2[j]` for `i > j`, `ops1[i] · ops2[i]` for `i = j`
  (`<` instead of `≤` for `str_on_first=False`).
* `corrOps_eq_docProduct` — they give the same chain of tensors.
-/
namespace TenpyModel.MPS

universe u
variable {α : Type u}

section defs
variable [Zero α] [One α] [Add α] [Mul α]

/-- `npc.tensordot(A, B, axes=['p*','p'])`: matrix product of two one-site operators of dimension `d` -/
def matMul (d : Nat) (A B : Mat α) : Mat α := fun p q => sumN d (fun r => A p r * B r q)

/-- the operator `_corr_up_diag(opsA, opsB, i, [j], opstr, str_on_first, apply_opstr_first)`
(`i < j`) contracts on site `r ≤ j`:
site `i`: `opA`, multiplied with `opstr[i]` if `str_on_first` — `opA·opstr[i]`
(`axes=['p*','p']`) if `apply_opstr_first`, else `opstr[i]·opA` (`axes=['p','p*']`);
sites `i < r < j`: `opstr[r]` (nothing if `opstr is None`); site `j`: `opB`. -/
def corrUpDiagAt (dI : Nat) (opA opB : Mat α) (str : Option (Nat → Mat α)) (i j : Nat) (sof first : Bool)
    (r : Nat) : Option (Mat α) :=
  if r < i then none
  else if r = i then
    some (match str, sof with
      | some S, true => if first then matMul dI opA (S i) else matMul dI (S i) opA
      | _, _ => opA)
  else if r < j then str.map (fun S => S r)
  else some opB

/-- `correlation_function` for one pair `(i, j)`: the operators placed on sites `0 … max(i,j)`.
`i < j`: `_corr_up_diag(ops1, ops2, i, [j], opstr, str_on_first, True)`;
`i = j`: `tensordot(op1, op2, ['p*','p'])` on site `i`;
`i > j`: `_corr_up_diag(ops2, ops1, j, [i], opstr, str_on_first, False)`. -/
def corrOps (dims : Nat → Nat) (ops1 ops2 : Nat → Mat α) (str : Option (Nat → Mat α)) (i j : Nat) (sof : Bool) :
    List (Option (Mat α)) :=
  if i < j then (List.range (j + 1)).map (corrUpDiagAt (dims i) (ops1 i) (ops2 j) str i j sof true)
  else if i = j then
    (List.range (i + 1)).map (fun r => if r = i then some (matMul (dims i) (ops1 i) (ops2 i)) else none)
  else (List.range (i + 1)).map (corrUpDiagAt (dims j) (ops2 j) (ops1 i) str j i sof false)

def applyAtOpt (k : Nat) (O : Option (Mat α)) (ss : List (RSite α)) : List (RSite α) :=
  match O with
  | some O => applyAt k O ss
  | none => ss

/-- apply `opstr[r]` to the sites `lo ≤ r < lo + n`, one after the other -/
def applyStr (str : Option (Nat → Mat α)) (lo : Nat) : Nat → List (RSite α) → List (RSite α)
  | 0, ss => ss
  | n + 1, ss => applyAtOpt (lo + n) (str.map (fun S => S (lo + n))) (applyStr str lo n ss)

/-- first site carrying the string -/
def strLo (lo : Nat) (sof : Bool) : Nat := if sof then lo else lo + 1

/-- the documented operator product of `correlation_function`, applied to the ket one factor
after the other (the right-most factor acts first). -/
def docProduct (ops1 ops2 : Nat → Mat α) (str : Option (Nat → Mat α)) (i j : Nat) (sof : Bool)
    (ss : List (RSite α)) : List (RSite α) :=
  if i < j then
    applyAt i (ops1 i) (applyStr str (strLo i sof) (j - strLo i sof) (applyAt j (ops2 j) ss))
  else if i = j then applyAt i (ops1 i) (applyAt i (ops2 i) ss)
  else applyStr str (strLo j sof) (i - strLo j sof) (applyAt i (ops1 i) (applyAt j (ops2 j) ss))

/-- dense action of a one-site operator on site `k` of a wave function -/
def denseAt (k : Nat) (O : Mat α) (d : Nat) (ψ : List Nat → α) : List Nat → α :=
  fun σ => sumN d (fun q => O (σ.getD k 0) q * ψ (σ.set k q))

def denseStr (ds : List Nat) (str : Option (Nat → Mat α)) (lo : Nat) : Nat → (List Nat → α) → List Nat → α
  | 0, ψ => ψ
  | n + 1, ψ =>
      match str with
      | some S => denseAt (lo + n) (S (lo + n)) (ds.getD (lo + n) 0) (denseStr ds str lo n ψ)
      | none => denseStr ds str lo n ψ

/-- the documented product on a dense wave function -/
def docDense (ds : List Nat) (ops1 ops2 : Nat → Mat α) (str : Option (Nat → Mat α)) (i j : Nat) (sof : Bool)
    (ψ : List Nat → α) : List Nat → α :=
  if i < j then
    denseAt i (ops1 i) (ds.getD i 0)
      (denseStr ds str (strLo i sof) (j - strLo i sof) (denseAt j (ops2 j) (ds.getD j 0) ψ))
  else if i = j then denseAt i (ops1 i) (ds.getD i 0) (denseAt i (ops2 i) (ds.getD i 0) ψ)
  else denseStr ds str (strLo j sof) (i - strLo j sof)
      (denseAt i (ops1 i) (ds.getD i 0) (denseAt j (ops2 j) (ds.getD j 0) ψ))

end defs

variable [CommSemiring α]
set_option linter.unusedSectionVars false

/-! ### two operators on one site multiply in the order they are applied -/

theorem opSite_opSite (A B : Mat α) (s : RSite α) : opSite A (opSite B s) = opSite (matMul s.d A B) s := by
  simp only [opSite, matMul]
  congr 1
  funext a p b
  calc sumN s.d (fun q => A p q * sumN s.d (fun r => B q r * s.M a r b))
      = sumN s.d (fun q => sumN s.d (fun r => A p q * B q r * s.M a r b)) :=
        sumN_congr (fun q _ => by rw [mul_sumN]; exact sumN_congr (fun r _ => by ring))
    _ = sumN s.d (fun r => sumN s.d (fun q => A p q * B q r * s.M a r b)) := sumN_comm _ _ _
    _ = _ := sumN_congr (fun r _ => by rw [sumN_mul])

/-! ### sites of the transformed chains -/

theorem getElem?_applyAt (O : Mat α) (ss : List (RSite α)) :
    ∀ (k r : Nat), (applyAt k O ss)[r]? = if r = k then (ss[r]?).map (opSite O) else ss[r]? := by
  induction ss with
  | nil => intro k r; cases k <;> simp [applyAt]
  | cons s ss ih =>
    intro k r
    cases k with
    | zero =>
      cases r with
      | zero => simp [applyAt]
      | succ r => simp [applyAt]
    | succ k =>
      cases r with
      | zero => simp [applyAt]
      | succ r => simp only [applyAt, List.getElem?_cons_succ, ih k r]; simp

theorem length_applyAt (O : Mat α) (ss : List (RSite α)) : ∀ k, (applyAt k O ss).length = ss.length := by
  induction ss with
  | nil => intro k; cases k <;> rfl
  | cons s ss ih => intro k; cases k <;> simp [applyAt, ih]

theorem getElem?_applyOps (os : List (Option (Mat α))) :
    ∀ (ss : List (RSite α)) (r : Nat),
      (applyOps os ss)[r]? = (ss[r]?).map (fun s => match os[r]? with
        | some (some O) => opSite O s
        | _ => s) := by
  induction os with
  | nil => intro ss r; cases ss <;> simp [applyOps]
  | cons o os ih =>
    intro ss r
    cases ss with
    | nil => simp [applyOps]
    | cons s ss =>
      cases r with
      | zero => cases o <;> simp [applyOps]
      | succ r => simp only [applyOps, List.getElem?_cons_succ, ih ss r]

theorem getElem?_applyAtOpt (k : Nat) (O : Option (Mat α)) (ss : List (RSite α)) (r : Nat) :
    (applyAtOpt k O ss)[r]? = if r = k then (ss[r]?).map (fun s => match O with
        | some O => opSite O s
        | none => s) else ss[r]? := by
  cases O with
  | none => simp only [applyAtOpt]; split <;> simp
  | some O => simp only [applyAtOpt, getElem?_applyAt]

theorem getElem?_applyStr (str : Option (Nat → Mat α)) (lo : Nat) (ss : List (RSite α)) :
    ∀ (n r : Nat), (applyStr str lo n ss)[r]? =
      if lo ≤ r ∧ r < lo + n then (ss[r]?).map (fun s => match str with
        | some S => opSite (S r) s
        | none => s) else ss[r]? := by
  intro n
  induction n with
  | zero => intro r; simp [applyStr]
  | succ n ih =>
    intro r
    simp only [applyStr, getElem?_applyAtOpt, ih]
    by_cases h1 : r = lo + n
    · subst h1
      have h0 : ¬ (lo ≤ lo + n ∧ lo + n < lo + n) := by omega
      have h2 : lo ≤ lo + n ∧ lo + n < lo + (n + 1) := by omega
      rw [if_pos rfl, if_neg h0, if_pos h2]
      cases str <;> rfl
    · rw [if_neg h1]
      by_cases h2 : lo ≤ r ∧ r < lo + n
      · have h3 : lo ≤ r ∧ r < lo + (n + 1) := by omega
        rw [if_pos h2, if_pos h3]
      · have h3 : ¬ (lo ≤ r ∧ r < lo + (n + 1)) := by omega
        rw [if_neg h2, if_neg h3]

theorem length_applyStr (str : Option (Nat → Mat α)) (lo : Nat) (ss : List (RSite α)) :
    ∀ n, (applyStr str lo n ss).length = ss.length := by
  intro n
  induction n with
  | zero => rfl
  | succ n ih =>
    simp only [applyStr]
    cases str with
    | none => simpa [applyAtOpt] using ih
    | some S => simp only [Option.map_some, applyAtOpt, length_applyAt]; exact ih

theorem dims_getD (ss : List (RSite α)) (r : Nat) (s : RSite α) (h : ss[r]? = some s) :
    (dims ss).getD r 0 = s.d := by
  simp [dims, List.getD, List.getElem?_map, h]

theorem dims_applyAtOpt (k : Nat) (O : Option (Mat α)) (ss : List (RSite α)) :
    dims (applyAtOpt k O ss) = dims ss := by
  cases O with
  | none => rfl
  | some O => exact dims_applyAt k O ss

theorem dims_applyStr (str : Option (Nat → Mat α)) (lo : Nat) (ss : List (RSite α)) :
    ∀ n, dims (applyStr str lo n ss) = dims ss := by
  intro n
  induction n with
  | zero => rfl
  | succ n ih => simp only [applyStr, dims_applyAtOpt, ih]

/-! ### the code places the documented product -/

/-- **`correlation_function` contracts the documented operator product, factor order included.** -/
theorem corrOps_eq_docProduct (ops1 ops2 : Nat → Mat α) (str : Option (Nat → Mat α)) (i j : Nat) (sof : Bool)
    (ss : List (RSite α)) :
    applyOps (corrOps (fun r => (dims ss).getD r 0) ops1 ops2 str i j sof) ss
      = docProduct ops1 ops2 str i j sof ss := by
  apply List.ext_getElem?
  intro r
  rw [getElem?_applyOps]
  cases hs : ss[r]? with
  | none =>
    simp only [Option.map_none, docProduct]
    split
    · simp [getElem?_applyAt, getElem?_applyStr, hs]
    · split
      · simp [getElem?_applyAt, hs]
      · simp [getElem?_applyAt, getElem?_applyStr, hs]
  | some s =>
    have hd : (dims ss).getD r 0 = s.d := dims_getD ss r s hs
    have hd' : (dims ss)[r]?.getD 0 = s.d := by simpa [List.getD] using hd
    simp only [Option.map_some, docProduct, corrOps]
    by_cases hij : i < j
    · simp only [hij, if_true, getElem?_applyAt, getElem?_applyStr, hs, List.getElem?_map,
        List.getElem?_range]
      by_cases hrj : r < j + 1
      · simp only [List.getElem?_range hrj, Option.map_some, corrUpDiagAt]
        by_cases h1 : r < i
        · have n1 : ¬ r = i := by omega
          have n2 : ¬ r = j := by omega
          have n3 : ¬ (strLo i sof ≤ r ∧ r < strLo i sof + (j - strLo i sof)) := by
            unfold strLo; split <;> omega
          simp [h1, n1, n2, n3]
        · by_cases h2 : r = i
          · subst h2
            have n2 : ¬ r = j := by omega
            cases sof with
            | false =>
              have n3 : ¬ (strLo r false ≤ r ∧ r < strLo r false + (j - strLo r false)) := by
                simp [strLo]
              cases str <;> simp [n2, n3]
            | true =>
              have n3 : strLo r true ≤ r ∧ r < strLo r true + (j - strLo r true) := by
                simp only [strLo, if_true]; omega
              cases str with
              | none => simp [n2, n3]
              | some S => simp [n2, n3, opSite_opSite, hd, hd']
          · by_cases h3 : r < j
            · have n3 : strLo i sof ≤ r ∧ r < strLo i sof + (j - strLo i sof) := by
                unfold strLo; split <;> omega
              have n2 : ¬ r = j := by omega
              cases str <;> simp [h1, h2, h3, n2, n3]
            · have e : r = j := by omega
              subst e
              have n3 : ¬ (strLo i sof ≤ r ∧ r < strLo i sof + (r - strLo i sof)) := by
                unfold strLo; split <;> omega
              simp [h1, h2, h3, n3]
      · have n1 : ¬ r = i := by omega
        have n2 : ¬ r = j := by omega
        have n3 : ¬ (strLo i sof ≤ r ∧ r < strLo i sof + (j - strLo i sof)) := by
          unfold strLo; split <;> omega
        have : (List.range (j + 1))[r]? = none := by simp; omega
        simp [this, n1, n2, n3]
    · by_cases hij2 : i = j
      · subst hij2
        simp only [lt_irrefl, if_false, if_true, getElem?_applyAt, hs, List.getElem?_map]
        by_cases hri : r = i
        · subst hri
          simp [opSite_opSite, hd, hd']
        · by_cases hr2 : r < i + 1
          · simp [List.getElem?_range hr2, hri]
          · have : (List.range (i + 1))[r]? = none := by simp; omega
            simp [this, hri]
      · have hji : j < i := by omega
        simp only [hij, hij2, if_false, getElem?_applyAt, getElem?_applyStr, hs, List.getElem?_map]
        by_cases hri : r < i + 1
        · simp only [List.getElem?_range hri, Option.map_some, corrUpDiagAt]
          by_cases h1 : r < j
          · have n1 : ¬ r = i := by omega
            have n2 : ¬ r = j := by omega
            have n3 : ¬ (strLo j sof ≤ r ∧ r < strLo j sof + (i - strLo j sof)) := by
              unfold strLo; split <;> omega
            simp [h1, n1, n2, n3]
          · by_cases h2 : r = j
            · subst h2
              have n1 : ¬ r = i := by omega
              cases sof with
              | false =>
                have n3 : ¬ (strLo r false ≤ r ∧ r < strLo r false + (i - strLo r false)) := by
                  simp [strLo]
                cases str <;> simp [n1, n3]
              | true =>
                have n3 : strLo r true ≤ r ∧ r < strLo r true + (i - strLo r true) := by
                  simp only [strLo, if_true]; omega
                cases str with
                | none => simp [n1, n3]
                | some S => simp [n1, n3, opSite_opSite, hd, hd']
            · by_cases h3 : r < i
              · have n3 : strLo j sof ≤ r ∧ r < strLo j sof + (i - strLo j sof) := by
                  unfold strLo; split <;> omega
                have n1 : ¬ r = i := by omega
                cases str <;> simp [h1, h2, h3, n1, n3]
              · have e : r = i := by omega
                subst e
                have n3 : ¬ (strLo j sof ≤ r ∧ r < strLo j sof + (r - strLo j sof)) := by
                  unfold strLo; split <;> omega
                simp [h1, h2, h3, n3]
        · have n1 : ¬ r = i := by omega
          have n2 : ¬ r = j := by omega
          have n3 : ¬ (strLo j sof ≤ r ∧ r < strLo j sof + (i - strLo j sof)) := by
            unfold strLo; split <;> omega
          have : (List.range (i + 1))[r]? = none := by simp; omega
          simp [this, n1, n2, n3]

/-! ### dense meaning of the documented product -/

theorem denseAt_congr (k : Nat) (O : Mat α) (d : Nat) (ψ ψ' : List Nat → α) (σ : List Nat)
    (h : ∀ τ, τ.length = σ.length → ψ τ = ψ' τ) : denseAt k O d ψ σ = denseAt k O d ψ' σ :=
  sumN_congr (fun q _ => by rw [h _ (by simp)])

theorem denseStr_congr (ds : List Nat) (str : Option (Nat → Mat α)) (lo : Nat) (ψ ψ' : List Nat → α) :
    ∀ (n : Nat) (σ : List Nat), (∀ τ, τ.length = σ.length → ψ τ = ψ' τ) →
      denseStr ds str lo n ψ σ = denseStr ds str lo n ψ' σ := by
  intro n
  induction n with
  | zero => intro σ h; exact h σ rfl
  | succ n ih =>
    intro σ h
    cases str with
    | none => exact ih σ h
    | some S =>
      simp only [denseStr]
      exact denseAt_congr _ _ _ _ _ σ (fun τ hτ => ih τ (fun τ' hτ' => h τ' (by rw [hτ', hτ])))

theorem contract_applyAt_dense (O : Mat α) (ss : List (RSite α)) (k : Nat) (v : Vec α) (b : Nat) (σ : List Nat)
    (hk : k < ss.length) (hl : σ.length = ss.length) :
    contract v (applyAt k O ss) σ b
      = denseAt k O ((dims ss).getD k 0) (fun τ => contract v ss τ b) σ :=
  congrFun (contract_applyAt O ss k σ v hk hl.symm) b

theorem contract_applyStr (str : Option (Nat → Mat α)) (lo : Nat) (ss : List (RSite α)) (v : Vec α) (b : Nat) :
    ∀ (n : Nat) (σ : List Nat), lo + n ≤ ss.length → σ.length = ss.length →
      contract v (applyStr str lo n ss) σ b
        = denseStr (dims ss) str lo n (fun τ => contract v ss τ b) σ := by
  intro n
  induction n with
  | zero => intro σ _ _; rfl
  | succ n ih =>
    intro σ hn hl
    cases str with
    | none => exact ih σ (by omega) hl
    | some S =>
      simp only [applyStr, Option.map_some, applyAtOpt, denseStr]
      rw [contract_applyAt_dense _ _ _ v b σ (by rw [length_applyStr]; omega) (by rw [length_applyStr]; exact hl),
        dims_applyStr]
      exact denseAt_congr _ _ _ _ _ σ (fun τ hτ => ih τ (by omega) (by rw [hτ, hl]))

theorem dims_docProduct (ops1 ops2 : Nat → Mat α) (str : Option (Nat → Mat α)) (i j : Nat) (sof : Bool)
    (ss : List (RSite α)) : dims (docProduct ops1 ops2 str i j sof ss) = dims ss := by
  unfold docProduct
  split
  · rw [dims_applyAt, dims_applyStr, dims_applyAt]
  · split
    · rw [dims_applyAt, dims_applyAt]
    · rw [dims_applyStr, dims_applyAt, dims_applyAt]

/-- the documented product on the chain is the documented product of dense one-site operators -/
theorem contract_docProduct (ops1 ops2 : Nat → Mat α) (str : Option (Nat → Mat α)) (i j : Nat) (sof : Bool)
    (ss : List (RSite α)) (v : Vec α) (b : Nat) (σ : List Nat) (hi : i < ss.length) (hj : j < ss.length)
    (hl : σ.length = ss.length) :
    contract v (docProduct ops1 ops2 str i j sof ss) σ b
      = docDense (dims ss) ops1 ops2 str i j sof (fun τ => contract v ss τ b) σ := by
  unfold docProduct docDense
  by_cases hij : i < j
  · simp only [hij, if_true]
    have hlo : strLo i sof + (j - strLo i sof) ≤ (applyAt j (ops2 j) ss).length := by
      rw [length_applyAt]; unfold strLo; split <;> omega
    rw [contract_applyAt_dense _ _ _ v b σ (by rw [length_applyStr, length_applyAt]; exact hi)
      (by rw [length_applyStr, length_applyAt]; exact hl), dims_applyStr, dims_applyAt]
    refine denseAt_congr _ _ _ _ _ σ (fun τ hτ => ?_)
    rw [contract_applyStr str _ _ v b _ τ hlo (by rw [length_applyAt, hτ, hl]), dims_applyAt]
    refine denseStr_congr _ _ _ _ _ _ τ (fun τ' hτ' => ?_)
    exact contract_applyAt_dense _ _ _ v b τ' hj (by rw [hτ', hτ, hl])
  · by_cases hij2 : i = j
    · subst hij2
      simp only [lt_irrefl, if_false, if_true]
      rw [contract_applyAt_dense _ _ _ v b σ (by rw [length_applyAt]; exact hi) (by rw [length_applyAt]; exact hl),
        dims_applyAt]
      refine denseAt_congr _ _ _ _ _ σ (fun τ hτ => ?_)
      exact contract_applyAt_dense _ _ _ v b τ hi (by rw [hτ, hl])
    · simp only [hij, hij2, if_false]
      have hlo : strLo j sof + (i - strLo j sof) ≤ (applyAt i (ops1 i) (applyAt j (ops2 j) ss)).length := by
        rw [length_applyAt, length_applyAt]; unfold strLo; split <;> omega
      rw [contract_applyStr str _ _ v b _ σ hlo (by rw [length_applyAt, length_applyAt]; exact hl),
        dims_applyAt, dims_applyAt]
      refine denseStr_congr _ _ _ _ _ _ σ (fun τ hτ => ?_)
      rw [contract_applyAt_dense _ _ _ v b τ (by rw [length_applyAt]; exact hi)
        (by rw [length_applyAt, hτ, hl]), dims_applyAt]
      refine denseAt_congr _ _ _ _ _ τ (fun τ' hτ' => ?_)
      exact contract_applyAt_dense _ _ _ v b τ' hj (by rw [hτ', hτ, hl])

end TenpyModel.MPS
