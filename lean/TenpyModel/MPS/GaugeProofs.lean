import TenpyModel.MPS.ChainProofs
/-!
Gauge moves on a bond (`canonical_form_finite`: QR sweep, SVD sweep; `_canonical_form_correct_*`)
and the Schmidt certificate.
-/
namespace TenpyModel.MPS

universe u
variable {α : Type u} [CommSemiring α]

/-- row vector times matrix, `n` rows -/
def vecMat (n : Nat) (u : Vec α) (X : Mat α) : Vec α := fun b => sumN n (fun a => u a * X a b)

theorem vstep_mulRight (v : Vec α) (s : RSite α) (X : Mat α) (n p : Nat) :
    vstep v (mulRight s X n) p = vecMat s.dR (vstep v s p) X := by
  funext b'
  simp only [vstep, mulRight, vecMat]
  calc sumN s.dL (fun a => v a * sumN s.dR (fun b => s.M a p b * X b b'))
      = sumN s.dL (fun a => sumN s.dR (fun b => v a * s.M a p b * X b b')) :=
        sumN_congr (fun a _ => by rw [mul_sumN]; exact sumN_congr (fun b _ => by ring))
    _ = sumN s.dR (fun b => sumN s.dL (fun a => v a * s.M a p b * X b b')) := sumN_comm _ _ _
    _ = _ := sumN_congr (fun b _ => by rw [sumN_mul])

theorem vstep_mulLeft (u : Vec α) (Y : Mat α) (n : Nat) (t : RSite α) (q : Nat) :
    vstep u (mulLeft Y n t) q = vstep (vecMat n u Y) t q := by
  funext e
  simp only [vstep, mulLeft, vecMat]
  calc sumN n (fun a' => u a' * sumN t.dL (fun c => Y a' c * t.M c q e))
      = sumN n (fun a' => sumN t.dL (fun c => u a' * Y a' c * t.M c q e)) :=
        sumN_congr (fun a _ => by rw [mul_sumN]; exact sumN_congr (fun b _ => by ring))
    _ = sumN t.dL (fun c => sumN n (fun a' => u a' * Y a' c * t.M c q e)) := sumN_comm _ _ _
    _ = _ := sumN_congr (fun b _ => by rw [sumN_mul])

/-- **QR step** (`B = Q R`, `R` absorbed to the right): moving a matrix from the right leg of one
site to the left leg of the next does not change the contraction. -/
theorem vstep_move_matrix (v : Vec α) (s t : RSite α) (R : Mat α) (p q : Nat) :
    vstep (vstep v (mulRight s R t.dL) p) t q
      = vstep (vstep v s p) (mulLeft R s.dR t) q := by
  rw [vstep_mulRight, vstep_mulLeft]

theorem vstep_congr_range (u u' : Vec α) (t : RSite α) (q : Nat)
    (h : ∀ c, c < t.dL → u c = u' c) : vstep u t q = vstep u' t q := by
  funext e; simp only [vstep]; exact sumN_congr (fun c hc => by rw [h c hc])

/-- **Inserting `X X⁻¹` on a bond**: `B_k → B_k X`, `B_{k+1} → X⁻¹ B_{k+1}` with
`Σ_{a'} X(b,a') Y(a',c) = δ(b,c)` on the old bond. -/
theorem vstep_gauge (v : Vec α) (s t : RSite α) (X Y : Mat α) (n p q : Nat)
    (hdim : s.dR = t.dL)
    (hXY : ∀ b c, b < s.dR → c < s.dR → sumN n (fun a' => X b a' * Y a' c) = delta b c) :
    vstep (vstep v (mulRight s X n) p) (mulLeft Y n t) q = vstep (vstep v s p) t q := by
  rw [vstep_mulRight, vstep_mulLeft]
  refine vstep_congr_range _ _ t q (fun c hc => ?_)
  simp only [vecMat]
  calc sumN n (fun a' => sumN s.dR (fun b => vstep v s p b * X b a') * Y a' c)
      = sumN n (fun a' => sumN s.dR (fun b => vstep v s p b * (X b a' * Y a' c))) :=
        sumN_congr (fun a' _ => by rw [sumN_mul]; exact sumN_congr (fun b _ => by ring))
    _ = sumN s.dR (fun b => sumN n (fun a' => vstep v s p b * (X b a' * Y a' c))) := sumN_comm _ _ _
    _ = sumN s.dR (fun b => vstep v s p b * delta b c) :=
        sumN_congr (fun b hb => by rw [← mul_sumN, hXY b c hb (hdim ▸ hc)])
    _ = vstep v s p c := by rw [sumN_delta_right]; simp [hdim, hc]

/-- the gauge move anywhere in a chain -/
theorem contract_gauge (v : Vec α) (pre post : List (RSite α)) (s t : RSite α) (X Y : Mat α) (n : Nat)
    (σ : List Nat) (hdim : s.dR = t.dL)
    (hXY : ∀ b c, b < s.dR → c < s.dR → sumN n (fun a' => X b a' * Y a' c) = delta b c) :
    contract v (pre ++ mulRight s X n :: mulLeft Y n t :: post) σ
      = contract v (pre ++ s :: t :: post) σ := by
  induction pre generalizing v σ with
  | nil =>
    cases σ with
    | nil => rfl
    | cons p σ =>
      cases σ with
      | nil => rfl
      | cons q σ =>
        simp only [List.nil_append, contract]
        rw [vstep_gauge v s t X Y n p q hdim hXY]
  | cons r pre ih =>
    cases σ with
    | nil => rfl
    | cons p σ => simp only [List.cons_append, contract]; exact ih _ _

/-- the QR move anywhere in a chain -/
theorem contract_move_matrix (v : Vec α) (pre post : List (RSite α)) (s t : RSite α) (R : Mat α)
    (σ : List Nat) :
    contract v (pre ++ mulRight s R t.dL :: t :: post) σ
      = contract v (pre ++ s :: mulLeft R s.dR t :: post) σ := by
  induction pre generalizing v σ with
  | nil =>
    cases σ with
    | nil => rfl
    | cons p σ =>
      cases σ with
      | nil => rfl
      | cons q σ =>
        simp only [List.nil_append, contract]
        rw [vstep_move_matrix v s t R p q]
  | cons r pre ih =>
    cases σ with
    | nil => rfl
    | cons p σ => simp only [List.cons_append, contract]; exact ih _ _

/-! ### Schmidt certificate -/

section schmidt
variable (cj : α → α) (nL nR χ : Nat) (V : Mat α) (s : Vec α) (W : Mat α)

/-- `Ψ(l, r) = Σ_a V(l,a) s(a) W(a,r)` -/
def schmidtPsi : Mat α := fun l r => sumN χ (fun a => V l a * s a * W a r)

/-- reduced density matrix of the left part -/
def rhoL (Ψ : Mat α) : Mat α := fun l l' => sumN nR (fun r => Ψ l r * cj (Ψ l' r))

theorem rhoL_schmidt (hcj : ConjLike cj)
    (hW : ∀ a a', a < χ → a' < χ → sumN nR (fun r => W a r * cj (W a' r)) = delta a a') (l l' : Nat) :
    rhoL cj nR (schmidtPsi χ V s W) l l'
      = sumN χ (fun a => V l a * (s a * cj (s a)) * cj (V l' a)) := by
  simp only [rhoL, schmidtPsi]
  calc sumN nR (fun r => sumN χ (fun a => V l a * s a * W a r) * cj (sumN χ (fun a => V l' a * s a * W a r)))
      = sumN nR (fun r => sumN χ (fun a => sumN χ (fun a' =>
          V l a * s a * (cj (V l' a') * cj (s a')) * (W a r * cj (W a' r))))) :=
        sumN_congr (fun r _ => by
          rw [hcj.sumN, sumN_mul]
          refine sumN_congr (fun a _ => ?_)
          rw [mul_sumN]
          exact sumN_congr (fun a' _ => by rw [hcj.mul, hcj.mul]; ring))
    _ = sumN χ (fun a => sumN χ (fun a' => sumN nR (fun r =>
          V l a * s a * (cj (V l' a') * cj (s a')) * (W a r * cj (W a' r))))) := by
        rw [sumN_comm]; exact sumN_congr (fun a _ => sumN_comm _ _ _)
    _ = sumN χ (fun a => sumN χ (fun a' =>
          V l a * s a * (cj (V l' a') * cj (s a')) * delta a a')) :=
        sumN_congr (fun a ha => sumN_congr (fun a' ha' => by rw [← mul_sumN, hW a a' ha ha']))
    _ = _ := sumN_congr (fun a ha => by
          rw [show (fun a' => V l a * s a * (cj (V l' a') * cj (s a')) * delta a a')
                = (fun a' => delta a a' * (V l a * s a * (cj (V l' a') * cj (s a')))) from
              funext (fun a' => by ring), sumN_delta_left']
          simp only [ha, if_true]; ring)

end schmidt
end TenpyModel.MPS
