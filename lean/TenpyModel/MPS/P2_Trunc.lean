import Mathlib.Analysis.Normed.Group.Basic
import Mathlib.Analysis.Real.Sqrt
import Mathlib.Algebra.Order.Chebyshev
/-!
Round 2 (C09): truncation errors of a sweep add up at most linearly in the NORM.
If every step `ψ_k ↦ ψ_{k+1}` (a truncation applied to the CURRENT state) has squared distance
`ε_k`, then `‖ψ_0 - ψ_n‖ ≤ Σ_k √ε_k` (triangle inequality) and hence
`‖ψ_0 - ψ_n‖² ≤ n · Σ_k ε_k` (Cauchy–Schwarz).  Any seminormed space.
-/
namespace TenpyModel.MPS

open Finset in
theorem trunc_sweep_bound {E : Type*} [SeminormedAddCommGroup E] (x : ℕ → E) (ε : ℕ → ℝ) (n : ℕ)
    (h : ∀ k, k < n → ‖x k - x (k + 1)‖ ^ 2 = ε k) :
    ‖x 0 - x n‖ ≤ ∑ k ∈ range n, Real.sqrt (ε k) ∧
    ‖x 0 - x n‖ ^ 2 ≤ n * ∑ k ∈ range n, ε k := by
  have hstep : ∀ k ∈ range n, dist (x k) (x (k + 1)) = Real.sqrt (ε k) := by
    intro k hk
    rw [dist_eq_norm, ← h k (mem_range.1 hk), Real.sqrt_sq (norm_nonneg _)]
  have h1 : ‖x 0 - x n‖ ≤ ∑ k ∈ range n, Real.sqrt (ε k) := by
    rw [← dist_eq_norm, ← sum_congr rfl hstep]
    exact dist_le_range_sum_dist x n
  refine ⟨h1, ?_⟩
  have h2 : ‖x 0 - x n‖ ^ 2 ≤ (∑ k ∈ range n, Real.sqrt (ε k)) ^ 2 :=
    pow_le_pow_left₀ (norm_nonneg _) h1 2
  have h3 : (∑ k ∈ range n, Real.sqrt (ε k)) ^ 2 ≤ (range n).card * ∑ k ∈ range n, Real.sqrt (ε k) ^ 2 :=
    sq_sum_le_card_mul_sum_sq
  have h4 : ∑ k ∈ range n, Real.sqrt (ε k) ^ 2 = ∑ k ∈ range n, ε k :=
    sum_congr rfl (fun k hk => by
      rw [Real.sq_sqrt]
      rw [← h k (mem_range.1 hk)]; positivity)
  rw [h4, card_range] at h3
  exact h2.trans h3

end TenpyModel.MPS
