import TenpyModel.MPS.FormProofs
import TenpyModel.MPS.Transform
/-!
Relabelling the unit cell of an infinite MPS (`roll_mps_unit_cell`, `enlarge_mps_unit_cell`):
every `get_theta` window is unchanged up to the shift of the site index.
-/
namespace TenpyModel.MPS

universe u
variable {α : Type u} [CommSemiring α]
set_option linter.unusedSectionVars false

namespace MPSM

/-- `M'` at index `i + δ` looks exactly like `M` at index `i` (tensor, form, both bonds). -/
def ShiftRel (M' M : MPSM α) (δ : Int) : Prop :=
  ∀ i : Int, M'.siteAt (i + δ) = M.siteAt i ∧ M'.getSL (i + δ) = M.getSL i ∧ M'.getSR (i + δ) = M.getSR i

theorem ShiftRel.getBsite {M' M : MPSM α} {δ : Int} (h : ShiftRel M' M δ) (i : Int)
    (nf : Option (Option Int × Option Int)) : M'.getBsite (i + δ) nf = M.getBsite i nf := by
  obtain ⟨h1, h2, h3⟩ := h i
  simp only [MPSM.getBsite, MPSM.getB, MPSM.formAt, h1, h2, h3]

theorem ShiftRel.formAt {M' M : MPSM α} {δ : Int} (h : ShiftRel M' M δ) (i : Int) :
    M'.formAt (i + δ) = M.formAt i := by
  simp only [MPSM.formAt, (h i).1]

/-- all windows agree -/
theorem ShiftRel.thetaSites {M' M : MPSM α} {δ : Int} (h : ShiftRel M' M δ) (fR : Int) (n : Nat) :
    ∀ (i tL : Int), M'.thetaSites fR (i + δ) tL n = M.thetaSites fR i tL n := by
  induction n using Nat.strongRecOn with
  | _ n ih =>
    intro i tL
    match n with
    | 0 => rfl
    | 1 => simp only [MPSM.thetaSites, h.getBsite]
    | n + 2 =>
      simp only [MPSM.thetaSites, h.getBsite, h.formAt]
      have e : i + δ + 1 = (i + 1) + δ := by ring
      rw [e, ih (n + 1) (by omega) (i + 1)]

theorem siteIdx_inf (M : MPSM α) (hbc : M.bc = BC.infinite) (hL : 0 < M.L) (j : Int) :
    M.siteIdx j = (j % (M.L : Int)).toNat := by
  have hfb : M.finiteBC = false := by simp [finiteBC, hbc]
  have : M.L ≠ 0 := by omega
  simp [siteIdx, siteIdx?, this, hfb]

theorem emod_cast (L : Nat) (hL : 0 < L) (j : Int) : (((j % (L : Int)).toNat : Nat) : Int) = j % (L : Int) :=
  Int.toNat_of_nonneg (Int.emod_nonneg j (by omega))

/-- `((i + s) mod L - s) mod L = i mod L` -/
theorem emod_shift (L : Int) (i s : Int) : ((i + s) % L - s) % L = i % L := by
  rw [sub_eq_add_neg, Int.emod_add_emod]
  congr 1; ring

/-- **`roll_mps_unit_cell(shift)`** only relabels sites: site `i + shift` of the rolled MPS is site
`i` of the original one (tensor, form, singular values on both sides), for every integer `i`. -/
theorem roll_shiftRel (M : MPSM α) (hbc : M.bc = BC.infinite) (hL : 0 < M.L) (s : Int) :
    ShiftRel (M.roll s) M s := by
  have hbc' : (M.roll s).bc = BC.infinite := hbc
  have hL' : 0 < (M.roll s).L := hL
  have hfb : M.finiteBC = false := by simp [finiteBC, hbc]
  have hfb' : (M.roll s).finiteBC = false := by simp [finiteBC, hbc']
  -- the site function of the rolled MPS at the reduced index
  have key : ∀ j : Int, M.siteIdx ((((j + s) % (M.L : Int)).toNat : Nat) - s) = M.siteIdx j := by
    intro j
    rw [siteIdx_inf M hbc hL, siteIdx_inf M hbc hL, emod_cast M.L hL, emod_shift]
  intro i
  refine ⟨?_, ?_, ?_⟩
  · show (M.roll s).site ((M.roll s).siteIdx (i + s)) = M.site (M.siteIdx i)
    rw [siteIdx_inf _ hbc' hL']
    show M.siteAt ((((i + s) % (M.L : Int)).toNat : Nat) - s) = _
    simp only [siteAt, key i]
  · show (M.roll s).bond ((M.roll s).bondIdx (i + s) true) = M.bond (M.bondIdx i true)
    rw [bondIdxL_eq, bondIdxL_eq, siteIdx_inf _ hbc' hL']
    show M.getSL ((((i + s) % (M.L : Int)).toNat : Nat) - s) = _
    simp only [getSL, bondIdxL_eq, key i]
  · show (M.roll s).bond ((M.roll s).bondIdx (i + s) false) = M.bond (M.bondIdx i false)
    have e1 : (M.roll s).bondIdx (i + s) false = (M.roll s).siteIdx (i + s + 1) := by
      simp [bondIdx, hfb']
    have e2 : M.bondIdx i false = M.siteIdx (i + 1) := by simp [bondIdx, hfb]
    rw [e1, e2, siteIdx_inf _ hbc' hL']
    show M.getSL ((((i + s + 1) % (M.L : Int)).toNat : Nat) - s) = _
    have : i + s + 1 = (i + 1) + s := by ring
    simp only [getSL, bondIdxL_eq, this, key (i + 1)]

/-- **`enlarge_mps_unit_cell(factor)`** changes no window at all. -/
theorem enlarge_shiftRel (M : MPSM α) (hbc : M.bc = BC.infinite) (hL : 0 < M.L) (f : Nat) (hf : 0 < f) :
    ShiftRel (M.enlarge f) M 0 := by
  have hbc' : (M.enlarge f).bc = BC.infinite := hbc
  have hL' : 0 < (M.enlarge f).L := Nat.mul_pos hf hL
  have hfb : M.finiteBC = false := by simp [finiteBC, hbc]
  have hfb' : (M.enlarge f).finiteBC = false := by simp [finiteBC, hbc']
  have hLe : ((M.enlarge f).L : Int) = (f : Int) * (M.L : Int) := by
    show ((f * M.L : Nat) : Int) = _; push_cast; ring
  have key : ∀ j : Int, M.siteIdx ((((j % ((M.enlarge f).L : Int)).toNat : Nat)) : Int) = M.siteIdx j := by
    intro j
    rw [siteIdx_inf M hbc hL, siteIdx_inf M hbc hL, emod_cast _ hL', hLe,
      Int.emod_emod_of_dvd j (Dvd.intro_left _ rfl)]
  intro i
  simp only [add_zero]
  refine ⟨?_, ?_, ?_⟩
  · show (M.enlarge f).site ((M.enlarge f).siteIdx i) = M.site (M.siteIdx i)
    rw [siteIdx_inf _ hbc' hL']
    show M.siteAt _ = _
    simp only [siteAt, key i]
  · show (M.enlarge f).bond ((M.enlarge f).bondIdx i true) = M.bond (M.bondIdx i true)
    rw [bondIdxL_eq, bondIdxL_eq, siteIdx_inf _ hbc' hL']
    show M.getSL _ = _
    simp only [getSL, bondIdxL_eq, key i]
  · show (M.enlarge f).bond ((M.enlarge f).bondIdx i false) = M.bond (M.bondIdx i false)
    have e1 : (M.enlarge f).bondIdx i false = (M.enlarge f).siteIdx (i + 1) := by simp [bondIdx, hfb']
    have e2 : M.bondIdx i false = M.siteIdx (i + 1) := by simp [bondIdx, hfb]
    rw [e1, e2, siteIdx_inf _ hbc' hL']
    show M.getSL _ = _
    simp only [getSL, bondIdxL_eq, key (i + 1)]

end MPSM
end TenpyModel.MPS
