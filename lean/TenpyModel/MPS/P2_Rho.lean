import TenpyModel.C08.Props
import TenpyModel.MPS.OverlapProofs
/-!
Round 2 (C08): `get_rho_segment` for a contiguous segment.  The code contracts
`theta = get_theta(i0, n)` with its conjugate over the two outer virtual legs.  For a chain
`left ++ seg ++ right` whose `left` part is left-isometric and whose `right` part is right-isometric
(the canonical form `get_theta` relies on) this is the partial trace of the dense `|ψ⟩⟨ψ|` over all
sites outside the segment.
-/
namespace TenpyModel.MPS

universe u
variable {α : Type u} [CommSemiring α]
set_option linter.unusedSectionVars false

theorem delta_comm (a b : Nat) : (delta a b : α) = delta b a := by
  unfold delta; by_cases h : a = b
  · subst h; rfl
  · have : ¬ b = a := fun e => h e.symm
    simp [h, this]

/-- eliminating an isometry under a sum over configurations:
`Σ_x (Σ_a V x a F a) · conj(Σ_a' V x a' G a') = Σ_a F a conj(G a)` if `Σ_x V x a conj(V x a') = δ`. -/
theorem iso_elim {cj : α → α} (hcj : ConjLike cj) (ds : List Nat) (n : Nat) (V : List Nat → Nat → α)
    (F G : Nat → α)
    (hV : ∀ a a', a < n → a' < n → sumCfg ds (fun x => V x a * cj (V x a')) = delta a a') :
    sumCfg ds (fun x => sumN n (fun a => V x a * F a) * cj (sumN n (fun a' => V x a' * G a')))
      = sumN n (fun a => F a * cj (G a)) := by
  calc sumCfg ds (fun x => sumN n (fun a => V x a * F a) * cj (sumN n (fun a' => V x a' * G a')))
      = sumCfg ds (fun x => sumN n (fun a => sumN n (fun a' =>
          (F a * cj (G a')) * (V x a * cj (V x a'))))) :=
        sumCfg_congr (fun x => by
          rw [hcj.sumN, sumN_mul]
          refine sumN_congr (fun a _ => ?_)
          rw [mul_sumN]
          exact sumN_congr (fun a' _ => by rw [hcj.mul]; ring))
    _ = sumN n (fun a => sumCfg ds (fun x => sumN n (fun a' =>
          (F a * cj (G a')) * (V x a * cj (V x a'))))) := (sumN_sumCfg_comm _ _ _).symm
    _ = sumN n (fun a => sumN n (fun a' => sumCfg ds (fun x =>
          (F a * cj (G a')) * (V x a * cj (V x a'))))) :=
        sumN_congr (fun a _ => (sumN_sumCfg_comm _ _ _).symm)
    _ = sumN n (fun a => sumN n (fun a' => (F a * cj (G a')) * delta a a')) :=
        sumN_congr (fun a ha => sumN_congr (fun a' ha' => by rw [← mul_sumCfg, hV a a' ha ha']))
    _ = _ := sumN_congr (fun a ha => by
        rw [show (fun a' => F a * cj (G a') * delta a a') = (fun a' => delta a a' * (F a * cj (G a')))
              from funext (fun a' => by ring), sumN_delta_left']
        simp [ha])

/-- the contraction is linear in the start vector: expansion in unit vectors -/
theorem contract_delta_expand (n0 : Nat) (v : Vec α) (ss : List (RSite α)) (σ : List Nat)
    (hc : ChainOK n0 ss) (hne : ss ≠ []) :
    contract v ss σ = fun b => sumN n0 (fun a => v a * contract (fun a' => delta a a') ss σ b) := by
  have h1 : contract v ss σ = contract (fun a' => sumN n0 (fun a => v a * delta a a')) ss σ := by
    refine contract_congr_vec n0 _ _ ss σ hc hne (fun a' ha' => ?_)
    rw [sumN_delta_right]; simp [ha']
  rw [h1, contract_sumN]
  funext b
  exact sumN_congr (fun a _ => by rw [contract_smul])

/-- closing a chain that ends in a trivial bond: nested-sum form of the right part -/
theorem contract_close_pathSum (n0 : Nat) (v : Vec α) (ss : List (RSite α)) (σ : List Nat)
    (hc : ChainOK n0 ss) (hl : lastDim n0 ss = 1) :
    contract v ss σ 0 = sumN n0 (fun a => v a * pathSum (fun a => delta a 0) ss σ a) := by
  have := contract_pathSum n0 v (fun a => (delta a 0 : α)) ss σ hc
  rw [hl] at this
  rw [← this]
  simp [close, sumN, delta]

/-- **a right-canonical chain is a co-isometry in the dense sense** -/
theorem rightIso_dense {cj : α → α} (hcj : ConjLike cj) (hcj1 : cj 1 = 1) (ts : List (RSite α)) (n : Nat)
    (hc : ChainOK n ts) (hl : lastDim n ts = 1) (hiso : ∀ t ∈ ts, RightIso cj t) (b b' : Nat)
    (hb : b < n) (hb' : b' < n) :
    sumCfg (dims ts) (fun ρ =>
        pathSum (fun a => delta a 0) ts ρ b * cj (pathSum (fun a => delta a 0) ts ρ b'))
      = delta b b' := by
  have h1 := overlapTM_eq_dense hcj (fun a => (delta b' a : α)) (fun a => delta b a) ts ts 1 1
    (fun a => delta a 0) (fun a => delta a 0)
  have hcl : ∀ (c : Nat), c < n → ∀ ρ, close 1 (contract (fun a => (delta c a : α)) ts ρ) (fun a => delta a 0)
      = pathSum (fun a => delta a 0) ts ρ c := by
    intro c hc' ρ
    have := contract_pathSum n (fun a => (delta c a : α)) (fun a => (delta a 0 : α)) ts ρ hc
    rw [hl] at this
    rw [this, sumN_delta_left']; simp [hc']
  have h2 : sumCfg (dims ts) (fun ρ =>
        pathSum (fun a => delta a 0) ts ρ b * cj (pathSum (fun a => delta a 0) ts ρ b'))
      = overlapTM cj (fun a => (delta b' a : α)) (fun a => delta b a) ts ts 1 1
          (fun a => delta a 0) (fun a => delta a 0) := by
    rw [h1]
    exact sumCfg_congr (fun ρ => by rw [hcl b' hb' ρ, hcl b hb ρ]; ring)
  rw [h2]
  simp only [overlapTM]
  have key := closeMat_tmFold_eq_rpFold cj (fun a => (delta a 0 : α)) (fun a => delta a 0) ts ts n n
    (outer cj (fun a => (delta b' a : α)) (fun a => delta b a)) hc hc rfl
  rw [hl] at key
  rw [key]
  have hR : ∀ c' c, c' < lastDim n ts → c < lastDim n ts →
      (fun c' c => cj ((delta c' 0 : α)) * delta c 0) c' c = delta c' c := by
    intro c' c hc' hc2
    rw [hl] at hc' hc2
    have e1 : c' = 0 := by omega
    have e2 : c = 0 := by omega
    subst e1; subst e2
    simp [delta, hcj1]
  have hid := rpFold_id (cj := cj) ts n _ hc hiso hR
  calc sumN n (fun a' => sumN n (fun a => outer cj (fun a => (delta b' a : α)) (fun a => delta b a) a' a *
          rpFold cj (fun c' c => cj (delta c' 0) * delta c 0) ts ts a' a))
      = sumN n (fun a' => sumN n (fun a => delta b a * (cj (delta b' a') * delta a' a))) :=
        sumN_congr (fun a' ha' => sumN_congr (fun a ha => by
          rw [hid a' a ha' ha]; simp only [outer]; ring))
    _ = sumN n (fun a' => cj (delta b' a') * delta a' b) :=
        sumN_congr (fun a' _ => by rw [sumN_delta_left']; simp [hb])
    _ = cj (delta b' b) := by rw [sumN_delta_right]; simp [hb]
    _ = delta b b' := by
        unfold delta
        by_cases h : b' = b
        · subst h; simp [hcj1]
        · have : ¬ b = b' := fun e => h e.symm
          simp [h, this, hcj.zero]

section segment
variable {cj : α → α} (left seg right : List (RSite α))

/-- amplitude of the full chain (trivial outer bonds) -/
def ampOf (ss : List (RSite α)) (τ : List Nat) : α := contract (fun a => delta a 0) ss τ 0

/-- amplitude = left environment vector × `theta` × right environment vector -/
theorem amp_decompose (hcl : ChainOK 1 left) (hcs : ChainOK (lastDim 1 left) seg)
    (hcr : ChainOK (lastDim (lastDim 1 left) seg) right)
    (hlast : lastDim (lastDim (lastDim 1 left) seg) right = 1) (hne : seg ≠ [])
    (l σ ρ : List Nat) (hl : left.length = l.length) (hσ : seg.length = σ.length) :
    ampOf (left ++ seg ++ right) (l ++ σ ++ ρ)
      = sumN (lastDim (lastDim 1 left) seg) (fun b =>
          pathSum (fun a => delta a 0) right ρ b *
            sumN (lastDim 1 left) (fun a =>
              contract (fun a => delta a 0) left l a * contract (fun a' => delta a a') seg σ b)) := by
  unfold ampOf
  rw [List.append_assoc, List.append_assoc, contract_append _ left _ l _ hl,
    contract_append _ seg _ σ _ hσ, contract_close_pathSum _ _ right ρ hcr hlast]
  refine sumN_congr (fun b _ => ?_)
  rw [contract_delta_expand (lastDim 1 left) _ seg σ hcs hne]
  ring

/-- **`get_rho_segment` (contiguous segment) = partial trace of `|ψ⟩⟨ψ|`.** -/
theorem rho_segment_eq (hcj : ConjLike cj) (hcj1 : cj 1 = 1)
    (hcl : ChainOK 1 left) (hcs : ChainOK (lastDim 1 left) seg)
    (hcr : ChainOK (lastDim (lastDim 1 left) seg) right)
    (hlast : lastDim (lastDim (lastDim 1 left) seg) right = 1) (hne : seg ≠ [])
    (hL : ∀ t ∈ left, LeftIso cj t) (hR : ∀ t ∈ right, RightIso cj t)
    (σ σ' : List Nat) (hσ : seg.length = σ.length) (hσ' : seg.length = σ'.length) :
    sumCfg (dims left) (fun l => sumCfg (dims right) (fun ρ =>
        ampOf (left ++ seg ++ right) (l ++ σ ++ ρ) * cj (ampOf (left ++ seg ++ right) (l ++ σ' ++ ρ))))
      = sumN (lastDim 1 left) (fun a => sumN (lastDim (lastDim 1 left) seg) (fun b =>
          contract (fun a' => delta a a') seg σ b * cj (contract (fun a' => delta a a') seg σ' b))) := by
  have hdl : (dims left).length = left.length := by simp [dims]
  -- sum over the right configurations: the right environment is a co-isometry
  have step1 : ∀ l, l.length = (dims left).length →
      sumCfg (dims right) (fun ρ =>
        ampOf (left ++ seg ++ right) (l ++ σ ++ ρ) * cj (ampOf (left ++ seg ++ right) (l ++ σ' ++ ρ)))
      = sumN (lastDim (lastDim 1 left) seg) (fun b =>
          sumN (lastDim 1 left) (fun a =>
              contract (fun a => delta a 0) left l a * contract (fun a' => delta a a') seg σ b) *
          cj (sumN (lastDim 1 left) (fun a =>
              contract (fun a => delta a 0) left l a * contract (fun a' => delta a a') seg σ' b))) := by
    intro l hl
    have hl' : left.length = l.length := by rw [hl, hdl]
    rw [← iso_elim hcj (dims right) (lastDim (lastDim 1 left) seg)
      (fun ρ b => pathSum (fun a => delta a 0) right ρ b) _ _
      (fun b b' hb hb' => rightIso_dense hcj hcj1 right _ hcr hlast hR b b' hb hb')]
    exact sumCfg_congr (fun ρ => by
      rw [amp_decompose left seg right hcl hcs hcr hlast hne l σ ρ hl' hσ,
        amp_decompose left seg right hcl hcs hcr hlast hne l σ' ρ hl' hσ'])
  rw [sumCfg_congr_len step1]
  -- sum over the left configurations: the left environment is an isometry
  have hLiso : ∀ a a', a < lastDim 1 left → a' < lastDim 1 left →
      sumCfg (dims left) (fun l => contract (fun a => delta a 0) left l a *
        cj (contract (fun a => delta a 0) left l a')) = delta a a' := by
    intro a a' ha ha'
    rw [delta_comm, ← C08_left_isometry hcj hcj1 left hcl hL a' a ha' ha]
    exact sumCfg_congr (fun l => by ring)
  calc sumCfg (dims left) (fun l => sumN (lastDim (lastDim 1 left) seg) (fun b =>
          sumN (lastDim 1 left) (fun a =>
              contract (fun a => delta a 0) left l a * contract (fun a' => delta a a') seg σ b) *
          cj (sumN (lastDim 1 left) (fun a =>
              contract (fun a => delta a 0) left l a * contract (fun a' => delta a a') seg σ' b))))
      = sumN (lastDim (lastDim 1 left) seg) (fun b => sumCfg (dims left) (fun l =>
          sumN (lastDim 1 left) (fun a =>
              contract (fun a => delta a 0) left l a * contract (fun a' => delta a a') seg σ b) *
          cj (sumN (lastDim 1 left) (fun a =>
              contract (fun a => delta a 0) left l a * contract (fun a' => delta a a') seg σ' b)))) :=
        (sumN_sumCfg_comm _ _ _).symm
    _ = sumN (lastDim (lastDim 1 left) seg) (fun b => sumN (lastDim 1 left) (fun a =>
          contract (fun a' => delta a a') seg σ b * cj (contract (fun a' => delta a a') seg σ' b))) :=
        sumN_congr (fun b _ =>
          iso_elim hcj (dims left) (lastDim 1 left) (fun l a => contract (fun a => delta a 0) left l a) _ _ hLiso)
    _ = _ := sumN_comm _ _ _

end segment
end TenpyModel.MPS
