import TenpyModel.MPS.MeasureProofs
import TenpyModel.MPS.GaugeProofs
import TenpyModel.MPS.OverlapProofs
/-!
Round 2 (C07): `canonical_form_finite` as two sweeps of gauge moves with the factorizations as
PARAMETERS.

* left-to-right: `M_i / |M_i| = Q_i R_i` (`npc.qr`), `Q_i` stored as `'A'` tensor, `R_i` multiplied
  into site `i+1` (`tensordot(R, M, ['vR','vL'])`), `|M_i|` multiplied into `psi.norm` unless
  `renormalize`;
* right-to-left: `M_i = (U_i S_i) V_i` (`npc.svd`), `V_i` stored as `'B'` tensor, `U_i S_i/|S_i|`
  multiplied into site `i-1`; `|S|` of the first SVD goes to `psi.norm` unless `renormalize`, the later
  ones are dropped by the code (they are 1 for an isometric rest of the chain); on site 0 the
  remaining `1×1` matrix `U[0,0]` is multiplied back (`self._B[0] *= U[0, 0]`).

The factorization routines enter only through their post-conditions (`QRSpec`, `SVSpec`); the
numbers divided out enter through `ν · ν⁻¹ = 1`.  The post-conditions are required exactly for the tensors
the routines are called with during the run (`sweepLCalls`, `sweepRCalls`).
-/
namespace TenpyModel.MPS

universe u
variable {α : Type u}

section defs
variable [Zero α] [One α] [Add α] [Mul α]

/-- `arr /= norm` resp. multiplying a tensor by a number -/
def smulSite (c : α) (s : RSite α) : RSite α := { s with M := fun a p b => c * s.M a p b }

def smulMat (c : α) (X : Mat α) : Mat α := fun a b => c * X a b

/-- norm bookkeeping `(tracked, dropped)`: `_normalize_array(arr, renormalize)` multiplies the
norm of `arr` into `psi.norm` iff `not renormalize`. -/
def updNorm (renorm : Bool) (nl : α × α) (ν : α) : α × α :=
  if renorm then (nl.1, nl.2 * ν) else (nl.1 * ν, nl.2)

/-- total weight that was divided out of the tensors so far -/
def wt (nl : α × α) : α := nl.1 * nl.2

/-- **QR sweep** of `canonical_form_finite` (left to right).  `cur` is the current tensor with the
`R` of the previous step already absorbed, `rest` the untouched sites; `nz s = (|s|, 1/|s|)`.
Returns the `'A'` tensors of sites `0 … L-2`, the normalized tensor `M` of the last site and the
norm bookkeeping. -/
def sweepL (renorm : Bool) (nz : RSite α → α × α) (qr : RSite α → RSite α × Mat α) :
    RSite α → List (RSite α) → α × α → List (RSite α) × RSite α × (α × α)
  | cur, [], nl => ([], smulSite (nz cur).2 cur, updNorm renorm nl (nz cur).1)
  | cur, t :: rest, nl =>
      let f := qr (smulSite (nz cur).2 cur)
      let r := sweepL renorm nz qr (mulLeft f.2 f.1.dR t) rest (updNorm renorm nl (nz cur).1)
      (f.1 :: r.1, r.2)

/-- **SVD sweep** of `canonical_form_finite` (right to left).  `revPre` = the `'A'` tensors of the
sites left of the current one in REVERSED order, `cur` the current tensor (with `U S` of the
previous step absorbed), `done` the finished `'B'` tensors.  `sv s = (U·diag S, V)`,
`nzS s = (|S|, 1/|S|)`.  `first`: the `|S|` of the very first SVD is tracked in `psi.norm` (unless
`renormalize`), the later ones are dropped. -/
def sweepR (renorm : Bool) (nzS : RSite α → α × α) (sv : RSite α → Mat α × RSite α) :
    Bool → List (RSite α) → RSite α → List (RSite α) → α × α → List (RSite α) × (α × α)
  | first, [], cur, done, nl =>
      let f := sv cur
      (mulLeft (smulMat (nzS cur).2 f.1) cur.dL f.2 :: done,
       updNorm (renorm || !first) nl (nzS cur).1)
  | first, s :: revPre, cur, done, nl =>
      let f := sv cur
      sweepR renorm nzS sv false revPre (mulRight s (smulMat (nzS cur).2 f.1) f.2.dL) (f.2 :: done)
        (updNorm (renorm || !first) nl (nzS cur).1)

/-- `canonical_form_finite(renormalize)` on the tensors `get_B(0,'Th'), get_B(1,'B'), …`:
returns the new `'B'` tensors and `(factor multiplied into psi.norm, factor dropped)`. -/
def canonFinite (renorm : Bool) (nz : RSite α → α × α) (qr : RSite α → RSite α × Mat α)
    (nzS : RSite α → α × α) (sv : RSite α → Mat α × RSite α) :
    List (RSite α) → List (RSite α) × (α × α)
  | [] => ([], (1, 1))
  | s0 :: rest =>
      let l := sweepL renorm nz qr s0 rest (1, 1)
      sweepR renorm nzS sv true l.1.reverse l.2.1 [] l.2.2

/-- the tensors handed to `npc.qr` during the QR sweep -/
def sweepLCalls (nz : RSite α → α × α) (qr : RSite α → RSite α × Mat α) :
    RSite α → List (RSite α) → List (RSite α)
  | _, [] => []
  | cur, t :: rest =>
      smulSite (nz cur).2 cur ::
        sweepLCalls nz qr (mulLeft (qr (smulSite (nz cur).2 cur)).2 (qr (smulSite (nz cur).2 cur)).1.dR t) rest

/-- the tensors handed to `npc.svd` during the SVD sweep -/
def sweepRCalls (nzS : RSite α → α × α) (sv : RSite α → Mat α × RSite α) :
    List (RSite α) → RSite α → List (RSite α)
  | [], cur => [cur]
  | s :: revPre, cur =>
      cur :: sweepRCalls nzS sv revPre (mulRight s (smulMat (nzS cur).2 (sv cur).1) (sv cur).2.dL)

end defs

variable [CommSemiring α]
set_option linter.unusedSectionVars false

/-- post-condition of `npc.qr(M.combine_legs(['vL','p']))`: `M = Q R` on the index ranges, `Q`
keeps the left and physical leg and is an isometry. -/
structure QRSpec (cj : α → α) (qr : RSite α → RSite α × Mat α) (s : RSite α) : Prop where
  dL : (qr s).1.dL = s.dL
  d : (qr s).1.d = s.d
  eq : ∀ a p b, a < s.dL → b < s.dR →
    sumN (qr s).1.dR (fun k => (qr s).1.M a p k * (qr s).2 k b) = s.M a p b
  iso : LeftIso cj (qr s).1

/-- post-condition of `npc.svd(M.combine_legs(['p','vR']))`: `M = (U S) V` on the index ranges,
`V` keeps the physical and right leg and is a co-isometry. -/
structure SVSpec (cj : α → α) (sv : RSite α → Mat α × RSite α) (s : RSite α) : Prop where
  dR : (sv s).2.dR = s.dR
  d : (sv s).2.d = s.d
  eq : ∀ a p b, a < s.dL → b < s.dR →
    sumN (sv s).2.dL (fun k => (sv s).1 a k * (sv s).2.M k p b) = s.M a p b
  iso : RightIso cj (sv s).2

theorem wt_updNorm (b : Bool) (nl : α × α) (ν : α) : wt (updNorm b nl ν) = wt nl * ν := by
  cases b <;> simp only [wt, updNorm] <;> simp <;> ring

/-! ### chains in context -/

theorem chainOK_app (n0 : Nat) (l1 l2 : List (RSite α)) :
    ChainOK n0 (l1 ++ l2) ↔ ChainOK n0 l1 ∧ ChainOK (lastDim n0 l1) l2 := by
  induction l1 generalizing n0 with
  | nil => simp [ChainOK, lastDim]
  | cons s l1 ih => simp only [List.cons_append, ChainOK, lastDim, ih, and_assoc]

theorem lastDim_app (n0 : Nat) (l1 l2 : List (RSite α)) :
    lastDim n0 (l1 ++ l2) = lastDim (lastDim n0 l1) l2 := by
  induction l1 generalizing n0 with
  | nil => rfl
  | cons s l1 ih => simp only [List.cons_append, lastDim, ih]

/-- same dimensions, same entries on the index ranges -/
def SiteEqOn (s t : RSite α) : Prop :=
  s.dL = t.dL ∧ s.dR = t.dR ∧ ∀ a p c, a < s.dL → c < s.dR → s.M a p c = t.M a p c

theorem chainEqOn_ctx (pre post : List (RSite α)) (s t : RSite α) (h : SiteEqOn s t) :
    ChainEqOn (pre ++ s :: post) (pre ++ t :: post) := by
  induction pre with
  | nil => exact ⟨h.1, h.2.1, h.2.2, chainEqOn_refl _⟩
  | cons r pre ih => exact ⟨rfl, rfl, fun _ _ _ _ _ => rfl, ih⟩

theorem contract_ctx_eqOn (pre post : List (RSite α)) (s t : RSite α) (h : SiteEqOn s t) (n0 : Nat)
    (v : Vec α) (σ : List Nat) (hc : ChainOK n0 (pre ++ s :: post)) (c : Nat)
    (hcl : c < lastDim n0 (pre ++ s :: post)) :
    contract v (pre ++ s :: post) σ c = contract v (pre ++ t :: post) σ c :=
  contract_chainEqOn _ _ n0 v v σ (chainEqOn_ctx pre post s t h) hc (fun _ _ => rfl) c hcl

theorem chainOK_ctx_congr (pre post : List (RSite α)) (s t : RSite α) (hL : s.dL = t.dL) (hR : s.dR = t.dR)
    (n0 : Nat) : ChainOK n0 (pre ++ s :: post) ↔ ChainOK n0 (pre ++ t :: post) := by
  rw [chainOK_app, chainOK_app]; simp only [ChainOK, hL, hR]

theorem lastDim_ctx_congr (pre post : List (RSite α)) (s t : RSite α) (hR : s.dR = t.dR) (n0 : Nat) :
    lastDim n0 (pre ++ s :: post) = lastDim n0 (pre ++ t :: post) := by
  rw [lastDim_app, lastDim_app]; simp only [lastDim, hR]

theorem vstep_smulSite (x : α) (v : Vec α) (s : RSite α) (p : Nat) :
    vstep v (smulSite x s) p = fun b => x * vstep v s p b := by
  funext b; simp only [vstep, smulSite]; rw [mul_sumN]; exact sumN_congr (fun a _ => by ring)

theorem contract_ctx_smul (pre post : List (RSite α)) (s : RSite α) (x : α) (v : Vec α) (σ : List Nat) :
    contract v (pre ++ smulSite x s :: post) σ = fun c => x * contract v (pre ++ s :: post) σ c := by
  induction pre generalizing v σ with
  | nil =>
    cases σ with
    | nil => funext c; simp [contract]
    | cons p ps =>
      simp only [List.nil_append, contract]
      rw [vstep_smulSite, contract_smul]
  | cons r pre ih =>
    cases σ with
    | nil => funext c; simp [contract]
    | cons p ps => simp only [List.cons_append, contract]; exact ih _ _

theorem mulRight_smulMat (s : RSite α) (x : α) (X : Mat α) (n : Nat) :
    mulRight s (smulMat x X) n = smulSite x (mulRight s X n) := by
  simp only [mulRight, smulMat, smulSite]
  congr 1
  funext a p b'
  rw [mul_sumN]; exact sumN_congr (fun b _ => by ring)

theorem mulLeft_smulMat (x : α) (X : Mat α) (n : Nat) (t : RSite α) :
    mulLeft (smulMat x X) n t = smulSite x (mulLeft X n t) := by
  simp only [mulLeft, smulMat, smulSite]
  congr 1
  funext a p b'
  rw [mul_sumN]; exact sumN_congr (fun b _ => by ring)

/-! ### the QR sweep -/

theorem sweepL_shape (renorm : Bool) (nz : RSite α → α × α) (qr : RSite α → RSite α × Mat α) {cj : α → α}
    (rest : List (RSite α)) :
    ∀ (cur : RSite α) (nl : α × α) (n0 : Nat), ChainOK n0 (cur :: rest) →
      (∀ s ∈ sweepLCalls nz qr cur rest, QRSpec cj qr s) →
      ChainOK n0 ((sweepL renorm nz qr cur rest nl).1 ++ [(sweepL renorm nz qr cur rest nl).2.1]) ∧
      lastDim n0 ((sweepL renorm nz qr cur rest nl).1 ++ [(sweepL renorm nz qr cur rest nl).2.1])
        = lastDim n0 (cur :: rest) ∧
      (sweepL renorm nz qr cur rest nl).1.length = rest.length ∧
      (∀ t ∈ (sweepL renorm nz qr cur rest nl).1, LeftIso cj t) := by
  induction rest with
  | nil =>
    intro cur nl n0 hc _
    exact ⟨⟨hc.1, trivial⟩, rfl, rfl, fun t ht => by simp [sweepL] at ht⟩
  | cons t rest ih =>
    intro cur nl n0 hc hqr
    obtain ⟨h1, h2, h3⟩ := hc
    have hq0 : QRSpec cj qr (smulSite (nz cur).2 cur) := hqr _ (by simp [sweepLCalls])
    have hq := hq0.dL
    have hnext : ChainOK (qr (smulSite (nz cur).2 cur)).1.dR
        (mulLeft (qr (smulSite (nz cur).2 cur)).2 (qr (smulSite (nz cur).2 cur)).1.dR t :: rest) :=
      ⟨rfl, h3⟩
    obtain ⟨i1, i2, i3, i4⟩ := ih _ (updNorm renorm nl (nz cur).1) _ hnext
      (fun s hs => hqr s (by simp only [sweepLCalls, List.mem_cons]; exact Or.inr hs))
    refine ⟨⟨by rw [hq]; exact h1, i1⟩, ?_, by simp only [sweepL, List.length_cons, i3], ?_⟩
    · simp only [sweepL, List.cons_append, lastDim] at i2 ⊢
      exact i2
    · intro t' ht'
      simp only [sweepL, List.mem_cons] at ht'
      rcases ht' with rfl | ht'
      · exact hq0.iso
      · exact i4 t' ht'

/-- **state preservation of the QR sweep**: (weight divided out) × (new chain) = old chain -/
theorem sweepL_state (renorm : Bool) (nz : RSite α → α × α) (qr : RSite α → RSite α × Mat α) {cj : α → α}
    (hnz : ∀ s, (nz s).1 * (nz s).2 = 1) (rest : List (RSite α)) :
    ∀ (cur : RSite α) (nl : α × α) (n0 : Nat) (v : Vec α) (σ : List Nat), ChainOK n0 (cur :: rest) →
      (∀ s ∈ sweepLCalls nz qr cur rest, QRSpec cj qr s) →
      ∀ c, c < lastDim n0 (cur :: rest) →
        wt (sweepL renorm nz qr cur rest nl).2.2 *
            contract v ((sweepL renorm nz qr cur rest nl).1 ++ [(sweepL renorm nz qr cur rest nl).2.1]) σ c
          = wt nl * contract v (cur :: rest) σ c := by
  induction rest with
  | nil =>
    intro cur nl n0 v σ hc _ c hcl
    simp only [sweepL, List.nil_append]
    have := congrFun (contract_ctx_smul [] [] cur (nz cur).2 v σ) c
    simp only [List.nil_append] at this
    rw [this, wt_updNorm]
    calc wt nl * (nz cur).1 * ((nz cur).2 * contract v [cur] σ c)
        = wt nl * ((nz cur).1 * (nz cur).2) * contract v [cur] σ c := by ring
      _ = _ := by rw [hnz]; ring
  | cons t rest ih =>
    intro cur nl n0 v σ hc hqr c hcl
    obtain ⟨h1, h2, h3⟩ := hc
    have hq0 : QRSpec cj qr (smulSite (nz cur).2 cur) := hqr _ (by simp [sweepLCalls])
    have hqr' : ∀ s ∈ sweepLCalls nz qr (mulLeft (qr (smulSite (nz cur).2 cur)).2
        (qr (smulSite (nz cur).2 cur)).1.dR t) rest, QRSpec cj qr s :=
      fun s hs => hqr s (by simp only [sweepLCalls, List.mem_cons]; exact Or.inr hs)
    set cur' := smulSite (nz cur).2 cur with hcur'
    have hq := hq0.dL
    -- the normalized current tensor is `Q R` on the ranges
    have hEq : SiteEqOn cur' (mulRight (qr cur').1 (qr cur').2 t.dL) :=
      ⟨hq.symm, by show cur.dR = t.dL; exact h2.symm, fun a p b ha hb => (hq0.eq a p b ha hb).symm⟩
    have hc' : ChainOK n0 ([] ++ cur' :: t :: rest) := ⟨h1, h2, h3⟩
    have e1 := contract_ctx_eqOn [] (t :: rest) cur' _ hEq n0 v σ hc' c hcl
    have e2 := congrFun (contract_move_matrix v [] rest (qr cur').1 t (qr cur').2 σ) c
    have e0 := congrFun (contract_ctx_smul [] (t :: rest) cur (nz cur).2 v σ) c
    simp only [List.nil_append] at e0 e1 e2
    -- recursion on the rest of the chain
    have hnext : ChainOK (qr cur').1.dR (mulLeft (qr cur').2 (qr cur').1.dR t :: rest) := ⟨rfl, h3⟩
    cases σ with
    | nil => simp [sweepL, contract]
    | cons p ps =>
      have hrec := ih (mulLeft (qr cur').2 (qr cur').1.dR t) (updNorm renorm nl (nz cur).1) (qr cur').1.dR
        (vstep v (qr cur').1 p) ps hnext hqr' c hcl
      simp only [sweepL, List.cons_append, contract] at hrec ⊢
      rw [hrec, wt_updNorm]
      simp only [contract] at e0 e1 e2
      have e3 : contract (vstep v cur p) (t :: rest) ps c
          = (nz cur).1 * contract (vstep v cur' p) (t :: rest) ps c := by
        rw [e0]
        calc contract (vstep v cur p) (t :: rest) ps c
            = ((nz cur).1 * (nz cur).2) * contract (vstep v cur p) (t :: rest) ps c := by rw [hnz]; ring
          _ = _ := by ring
      rw [e3, e1, e2]
      ring

/-! ### the SVD sweep -/

theorem sweepR_shape (renorm : Bool) (nzS : RSite α → α × α) (sv : RSite α → Mat α × RSite α) {cj : α → α}
    (revPre : List (RSite α)) :
    ∀ (first : Bool) (cur : RSite α) (done : List (RSite α)) (nl : α × α) (n0 : Nat),
      ChainOK n0 (revPre.reverse ++ cur :: done) → (∀ t ∈ done, RightIso cj t) →
      (∀ s ∈ sweepRCalls nzS sv revPre cur, SVSpec cj sv s) →
      ChainOK n0 (sweepR renorm nzS sv first revPre cur done nl).1 ∧
      lastDim n0 (sweepR renorm nzS sv first revPre cur done nl).1
        = lastDim n0 (revPre.reverse ++ cur :: done) ∧
      (sweepR renorm nzS sv first revPre cur done nl).1.length = revPre.length + 1 + done.length ∧
      (∀ t ∈ (sweepR renorm nzS sv first revPre cur done nl).1.tail, RightIso cj t) := by
  induction revPre with
  | nil =>
    intro first cur done nl n0 hc hiso hsv
    have hs0 : SVSpec cj sv cur := hsv _ (by simp [sweepRCalls])
    simp only [List.reverse_nil, List.nil_append] at hc
    refine ⟨⟨hc.1, ?_⟩, ?_, by simp only [sweepR, List.length_cons, List.length_nil]; omega, ?_⟩
    · show ChainOK (sv cur).2.dR done
      rw [hs0.dR]; exact hc.2
    · simp only [sweepR, lastDim, List.reverse_nil, List.nil_append]
      show lastDim (sv cur).2.dR done = _
      rw [hs0.dR]
    · intro t ht
      simp only [sweepR, List.tail_cons] at ht
      exact hiso t ht
  | cons s revPre ih =>
    intro first cur done nl n0 hc hiso hsv
    have hs0 : SVSpec cj sv cur := hsv _ (by simp [sweepRCalls])
    have hsv' : ∀ s' ∈ sweepRCalls nzS sv revPre
        (mulRight s (smulMat (nzS cur).2 (sv cur).1) (sv cur).2.dL), SVSpec cj sv s' :=
      fun s' hs' => hsv s' (by simp only [sweepRCalls, List.mem_cons]; exact Or.inr hs')
    have hassoc : (s :: revPre).reverse ++ cur :: done = revPre.reverse ++ s :: cur :: done := by
      simp
    rw [hassoc] at hc ⊢
    have hc0 := (chainOK_app n0 revPre.reverse (s :: cur :: done)).1 hc
    obtain ⟨hp, hs1, hs2, hs3⟩ := hc0
    have hnew : ChainOK n0 (revPre.reverse ++ mulRight s (smulMat (nzS cur).2 (sv cur).1) (sv cur).2.dL ::
        (sv cur).2 :: done) := by
      rw [chainOK_app]
      refine ⟨hp, hs1, rfl, ?_⟩
      show ChainOK (sv cur).2.dR done
      rw [hs0.dR]; exact hs3
    have hiso' : ∀ t ∈ (sv cur).2 :: done, RightIso cj t := by
      intro t ht
      rcases List.mem_cons.1 ht with rfl | ht
      · exact hs0.iso
      · exact hiso t ht
    obtain ⟨i1, i2, i3, i4⟩ := ih false (mulRight s (smulMat (nzS cur).2 (sv cur).1) (sv cur).2.dL) ((sv cur).2 :: done)
      (updNorm (renorm || !first) nl (nzS cur).1) n0 hnew hiso' hsv'
    refine ⟨i1, ?_, ?_, i4⟩
    · simp only [sweepR] at i2 ⊢
      rw [i2, lastDim_app, lastDim_app]
      simp only [lastDim, hs0.dR]
    · simp only [sweepR, List.length_cons] at i3 ⊢
      omega

/-- **state preservation of the SVD sweep** -/
theorem sweepR_state (renorm : Bool) (nzS : RSite α → α × α) (sv : RSite α → Mat α × RSite α) {cj : α → α}
    (hnz : ∀ s, (nzS s).1 * (nzS s).2 = 1) (revPre : List (RSite α)) :
    ∀ (first : Bool) (cur : RSite α) (done : List (RSite α)) (nl : α × α) (n0 : Nat) (v : Vec α) (σ : List Nat),
      ChainOK n0 (revPre.reverse ++ cur :: done) →
      (∀ s ∈ sweepRCalls nzS sv revPre cur, SVSpec cj sv s) →
      ∀ c, c < lastDim n0 (revPre.reverse ++ cur :: done) →
        wt (sweepR renorm nzS sv first revPre cur done nl).2 *
            contract v (sweepR renorm nzS sv first revPre cur done nl).1 σ c
          = wt nl * contract v (revPre.reverse ++ cur :: done) σ c := by
  induction revPre with
  | nil =>
    intro first cur done nl n0 v σ hc hsv c hcl
    have hs0 : SVSpec cj sv cur := hsv _ (by simp [sweepRCalls])
    simp only [List.reverse_nil, List.nil_append] at hc hcl ⊢
    simp only [sweepR]
    rw [mulLeft_smulMat, wt_updNorm]
    have e0 := congrFun (contract_ctx_smul [] done (mulLeft (sv cur).1 cur.dL (sv cur).2) (nzS cur).2 v σ) c
    have hEq : SiteEqOn cur (mulLeft (sv cur).1 cur.dL (sv cur).2) :=
      ⟨rfl, hs0.dR.symm, fun a p b ha hb => (hs0.eq a p b ha hb).symm⟩
    have e1 := contract_ctx_eqOn [] done cur _ hEq n0 v σ hc c hcl
    simp only [List.nil_append] at e0 e1
    rw [e0, e1]
    calc wt nl * (nzS cur).1 * ((nzS cur).2 * contract v (mulLeft (sv cur).1 cur.dL (sv cur).2 :: done) σ c)
        = wt nl * ((nzS cur).1 * (nzS cur).2) * contract v (mulLeft (sv cur).1 cur.dL (sv cur).2 :: done) σ c := by
          ring
      _ = _ := by rw [hnz]; ring
  | cons s revPre ih =>
    intro first cur done nl n0 v σ hc hsv c hcl
    have hs0 : SVSpec cj sv cur := hsv _ (by simp [sweepRCalls])
    have hsv' : ∀ s' ∈ sweepRCalls nzS sv revPre
        (mulRight s (smulMat (nzS cur).2 (sv cur).1) (sv cur).2.dL), SVSpec cj sv s' :=
      fun s' hs' => hsv s' (by simp only [sweepRCalls, List.mem_cons]; exact Or.inr hs')
    have hassoc : (s :: revPre).reverse ++ cur :: done = revPre.reverse ++ s :: cur :: done := by
      simp
    rw [hassoc] at hc hcl ⊢
    have hc0 := (chainOK_app n0 revPre.reverse (s :: cur :: done)).1 hc
    obtain ⟨hp, hs1, hs2, hs3⟩ := hc0
    have hnew : ChainOK n0 (revPre.reverse ++ mulRight s (smulMat (nzS cur).2 (sv cur).1) (sv cur).2.dL ::
        (sv cur).2 :: done) := by
      rw [chainOK_app]
      refine ⟨hp, hs1, rfl, ?_⟩
      show ChainOK (sv cur).2.dR done
      rw [hs0.dR]; exact hs3
    have hld : lastDim n0 (revPre.reverse ++ mulRight s (smulMat (nzS cur).2 (sv cur).1) (sv cur).2.dL ::
        (sv cur).2 :: done) = lastDim n0 (revPre.reverse ++ s :: cur :: done) := by
      rw [lastDim_app, lastDim_app]; simp only [lastDim, hs0.dR]
    have hrec := ih false (mulRight s (smulMat (nzS cur).2 (sv cur).1) (sv cur).2.dL) ((sv cur).2 :: done)
      (updNorm (renorm || !first) nl (nzS cur).1) n0 v σ hnew hsv' c (by rw [hld]; exact hcl)
    simp only [sweepR]
    rw [hrec, wt_updNorm, mulRight_smulMat]
    -- `cur = (U S) V` on the ranges, then move `U S` to the left neighbour
    have hEq : SiteEqOn cur (mulLeft (sv cur).1 s.dR (sv cur).2) :=
      ⟨hs2, hs0.dR.symm, fun a p b ha hb => (hs0.eq a p b ha hb).symm⟩
    have hc1 : ChainOK n0 ((revPre.reverse ++ [s]) ++ cur :: done) := by
      simpa using hc
    have hcl1 : c < lastDim n0 ((revPre.reverse ++ [s]) ++ cur :: done) := by
      simpa using hcl
    have e1 := contract_ctx_eqOn (revPre.reverse ++ [s]) done cur _ hEq n0 v σ hc1 c hcl1
    simp only [List.append_assoc, List.singleton_append] at e1
    have e2 := congrFun (contract_move_matrix v revPre.reverse done s (sv cur).2 (sv cur).1 σ) c
    have e0 := congrFun (contract_ctx_smul revPre.reverse ((sv cur).2 :: done)
      (mulRight s (sv cur).1 (sv cur).2.dL) (nzS cur).2 v σ) c
    rw [e0, e1, ← e2]
    calc wt nl * (nzS cur).1 * ((nzS cur).2 *
          contract v (revPre.reverse ++ mulRight s (sv cur).1 (sv cur).2.dL :: (sv cur).2 :: done) σ c)
        = wt nl * ((nzS cur).1 * (nzS cur).2) *
          contract v (revPre.reverse ++ mulRight s (sv cur).1 (sv cur).2.dL :: (sv cur).2 :: done) σ c := by ring
      _ = _ := by rw [hnz]; ring

/-! ### both sweeps -/

/-- all tensors handed to `npc.qr` / `npc.svd` by `canonical_form_finite` -/
def canonCallsL (nz : RSite α → α × α) (qr : RSite α → RSite α × Mat α) : List (RSite α) → List (RSite α)
  | [] => []
  | s0 :: rest => sweepLCalls nz qr s0 rest

def canonCallsR (renorm : Bool) (nz : RSite α → α × α) (qr : RSite α → RSite α × Mat α)
    (nzS : RSite α → α × α) (sv : RSite α → Mat α × RSite α) : List (RSite α) → List (RSite α)
  | [] => []
  | s0 :: rest =>
      sweepRCalls nzS sv (sweepL renorm nz qr s0 rest (1, 1)).1.reverse (sweepL renorm nz qr s0 rest (1, 1)).2.1

/-- **`canonical_form_finite` preserves (divided-out weight) × state**, and returns right-isometric
tensors on every site but the first (where the unit number `U[0,0]` is multiplied back). -/
theorem canonFinite_state (renorm : Bool) (nz nzS : RSite α → α × α) (qr : RSite α → RSite α × Mat α)
    (sv : RSite α → Mat α × RSite α) {cj : α → α}
    (hnz : ∀ s, (nz s).1 * (nz s).2 = 1) (hnzS : ∀ s, (nzS s).1 * (nzS s).2 = 1)
    (ss : List (RSite α)) (hne : ss ≠ []) (n0 : Nat) (hc : ChainOK n0 ss)
    (hqr : ∀ s ∈ canonCallsL nz qr ss, QRSpec cj qr s)
    (hsv : ∀ s ∈ canonCallsR renorm nz qr nzS sv ss, SVSpec cj sv s) :
    (∀ (v : Vec α) (σ : List Nat) c, c < lastDim n0 ss →
        wt (canonFinite renorm nz qr nzS sv ss).2 * contract v (canonFinite renorm nz qr nzS sv ss).1 σ c
          = contract v ss σ c) ∧
    ChainOK n0 (canonFinite renorm nz qr nzS sv ss).1 ∧
    lastDim n0 (canonFinite renorm nz qr nzS sv ss).1 = lastDim n0 ss ∧
    (canonFinite renorm nz qr nzS sv ss).1.length = ss.length ∧
    (∀ t ∈ (canonFinite renorm nz qr nzS sv ss).1.tail, RightIso cj t) := by
  cases ss with
  | nil => exact absurd rfl hne
  | cons s0 rest =>
    obtain ⟨l1, l2, l3, l4⟩ := sweepL_shape renorm nz qr rest s0 (1, 1) n0 hc hqr
    have hrev : (sweepL renorm nz qr s0 rest (1, 1)).1.reverse.reverse ++
        (sweepL renorm nz qr s0 rest (1, 1)).2.1 :: []
        = (sweepL renorm nz qr s0 rest (1, 1)).1 ++ [(sweepL renorm nz qr s0 rest (1, 1)).2.1] := by
      rw [List.reverse_reverse]
    have hc2 : ChainOK n0 ((sweepL renorm nz qr s0 rest (1, 1)).1.reverse.reverse ++
        (sweepL renorm nz qr s0 rest (1, 1)).2.1 :: []) := by rw [hrev]; exact l1
    obtain ⟨r1, r2, r3, r4⟩ := sweepR_shape renorm nzS sv (sweepL renorm nz qr s0 rest (1, 1)).1.reverse
      true (sweepL renorm nz qr s0 rest (1, 1)).2.1 [] (sweepL renorm nz qr s0 rest (1, 1)).2.2 n0 hc2
      (fun t ht => by simp at ht) hsv
    refine ⟨?_, r1, ?_, ?_, r4⟩
    · intro v σ c hcl
      have hR := sweepR_state renorm nzS sv hnzS (sweepL renorm nz qr s0 rest (1, 1)).1.reverse
        true (sweepL renorm nz qr s0 rest (1, 1)).2.1 [] (sweepL renorm nz qr s0 rest (1, 1)).2.2 n0 v σ hc2 hsv c
        (by rw [hrev, l2]; exact hcl)
      have hL := sweepL_state renorm nz qr hnz rest s0 (1, 1) n0 v σ hc hqr c hcl
      show wt (sweepR renorm nzS sv true _ _ [] _).2 * contract v (sweepR renorm nzS sv true _ _ [] _).1 σ c = _
      rw [hR, hrev, hL]
      simp [wt]
    · show lastDim n0 (sweepR renorm nzS sv true _ _ [] _).1 = _
      rw [r2, hrev, l2]
    · show (sweepR renorm nzS sv true _ _ [] _).1.length = _
      rw [r3]; simp [l3]

end TenpyModel.MPS
