import TenpyModel.MPS.InversionProofs
import TenpyModel.MPS.CellProofs
/-!
Round 2 (C09): `spatial_inversion` of an INFINITE MPS (repaired bond order `_S[:1] + _S[:0:-1]`):
every `get_theta` window of the inverted MPS is the reversed window of the original one,
`θ'(i; aL, reverse σ, aR) = θ(L - i - n; aR, σ, aL)`.

Same strategy as for the finite chain (`InversionProofs`): a window is a chain with one diagonal
weight per bond on the left legs (`wLsite`); the weights are moved to the right legs, and the
reversed / transposed right-weighted window of `M` is the left-weighted window of the inverted MPS.
New here: the window version of `thetaSites_eq_wL` (integer site indices, any boundary condition)
and the index arithmetic modulo `L` of the mirrored sites, forms and bonds.
-/
namespace TenpyModel.MPS

universe u
variable {α : Type u} [CommSemiring α]
set_option linter.unusedSectionVars false

namespace MPSM

/-- stored tensor of site `j ∈ ℤ` as a raw site -/
def plainAt (M : MPSM α) (j : Int) : RSite α :=
  { dL := (M.siteAt j).dL, d := (M.siteAt j).d, dR := (M.siteAt j).dR, M := (M.siteAt j).B }

/-- net power of `S` (half units) that `get_theta(i, n)` puts on bond `k = 0 … n` of the window
(the outer bonds carry what is missing to `formL = formR = 1`) -/
def wexpo (M : MPSM α) (i : Int) (n k : Nat) : Int :=
  2 - (if k = 0 then 0 else (M.formAt (i + k - 1)).2) - (if k = n then 0 else (M.formAt (i + k)).1)

def wbond (M : MPSM α) (i : Int) (n k : Nat) : Bond α :=
  if k = n then M.getSR (i + n - 1) else M.getSL (i + k)

def wgW (M : MPSM α) (i : Int) (n k : Nat) : Vec α := Spow (M.wbond i n k) (M.wexpo i n k)

/-- `get_theta(i, n)` is the left-weighted chain of the stored tensors of the window -/
theorem thetaSites_eq_wL_window (M : MPSM α) (i : Int) (n : Nat) (m : Nat) :
    ∀ (k : Nat), k + m = n →
      M.thetaSites 2 (i + k) (2 - (if k = 0 then 0 else (M.formAt (i + k - 1)).2)) m
        = (List.range' k m).map (wLsite (fun k => M.plainAt (i + k)) (M.wgW i n) n) := by
  induction m using Nat.strongRecOn with
  | _ m ih =>
    intro k hk
    match m, hk with
    | 0, _ => rfl
    | 1, hk =>
      simp only [thetaSites, List.range'_succ, List.range'_zero, List.map_cons, List.map_nil]
      congr 1
      simp only [getBsite, wLsite, plainAt, hk, if_true]
      congr 1
      funext a p c
      rw [getB_both]
      have hne : ¬ k = n := by omega
      have hn0 : ¬ n = 0 := by omega
      have e : i + (n : Int) - 1 = i + (k : Int) := by rw [← hk]; push_cast; ring
      have e2 : i + ((k + 1 : Nat) : Int) - 1 = i + (k : Int) := by push_cast; ring
      simp only [wgW, wbond, wexpo, hne, if_false, hk, if_true, hn0, e, sub_zero]
    | m + 2, hk =>
      have hne : ¬ k + 1 = n := by omega
      have hneL : ¬ k = n := by omega
      simp only [thetaSites, List.range'_succ, List.map_cons]
      have e : i + (k : Int) + 1 = i + ((k + 1 : Nat) : Int) := by push_cast; ring
      have e2 : i + ((k + 1 : Nat) : Int) - 1 = i + (k : Int) := by push_cast; ring
      have ihk := ih (m + 1) (by omega) (k + 1) (by omega)
      simp only [show ¬ k + 1 = 0 from by omega, if_false, e2] at ihk
      rw [e, ihk]
      congr 1
      simp only [getBsite, wLsite, plainAt, hne, if_false]
      congr 1
      funext a p c
      rw [getB_left]
      simp only [wgW, wbond, wexpo, hneL, if_false, sub_zero]

end MPSM

/-! ### arithmetic modulo `L` -/

theorem emod_mirror (L : Int) (hL : 0 < L) (j : Int) : (L - 1 - j) % L = L - 1 - j % L := by
  have h0 := Int.emod_nonneg j (by omega : L ≠ 0)
  have h1 := Int.emod_lt_of_pos j hL
  have hj : L - 1 - j = (L - 1 - j % L) + L * (-(j / L)) := by
    have := Int.emod_add_mul_ediv j L
    rw [mul_neg]
    generalize L * (j / L) = t at this ⊢
    omega
  rw [hj, Int.add_mul_emod_self_left, Int.emod_eq_of_lt (by omega) (by omega)]

theorem emod_neg_shift (L : Int) (hL : 0 < L) (j : Int) : (L - j) % L = (L - j % L) % L := by
  have hj : L - j = (L - j % L) + L * (-(j / L)) := by
    have := Int.emod_add_mul_ediv j L
    rw [mul_neg]
    generalize L * (j / L) = t at this ⊢
    omega
  rw [hj, Int.add_mul_emod_self_left]

namespace MPSM

theorem inv_siteIdx (M : MPSM α) (j : Int) : M.spatialInversion.siteIdx j = M.siteIdx j := rfl

/-- mirrored site index (Nat level) -/
theorem mirror_idx (M : MPSM α) (hbc : M.bc = BC.infinite) (hL : 0 < M.L) (j : Int) :
    M.L - 1 - M.siteIdx j = M.siteIdx ((M.L : Int) - 1 - j) := by
  rw [siteIdx_inf M hbc hL, siteIdx_inf M hbc hL]
  have hLp : (0 : Int) < (M.L : Int) := by omega
  have h0 := Int.emod_nonneg j (by omega : (M.L : Int) ≠ 0)
  have h1 := Int.emod_lt_of_pos j hLp
  rw [emod_mirror _ hLp j]
  omega

/-- mirrored bond index (Nat level) -/
theorem mirror_bond (M : MPSM α) (hbc : M.bc = BC.infinite) (hL : 0 < M.L) (j : Int) :
    (M.L - M.siteIdx j) % M.L = M.siteIdx ((M.L : Int) - j) := by
  rw [siteIdx_inf M hbc hL, siteIdx_inf M hbc hL]
  have hLp : (0 : Int) < (M.L : Int) := by omega
  have h0 := Int.emod_nonneg j (by omega : (M.L : Int) ≠ 0)
  have h1 := Int.emod_lt_of_pos j hLp
  rw [emod_neg_shift _ hLp j]
  have hle : (j % (M.L : Int)).toNat ≤ M.L := by omega
  have hc : (((M.L - (j % (M.L : Int)).toNat) % M.L : Nat) : Int)
      = ((M.L : Int) - j % (M.L : Int)) % (M.L : Int) := by
    rw [Int.natCast_mod, Nat.cast_sub hle, Int.toNat_of_nonneg h0]
  have hnn : 0 ≤ ((M.L : Int) - j % (M.L : Int)) % (M.L : Int) := Int.emod_nonneg _ (by omega)
  omega

theorem inv_siteAt (M : MPSM α) (hbc : M.bc = BC.infinite) (hL : 0 < M.L) (j : Int) :
    M.spatialInversion.siteAt j = flipSite (M.siteAt ((M.L : Int) - 1 - j)) := by
  show flipSite (M.site (M.L - 1 - M.siteIdx j)) = flipSite (M.site (M.siteIdx ((M.L : Int) - 1 - j)))
  rw [mirror_idx M hbc hL j]

theorem inv_getSL (M : MPSM α) (hbc : M.bc = BC.infinite) (hL : 0 < M.L) (j : Int) :
    M.spatialInversion.getSL j = M.getSR ((M.L : Int) - 1 - j) := by
  have hfb : M.finiteBC = false := by simp [finiteBC, hbc]
  simp only [getSL, getSR, bondIdxL_eq]
  show (if M.finiteBC then _ else M.bond ((M.L - M.siteIdx j) % M.L)) = _
  rw [hfb]
  simp only [Bool.false_eq_true, if_false, bondIdx, hfb]
  rw [mirror_bond M hbc hL j]
  congr 2; ring

theorem inv_getSR (M : MPSM α) (hbc : M.bc = BC.infinite) (hL : 0 < M.L) (j : Int) :
    M.spatialInversion.getSR j = M.getSL ((M.L : Int) - 1 - j) := by
  have hfb : M.finiteBC = false := by simp [finiteBC, hbc]
  have hfb' : M.spatialInversion.finiteBC = false := hfb
  simp only [getSL, getSR, bondIdxL_eq]
  simp only [bondIdx, hfb', Bool.false_eq_true, if_false]
  show (if M.finiteBC then _ else M.bond ((M.L - M.siteIdx (j + 1)) % M.L)) = _
  rw [hfb]
  simp only [Bool.false_eq_true, if_false]
  rw [mirror_bond M hbc hL (j + 1)]
  congr 2; ring

theorem inv_formAt (M : MPSM α) (hbc : M.bc = BC.infinite) (hL : 0 < M.L) (j : Int) :
    M.spatialInversion.formAt j
      = ((M.formAt ((M.L : Int) - 1 - j)).2, (M.formAt ((M.L : Int) - 1 - j)).1) := by
  simp only [formAt, inv_siteAt M hbc hL j, flipSite]
  cases (M.siteAt ((M.L : Int) - 1 - j)).form <;> rfl

theorem getSR_eq_getSL_inf (M : MPSM α) (hbc : M.bc = BC.infinite) (j : Int) : M.getSR j = M.getSL (j + 1) := by
  have hfb : M.finiteBC = false := by simp [finiteBC, hbc]
  simp [getSR, getSL, bondIdx, hfb]

end MPSM
end TenpyModel.MPS

namespace TenpyModel.MPS

universe u
variable {α : Type u} [CommSemiring α]
set_option linter.unusedSectionVars false

namespace MPSM

theorem plainAt_inv (M : MPSM α) (hbc : M.bc = BC.infinite) (hL : 0 < M.L) (j : Int) :
    M.spatialInversion.plainAt j = transposeSite (M.plainAt ((M.L : Int) - 1 - j)) := by
  simp only [plainAt, inv_siteAt M hbc hL j, flipSite, transposeSite]

theorem wexpo_inv (M : MPSM α) (hbc : M.bc = BC.infinite) (hL : 0 < M.L) (i : Int) (n k : Nat)
    (hn : 0 < n) (hk : k ≤ n) :
    M.spatialInversion.wexpo i n k = M.wexpo ((M.L : Int) - i - n) n (n - k) := by
  have hc : ((n - k : Nat) : Int) = (n : Int) - (k : Int) := Nat.cast_sub hk
  simp only [wexpo, inv_formAt M hbc hL, hc]
  by_cases h0 : k = 0
  · subst h0
    have e1 : ¬ (0 = n) := by omega
    have e2 : ¬ (n - 0 = 0) := by omega
    have e3 : ¬ (n = 0) := by omega
    simp only [if_true, e1, if_false, e2, e3, Nat.sub_zero]
    have a1 : (M.L : Int) - 1 - (i + ((0 : Nat) : Int)) = (M.L : Int) - i - n + ((n : Int) - ((0 : Nat) : Int)) - 1 := by
      push_cast; ring
    rw [a1]; ring
  · by_cases hkn : k = n
    · subst hkn
      have e2 : ¬ (k - k = k) := by omega
      have e3 : ¬ (0 = k) := by omega
      simp only [h0, if_false, if_true, Nat.sub_self, e2, e3]
      have a1 : (M.L : Int) - 1 - (i + (k : Int) - 1) = (M.L : Int) - i - k + ((k : Int) - (k : Int)) := by ring
      rw [a1]; ring
    · have e1 : ¬ (n - k = 0) := by omega
      have e2 : ¬ (n - k = n) := by omega
      simp only [h0, hkn, e1, e2, if_false]
      have a1 : (M.L : Int) - 1 - (i + (k : Int) - 1) = (M.L : Int) - i - n + ((n : Int) - (k : Int)) := by ring
      have a2 : (M.L : Int) - 1 - (i + (k : Int)) = (M.L : Int) - i - n + ((n : Int) - (k : Int)) - 1 := by ring
      rw [a1, a2]; ring

theorem wbond_inv (M : MPSM α) (hbc : M.bc = BC.infinite) (hL : 0 < M.L) (i : Int) (n k : Nat)
    (hn : 0 < n) (hk : k ≤ n) :
    M.spatialInversion.wbond i n k = M.wbond ((M.L : Int) - i - n) n (n - k) := by
  have hc : ((n - k : Nat) : Int) = (n : Int) - (k : Int) := Nat.cast_sub hk
  simp only [wbond, inv_getSL M hbc hL, inv_getSR M hbc hL, hc]
  by_cases h0 : k = 0
  · subst h0
    have e1 : ¬ (0 = n) := by omega
    simp only [e1, if_false, Nat.sub_zero, if_true]
    congr 1; push_cast; ring
  · by_cases hkn : k = n
    · subst hkn
      have e2 : ¬ (k - k = k) := by omega
      simp only [if_true, e2, if_false]
      congr 1; ring
    · have e2 : ¬ (n - k = n) := by omega
      simp only [hkn, e2, if_false]
      rw [getSR_eq_getSL_inf M hbc]
      congr 1; ring

theorem wgW_inv (M : MPSM α) (hbc : M.bc = BC.infinite) (hL : 0 < M.L) (i : Int) (n k : Nat)
    (hn : 0 < n) (hk : k ≤ n) :
    M.spatialInversion.wgW i n k = M.wgW ((M.L : Int) - i - n) n (n - k) := by
  simp only [wgW, wexpo_inv M hbc hL i n k hn hk, wbond_inv M hbc hL i n k hn hk]

theorem chainOK_window (Z : Nat → RSite α) (h : ∀ k, (Z k).dR = (Z (k + 1)).dL) (m : Nat) :
    ∀ k, ChainOK (Z k).dL ((List.range' k m).map Z) := by
  induction m with
  | zero => intro k; trivial
  | succ m ih =>
    intro k
    rw [List.range'_succ, List.map_cons]
    exact ⟨rfl, by rw [h k]; exact ih (k + 1)⟩

theorem lastDim_window (Z : Nat → RSite α) (m : Nat) :
    ∀ k n0, lastDim n0 ((List.range' k (m + 1)).map Z) = (Z (k + m)).dR := by
  induction m with
  | zero => intro k n0; simp [List.range'_succ, lastDim]
  | succ m ih =>
    intro k n0
    rw [List.range'_succ, List.map_cons]
    simp only [lastDim]
    rw [ih (k + 1)]
    congr 2; omega

/-- **`spatial_inversion` of an infinite MPS reverses every window**:
`get_theta(i, n)` of the inverted MPS at open indices `(aL, aR)` and configuration `reverse σ` is
`get_theta(L - i - n, n)` of the original at `(aR, aL)` and `σ` — any stored forms, any
(consistent) bond dimensions, any window position `i ∈ ℤ`. -/
theorem theta_spatialInversion_inf (M : MPSM α) (hbc : M.bc = BC.infinite) (hL : 0 < M.L)
    (hdim : ∀ j : Int, (M.siteAt j).dR = (M.siteAt (j + 1)).dL) (i : Int) (σ : List Nat) (hne : σ ≠ [])
    (aL aR : Nat)
    (haR : aR < (M.siteAt ((M.L : Int) - i - σ.length)).dL)
    (haL : aL < (M.siteAt ((M.L : Int) - i - 1)).dR) :
    M.spatialInversion.theta i aL σ.reverse aR = M.theta ((M.L : Int) - i - σ.length) aR σ aL := by
  obtain ⟨m, hm⟩ : ∃ m, σ.length = m + 1 := ⟨σ.length - 1, by
    have : 0 < σ.length := List.length_pos_iff.2 hne
    omega⟩
  have hbc' : M.spatialInversion.bc = BC.infinite := hbc
  have hL' : 0 < M.spatialInversion.L := hL
  simp only [theta, List.length_reverse]
  set n := σ.length with hn
  set i' : Int := (M.L : Int) - i - n with hi'
  -- both windows as left-weighted chains
  have t1 := thetaSites_eq_wL_window M i' n n 0 (by omega)
  have t2 := thetaSites_eq_wL_window M.spatialInversion i n n 0 (by omega)
  simp only [if_true, sub_zero, Nat.cast_zero, add_zero] at t1 t2
  rw [t1, t2]
  -- the inverted window has the mirrored data
  have e : (List.range' 0 n).map (wLsite (fun k => M.spatialInversion.plainAt (i + k)) (M.spatialInversion.wgW i n) n)
      = (List.range' 0 n).map
          (wLsite (fun k => transposeSite (M.plainAt (i' + ((n - 1 - k : Nat) : Int)))) (fun k => M.wgW i' n (n - k)) n) := by
    apply List.map_congr_left
    intro k hk
    have hk' : k < n := by
      rw [List.mem_range'] at hk; obtain ⟨x, hx, rfl⟩ := hk; omega
    have hZ : M.spatialInversion.plainAt (i + (k : Int))
        = transposeSite (M.plainAt (i' + ((n - 1 - k : Nat) : Int))) := by
      rw [plainAt_inv M hbc hL]
      congr 2
      have : ((n - 1 - k : Nat) : Int) = (n : Int) - 1 - (k : Int) := by omega
      rw [this, hi']; ring
    simp only [wLsite, hZ, wgW_inv M hbc hL i n k (by omega) (by omega),
      wgW_inv M hbc hL i n (k + 1) (by omega) (by omega)]
    rfl
  rw [e, ← reverseChain_wR0 (fun k => M.plainAt (i' + (k : Int))) (M.wgW i' n) n]
  -- reversal of tensors = reversal of the configuration
  have hZdim : ∀ k : Nat, (wR0site (fun k => M.plainAt (i' + (k : Int))) (M.wgW i' n) k).dR
      = (wR0site (fun k => M.plainAt (i' + (k : Int))) (M.wgW i' n) (k + 1)).dL := by
    intro k
    simp only [wR0site, plainAt]
    rw [hdim]; congr 2; push_cast; ring
  have hcY := chainOK_window (wR0site (fun k => M.plainAt (i' + (k : Int))) (M.wgW i' n)) hZdim n 0
  have hlY := lastDim_window (wR0site (fun k => M.plainAt (i' + (k : Int))) (M.wgW i' n)) m 0
    (wR0site (fun k => M.plainAt (i' + (k : Int))) (M.wgW i' n) 0).dL
  rw [← hm] at hlY
  have rev := contract_reverseChain
    ((List.range' 0 n).map (wR0site (fun k => M.plainAt (i' + (k : Int))) (M.wgW i' n)))
    (wR0site (fun k => M.plainAt (i' + (k : Int))) (M.wgW i' n) 0).dL
    (fun a => delta a aR) (fun a => (delta a aL : α)) σ hcY (by simp [hn])
  have hcl : ∀ (N c : Nat) (u : Vec α), c < N → close N u (fun a => delta a c) = u c := by
    intro N c u hc; simp only [close]; rw [sumN_delta_right]; simp [hc]
  have hd0 : (wR0site (fun k => M.plainAt (i' + (k : Int))) (M.wgW i' n) 0).dL = (M.siteAt i').dL := by
    simp [wR0site, plainAt]
  have hdm : (wR0site (fun k => M.plainAt (i' + (k : Int))) (M.wgW i' n) (0 + m)).dR
      = (M.siteAt ((M.L : Int) - i - 1)).dR := by
    simp only [wR0site, plainAt]
    congr 2
    rw [hi', hm]; push_cast; ring
  rw [hlY, hcl _ aR _ (by rw [hd0]; exact haR), hcl _ aL _ (by rw [hdm]; exact haL)] at rev
  rw [rev]
  have h3 := contract_wR0 (fun k => M.plainAt (i' + (k : Int))) (M.wgW i' n) m (fun a => (delta a aR : α)) σ
  have h4 := contract_wL_eq_wR (fun k => M.plainAt (i' + (k : Int))) (M.wgW i' n) n m 0
    (fun a => (delta a aR : α)) σ (by omega)
  have hr : List.range' 0 n = List.range' 0 (m + 1) := by rw [hm]
  rw [hr, h3, h4]

end MPSM
end TenpyModel.MPS
