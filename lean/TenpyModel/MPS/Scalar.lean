/-
Scalars and finite sums for the MPS model (import-free).

All tensor definitions of `TenpyModel/MPS/*.lean` are written once over a scalar type `α` carrying
`Zero/One/Add/Mul` (and an explicit conjugation `cj : α → α` where a bra is involved).  The same
definitions are *proved about* for every commutative (semi)ring and *executed* at
`Cx Rat` (Gaussian rationals, exact) and `Cx Float` (tolerance comparisons).
-/
namespace TenpyModel.MPS

universe u
variable {α : Type u}

/-- `Σ_{i<n} f i`, the only summation primitive of the model. -/
def sumN [Zero α] [Add α] : Nat → (Nat → α) → α
  | 0, _ => 0
  | n + 1, f => sumN n f + f n

/-- `x^n` from `One/Mul` only. -/
def powN [One α] [Mul α] (x : α) : Nat → α
  | 0 => 1
  | n + 1 => powN x n * x

/-- `Π_{i<n} f i`. -/
def prodN [One α] [Mul α] : Nat → (Nat → α) → α
  | 0, _ => 1
  | n + 1, f => prodN n f * f n

/-- sum over all configurations `σ` with `σ_i < d_i` (the computational basis of the chain). -/
def sumCfg [Zero α] [Add α] : List Nat → (List Nat → α) → α
  | [], f => f []
  | d :: ds, f => sumN d (fun p => sumCfg ds (fun ps => f (p :: ps)))

/-- Kronecker delta. -/
def delta [Zero α] [One α] (i j : Nat) : α := if i = j then 1 else 0

abbrev Vec (α : Type u) := Nat → α
abbrev Mat (α : Type u) := Nat → Nat → α
/-- rank-3 site tensor, index order `(vL, p, vR)` (= `MPS._B_labels`). -/
abbrev T3 (α : Type u) := Nat → Nat → Nat → α

/-- Complex numbers over a base type `F` (`F = Rat`: Gaussian rationals, `F = Float`). -/
structure Cx (F : Type u) where
  re : F
  im : F
deriving Repr, BEq

namespace Cx
variable {F : Type u}
instance [Zero F] : Zero (Cx F) := ⟨⟨0, 0⟩⟩
instance [Zero F] [One F] : One (Cx F) := ⟨⟨1, 0⟩⟩
instance [Add F] : Add (Cx F) := ⟨fun a b => ⟨a.re + b.re, a.im + b.im⟩⟩
instance [Neg F] : Neg (Cx F) := ⟨fun a => ⟨-a.re, -a.im⟩⟩
instance [Sub F] : Sub (Cx F) := ⟨fun a b => ⟨a.re - b.re, a.im - b.im⟩⟩
instance [Add F] [Sub F] [Mul F] : Mul (Cx F) :=
  ⟨fun a b => ⟨a.re * b.re - a.im * b.im, a.re * b.im + a.im * b.re⟩⟩
/-- complex conjugation -/
def conj [Neg F] (a : Cx F) : Cx F := ⟨a.re, -a.im⟩
def ofReal [Zero F] (x : F) : Cx F := ⟨x, 0⟩
/-- `|a|²` -/
def normSq [Add F] [Mul F] (a : Cx F) : F := a.re * a.re + a.im * a.im
end Cx

end TenpyModel.MPS
