import TenpyModel.MPS.GaugeProofs
/-!
Round 2 (C07): powers of the reduced density matrix from the Schmidt certificate.
`ρ_L = V diag(s s̄) V†` with `V†V = 1` gives `ρ_L^n = V diag((s s̄)^n) V†` and
`tr ρ_L^n = Σ_a (s_a s̄_a)^n` — the polynomial quantities all Rényi entropies are functions of.
-/
namespace TenpyModel.MPS

universe u
variable {α : Type u}

section defs
variable [Zero α] [One α] [Add α] [Mul α]

/-- product of two `n × n` matrices -/
def matMulN (n : Nat) (A B : Mat α) : Mat α := fun i j => sumN n (fun k => A i k * B k j)

/-- `matPowS n A m = A^(m+1)` -/
def matPowS (n : Nat) (A : Mat α) : Nat → Mat α
  | 0 => A
  | m + 1 => matMulN n (matPowS n A m) A

/-- trace of an `n × n` matrix -/
def trN (n : Nat) (A : Mat α) : α := sumN n (fun l => A l l)

end defs

variable [CommSemiring α]

section schmidt
variable (cj : α → α) (nL nR χ : Nat) (V : Mat α) (s : Vec α) (W : Mat α)

/-- `ρ_L^(m+1) = V diag((s s̄)^(m+1)) V†` -/
theorem rhoL_pow (hcj : ConjLike cj)
    (hV : ∀ a a', a < χ → a' < χ → sumN nL (fun l => cj (V l a) * V l a') = delta a a')
    (hW : ∀ a a', a < χ → a' < χ → sumN nR (fun r => W a r * cj (W a' r)) = delta a a') (m : Nat) :
    ∀ l l', matPowS nL (rhoL cj nR (schmidtPsi χ V s W)) m l l'
      = sumN χ (fun a => V l a * powN (s a * cj (s a)) (m + 1) * cj (V l' a)) := by
  induction m with
  | zero =>
    intro l l'
    simp only [matPowS]
    rw [rhoL_schmidt cj nR χ V s W hcj hW]
    exact sumN_congr (fun a _ => by simp [powN])
  | succ m ih =>
    intro l l'
    simp only [matPowS, matMulN]
    calc sumN nL (fun k => matPowS nL (rhoL cj nR (schmidtPsi χ V s W)) m l k *
            rhoL cj nR (schmidtPsi χ V s W) k l')
        = sumN nL (fun k => sumN χ (fun a => sumN χ (fun b =>
            V l a * powN (s a * cj (s a)) (m + 1) * ((s b * cj (s b)) * cj (V l' b)) *
              (cj (V k a) * V k b)))) :=
          sumN_congr (fun k _ => by
            rw [ih l k, rhoL_schmidt cj nR χ V s W hcj hW, sumN_mul]
            refine sumN_congr (fun a _ => ?_)
            rw [mul_sumN]
            exact sumN_congr (fun b _ => by ring))
      _ = sumN χ (fun a => sumN χ (fun b => sumN nL (fun k =>
            V l a * powN (s a * cj (s a)) (m + 1) * ((s b * cj (s b)) * cj (V l' b)) *
              (cj (V k a) * V k b)))) := by
          rw [sumN_comm]; exact sumN_congr (fun a _ => sumN_comm _ _ _)
      _ = sumN χ (fun a => sumN χ (fun b =>
            V l a * powN (s a * cj (s a)) (m + 1) * ((s b * cj (s b)) * cj (V l' b)) * delta a b)) :=
          sumN_congr (fun a ha => sumN_congr (fun b hb => by rw [← mul_sumN, hV a b ha hb]))
      _ = _ := sumN_congr (fun a ha => by
          rw [show (fun b => V l a * powN (s a * cj (s a)) (m + 1) * ((s b * cj (s b)) * cj (V l' b)) * delta a b)
                = (fun b => delta a b * (V l a * powN (s a * cj (s a)) (m + 1) * ((s b * cj (s b)) * cj (V l' b))))
              from funext (fun b => by ring), sumN_delta_left']
          simp only [ha, if_true, powN]
          ring)

/-- **`tr ρ_L^(m+1) = Σ_a (s_a s̄_a)^(m+1)`** -/
theorem trace_rhoL_pow (hcj : ConjLike cj)
    (hV : ∀ a a', a < χ → a' < χ → sumN nL (fun l => cj (V l a) * V l a') = delta a a')
    (hW : ∀ a a', a < χ → a' < χ → sumN nR (fun r => W a r * cj (W a' r)) = delta a a') (m : Nat) :
    trN nL (matPowS nL (rhoL cj nR (schmidtPsi χ V s W)) m)
      = sumN χ (fun a => powN (s a * cj (s a)) (m + 1)) := by
  simp only [trN]
  calc sumN nL (fun l => matPowS nL (rhoL cj nR (schmidtPsi χ V s W)) m l l)
      = sumN nL (fun l => sumN χ (fun a => powN (s a * cj (s a)) (m + 1) * (cj (V l a) * V l a))) :=
        sumN_congr (fun l _ => by
          rw [rhoL_pow cj nL nR χ V s W hcj hV hW m l l]
          exact sumN_congr (fun a _ => by ring))
    _ = sumN χ (fun a => sumN nL (fun l => powN (s a * cj (s a)) (m + 1) * (cj (V l a) * V l a))) :=
        sumN_comm _ _ _
    _ = _ := sumN_congr (fun a ha => by rw [← mul_sumN, hV a a ha ha]; simp [delta])

end schmidt
end TenpyModel.MPS
