import TenpyModel.MPS.Chain
import Mathlib.Tactic.Ring
/-!
Finite-sum toolkit for the MPS model (`sumN`), proved once for every commutative semiring.
-/
namespace TenpyModel.MPS

universe u
variable {α : Type u}

section semiring
variable [CommSemiring α]

theorem sumN_congr {n : Nat} {f g : Nat → α} (h : ∀ i, i < n → f i = g i) : sumN n f = sumN n g := by
  induction n with
  | zero => rfl
  | succ n ih =>
    simp only [sumN]
    rw [ih (fun i hi => h i (Nat.lt_succ_of_lt hi)), h n (Nat.lt_succ_self n)]

theorem sumN_zero (n : Nat) : sumN n (fun _ => (0 : α)) = 0 := by
  induction n with
  | zero => rfl
  | succ n ih => simp [sumN, ih]

theorem sumN_eq_zero {n : Nat} {f : Nat → α} (h : ∀ i, i < n → f i = 0) : sumN n f = 0 := by
  rw [sumN_congr h, sumN_zero]

theorem sumN_add (n : Nat) (f g : Nat → α) :
    sumN n (fun i => f i + g i) = sumN n f + sumN n g := by
  induction n with
  | zero => simp [sumN]
  | succ n ih => simp only [sumN, ih]; ring

theorem mul_sumN (n : Nat) (c : α) (f : Nat → α) : c * sumN n f = sumN n (fun i => c * f i) := by
  induction n with
  | zero => simp [sumN]
  | succ n ih => simp only [sumN, ← ih]; ring

theorem sumN_mul (n : Nat) (c : α) (f : Nat → α) : sumN n f * c = sumN n (fun i => f i * c) := by
  induction n with
  | zero => simp [sumN]
  | succ n ih => simp only [sumN, ← ih]; ring

theorem sumN_comm (m n : Nat) (f : Nat → Nat → α) :
    sumN m (fun i => sumN n (fun j => f i j)) = sumN n (fun j => sumN m (fun i => f i j)) := by
  induction m with
  | zero => simp [sumN, sumN_zero]
  | succ m ih => simp only [sumN, ih, sumN_add]

theorem sumN_one (f : Nat → α) : sumN 1 f = f 0 := by simp [sumN]

/-- `Σ_{i<m+n} f i = Σ_{i<m} f i + Σ_{j<n} f (m+j)` -/
theorem sumN_split (m n : Nat) (f : Nat → α) :
    sumN (m + n) f = sumN m f + sumN n (fun j => f (m + j)) := by
  induction n with
  | zero => simp [sumN]
  | succ n ih => rw [← Nat.add_assoc]; simp only [sumN, ih]; ring

theorem sumN_delta_left (n k : Nat) (f : Nat → α) :
    sumN n (fun i => delta i k * f i) = if k < n then f k else 0 := by
  induction n with
  | zero => simp [sumN]
  | succ n ih =>
    simp only [sumN]
    rw [ih]
    simp only [delta]
    by_cases h1 : k < n
    · have : n ≠ k := by omega
      simp [h1, this, Nat.lt_succ_of_lt h1]
    · by_cases h2 : n = k
      · subst h2; simp
      · have : ¬ k < n + 1 := by omega
        simp [h1, h2, this]

theorem sumN_delta_right (n k : Nat) (f : Nat → α) :
    sumN n (fun i => f i * delta i k) = if k < n then f k else 0 := by
  rw [← sumN_delta_left n k f]; exact sumN_congr (fun i _ => by ring)

theorem sumN_delta_left' (n k : Nat) (f : Nat → α) :
    sumN n (fun i => delta k i * f i) = if k < n then f k else 0 := by
  rw [← sumN_delta_left n k f]
  exact sumN_congr (fun i _ => by unfold delta; by_cases h : k = i <;> simp [h, eq_comm])

theorem sumCfg_congr {ds : List Nat} {f g : List Nat → α} (h : ∀ σ, f σ = g σ) :
    sumCfg ds f = sumCfg ds g := by
  have : f = g := funext h
  rw [this]

theorem sumCfg_add (ds : List Nat) (f g : List Nat → α) :
    sumCfg ds (fun σ => f σ + g σ) = sumCfg ds f + sumCfg ds g := by
  induction ds generalizing f g with
  | nil => rfl
  | cons d ds ih => simp only [sumCfg, ih, sumN_add]

theorem mul_sumCfg (ds : List Nat) (c : α) (f : List Nat → α) :
    c * sumCfg ds f = sumCfg ds (fun σ => c * f σ) := by
  induction ds generalizing f with
  | nil => rfl
  | cons d ds ih => simp only [sumCfg, mul_sumN, ih]

theorem sumN_sumCfg_comm (n : Nat) (ds : List Nat) (f : Nat → List Nat → α) :
    sumN n (fun i => sumCfg ds (f i)) = sumCfg ds (fun σ => sumN n (fun i => f i σ)) := by
  induction ds generalizing f with
  | nil => rfl
  | cons d ds ih =>
    simp only [sumCfg]
    rw [sumN_comm]
    exact sumN_congr (fun p _ => ih (fun i ps => f i (p :: ps)))

/-- conjugation-like maps: additive, multiplicative, `0 ↦ 0` (complex conjugation, identity). -/
structure ConjLike (cj : α → α) : Prop where
  zero : cj 0 = 0
  add : ∀ x y, cj (x + y) = cj x + cj y
  mul : ∀ x y, cj (x * y) = cj x * cj y

theorem ConjLike.id : ConjLike (fun x : α => x) := ⟨rfl, fun _ _ => rfl, fun _ _ => rfl⟩

theorem ConjLike.sumN {cj : α → α} (h : ConjLike cj) (n : Nat) (f : Nat → α) :
    cj (sumN n f) = sumN n (fun i => cj (f i)) := by
  induction n with
  | zero => exact h.zero
  | succ n ih => simp only [MPS.sumN, h.add, ih]

theorem powN_one (n : Nat) : powN (1 : α) n = 1 := by
  induction n with
  | zero => rfl
  | succ n ih => simp [powN, ih]

theorem powN_eq_pow (x : α) (n : Nat) : powN x n = x ^ n := by
  induction n with
  | zero => simp [powN]
  | succ n ih => simp [powN, ih, pow_succ]

end semiring
end TenpyModel.MPS
