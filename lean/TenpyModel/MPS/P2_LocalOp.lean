import TenpyModel.MPS.P2_Sweep
import TenpyModel.MPS.P2_Corr
/-!
Round 2 (C09): `apply_local_op` with a non-unitary one-site operator = operator insertion followed by
`canonical_form_finite(renormalize)`; shape lemmas for `applyAt`.
-/
namespace TenpyModel.MPS

universe u
variable {α : Type u} [CommSemiring α]
set_option linter.unusedSectionVars false

theorem chainOK_applyAt (O : Mat α) (ss : List (RSite α)) :
    ∀ (k n0 : Nat), ChainOK n0 (applyAt k O ss) ↔ ChainOK n0 ss := by
  induction ss with
  | nil => intro k n0; cases k <;> rfl
  | cons s ss ih =>
    intro k n0
    cases k with
    | zero => simp [applyAt, ChainOK, opSite]
    | succ k => simp only [applyAt, ChainOK, ih k]

theorem lastDim_applyAt (O : Mat α) (ss : List (RSite α)) :
    ∀ (k n0 : Nat), lastDim n0 (applyAt k O ss) = lastDim n0 ss := by
  induction ss with
  | nil => intro k n0; cases k <;> rfl
  | cons s ss ih =>
    intro k n0
    cases k with
    | zero => simp [applyAt, lastDim, opSite]
    | succ k => simp only [applyAt, lastDim, ih k]

/-- **`apply_local_op(i, op, unitary=False, renormalize)`** on the tensors: insert the operator,
then `canonical_form_finite(renormalize)`.  (Weight divided out) × (new state) = dense `O_k |ψ⟩`. -/
theorem applyLocalOp_canon (renorm : Bool) (nz nzS : RSite α → α × α) (qr : RSite α → RSite α × Mat α)
    (sv : RSite α → Mat α × RSite α) {cj : α → α}
    (hnz : ∀ s, (nz s).1 * (nz s).2 = 1) (hnzS : ∀ s, (nzS s).1 * (nzS s).2 = 1)
    (ss : List (RSite α)) (k : Nat) (O : Mat α) (hk : k < ss.length) (n0 : Nat) (hc : ChainOK n0 ss)
    (hqr : ∀ s ∈ canonCallsL nz qr (applyAt k O ss), QRSpec cj qr s)
    (hsv : ∀ s ∈ canonCallsR renorm nz qr nzS sv (applyAt k O ss), SVSpec cj sv s)
    (v : Vec α) (σ : List Nat) (hσ : σ.length = ss.length) (c : Nat) (hcl : c < lastDim n0 ss) :
    wt (canonFinite renorm nz qr nzS sv (applyAt k O ss)).2 *
        contract v (canonFinite renorm nz qr nzS sv (applyAt k O ss)).1 σ c
      = sumN ((dims ss).getD k 0) (fun q => O (σ.getD k 0) q * contract v ss (σ.set k q) c) := by
  have hne : applyAt k O ss ≠ [] := by
    intro h
    have := congrArg List.length h
    rw [length_applyAt, List.length_nil] at this
    omega
  have h := (canonFinite_state renorm nz nzS qr sv hnz hnzS (applyAt k O ss) hne n0
    ((chainOK_applyAt O ss k n0).2 hc) hqr hsv).1 v σ c (by rw [lastDim_applyAt]; exact hcl)
  rw [h]
  exact congrFun (contract_applyAt O ss k σ v hk hσ.symm) c

end TenpyModel.MPS
