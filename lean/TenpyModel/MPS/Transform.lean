import TenpyModel.MPS.Basic
/-
Model of the state transformations of `tenpy/networks/mps.py` on the bookkeeping layer
(`MPSM`): `spatial_inversion`, `roll_mps_unit_cell`, `enlarge_mps_unit_cell`, `apply_local_op`
(one-site), `apply_product_op`, `group_sites`, `add` (tensors before `canonical_form_finite`),
`swap_sites` (sign convention).
-/
namespace TenpyModel.MPS

universe u
variable {α : Type u}

section ring
variable [Zero α] [One α] [Add α] [Mul α]

namespace MPSM

/-- `B.replace_labels(['vL','vR'],['vR','vL']).transpose(['vL','p','vR'])`, form `(f₁,f₀)`. -/
def flipSite (s : Site α) : Site α :=
  { dL := s.dR, d := s.d, dR := s.dL, B := fun a p c => s.B c p a,
    form := s.form.map (fun f => (f.2, f.1)) }

/-- `spatial_inversion`: site `j ↦ L-1-j`, tensors transposed, forms flipped, singular values
mirrored.  Bond `j` of the mirrored chain is the old bond `L - j`; for an infinite MPS (where
`_S` has `L` entries and bond `L` is bond `0`) that is `_S[(L - j) % L]`.
(The code as shipped used `_S[::-1]`, i.e. `_S[L-1-j]`, also for infinite MPS — see
`spatialInversionAsShipped` and known_findings/C09.json.) -/
def spatialInversion (M : MPSM α) : MPSM α :=
  { M with
    site := fun j => flipSite (M.site (M.L - 1 - j))
    bond := fun j => if M.finiteBC then M.bond (M.L - j) else M.bond ((M.L - j) % M.L) }

/-- `self._S = self._S[::-1]` for every boundary condition (wrong for `bc='infinite'`). -/
def spatialInversionAsShipped (M : MPSM α) : MPSM α :=
  { M with
    site := fun j => flipSite (M.site (M.L - 1 - j))
    bond := fun j => if M.finiteBC then M.bond (M.L - j) else M.bond (M.L - 1 - j) }

/-- `roll_mps_unit_cell(shift)`: `inds = arange(L) - shift`; sites, forms, `_B`, `_S` re-indexed
by `inds` (`_B[j] = get_B(inds[j], form=None)`, `_S[j] = get_SL(inds[j])`). -/
def roll (M : MPSM α) (shift : Int) : MPSM α :=
  { M with
    site := fun j => M.siteAt ((j : Int) - shift)
    bond := fun j => M.getSL ((j : Int) - shift) }

/-- `roll_mps_unit_cell` as shipped: `self.form` is permuted first and then `get_B(i)` (default
`form='B'`) converts relative to the *already permuted* form list. -/
def rollAsShipped (M : MPSM α) (shift : Int) : MPSM α :=
  let M1 : MPSM α := { M with site := fun j =>
      { M.site j with form := (M.siteAt ((j : Int) - shift)).form } }
  { M with
    site := fun j =>
      { M.siteAt ((j : Int) - shift) with B := M1.getB ((j : Int) - shift) (some (some formB.1, some formB.2)) }
    bond := fun j => M.getSL ((j : Int) - shift) }

/-- `enlarge_mps_unit_cell(factor)` (infinite bc): `_B[j] = get_B(j, form=None)`,
`_S[j] = get_SL(j)` for `j < factor * L`. -/
def enlarge (M : MPSM α) (factor : Nat) : MPSM α :=
  { M with
    L := factor * M.L
    site := fun j => M.siteAt (j : Int)
    bond := fun j => M.getSL (j : Int) }

/-- `apply_local_op(i, op, unitary=True)` for a one-site operator:
`set_B(i, tensordot(op, _B[i], ['p*','p']), form[i])`. -/
def applyLocalOp (M : MPSM α) (i : Int) (O : Mat α) : MPSM α :=
  let k := M.siteIdx i
  { M with site := fun j =>
      if j = k then
        let s := M.site j
        { s with B := fun a p c => sumN s.d (fun q => O p q * s.B a q c) }
      else M.site j }

/-- `apply_JW_string_left_of_virt_leg(_B[i], 'vL', i)`: signs on the left virtual leg. -/
def applyJWLeft (M : MPSM α) (i : Int) (sgn : Vec α) : MPSM α :=
  let k := M.siteIdx i
  { M with site := fun j =>
      if j = k then
        let s := M.site j
        { s with B := fun a p c => sgn a * s.B a p c }
      else M.site j }

/-- `apply_product_op(ops)` before the final `canonical_form`: `convert_form('B')`, then one
operator per site (`none` = `'Id'`, skipped). -/
def applyProductOp (M : MPSM α) (ops : Nat → Option (Mat α)) : MPSM α :=
  let M' := M.convertForm (fun _ => formB)
  { M' with site := fun j =>
      let s := M'.site j
      match ops j with
      | some O => { s with B := fun a p c => sumN s.d (fun q => O p q * s.B a q c) }
      | none => s }

/-- `group_sites(n)` for a list of group sizes `ns` (sum = `L`): after `convert_form('B')` each
grouped tensor is `get_theta(i, n, formL=0, formR=1)` with the physical legs combined in C order
(`combine_legs`; the charge-sorting permutation of the pipe is applied by the harness). -/
def groupedSites (M : MPSM α) : Int → List Nat → List (List (RSite α))
  | _, [] => []
  | i, n :: ns =>
      (M.convertForm (fun _ => formB)).thetaSites formB.2 i formB.1 n :: groupedSites M (i + n) ns

end MPSM

/-- sign of the swap operator used by `swap_sites(swap_op='auto')`:
`(-1) ** (n_i * n_j)` with `n = site.JW_exponent` (entries 0/1). -/
def swapSign [Neg α] (nL nR : Nat → Nat) (x y : Nat) : α :=
  if nL x % 2 = 1 ∧ nR y % 2 = 1 then -1 else 1

/-- two-site wave function after the swap of `swap_sites`:
`theta'[vL, p0 = y, p1 = x, vR] = sign(x, y) * theta[vL, p0 = x, p1 = y, vR]`. -/
def swapTheta [Neg α] (nL nR : Nat → Nat) (th : Nat → Nat → Nat → Nat → α) :
    Nat → Nat → Nat → Nat → α :=
  fun a y x c => swapSign nL nR x y * th a x y c

end ring

/-! ### fermionic permutation sign (`permute_sites` = sequence of adjacent `swap_sites`) -/

/-- an item being permuted: its sort key (target position) and its fermion parity -/
structure PItem where
  key : Nat
  par : Bool
deriving DecidableEq, Repr

/-- sign picked up when `x` is moved past `y`: `(-1)^{n_x n_y}` -/
def pairSign (x y : PItem) : Int := if x.par && y.par then -1 else 1

/-- product of `pairSign x y` over the `y` in `l` that `x` has to pass (`x.key > y.key`) -/
def passSign (x : PItem) : List PItem → Int
  | [] => 1
  | y :: l => (if x.key > y.key then pairSign x y else 1) * passSign x l

/-- the fermionic sign of sorting `l` by key: product over all inversions -/
def invSign : List PItem → Int
  | [] => 1
  | x :: l => passSign x l * invSign l

/-- swap positions `k`, `k+1` -/
def swapAt : Nat → List PItem → List PItem
  | 0, x :: y :: l => y :: x :: l
  | k + 1, x :: l => x :: swapAt k l
  | _, l => l

/-- sign of one `swap_sites(k)` call on the current order -/
def swapAtSign : Nat → List PItem → Int
  | 0, x :: y :: _ => pairSign x y
  | k + 1, _ :: l => swapAtSign k l
  | _, _ => 1

/-- `permute_sites`: the insertion-sort loop of the code, returning the accumulated sign and the
final order (`fuel` bounds the loop, `L²` suffices). -/
def permuteRun : Nat → Nat → List PItem → Int → Int × List PItem
  | 0, _, l, s => (s, l)
  | fuel + 1, i, l, s =>
    if i + 1 < l.length then
      if (l.getD i ⟨0, false⟩).key > (l.getD (i + 1) ⟨0, false⟩).key then
        permuteRun fuel (if i > 0 then i - 1 else i) (swapAt i l) (s * swapAtSign i l)
      else permuteRun fuel (i + 1) l s
    else (s, l)

end TenpyModel.MPS
