import TenpyModel.MPS.MeasureProofs
import TenpyModel.MPS.GaugeProofs
import TenpyModel.MPS.Transform
/-!
Transformations on raw chains: block-diagonal sum (`MPS.add`), pairwise grouping (`group_sites`),
reversal (`spatial_inversion`), zero padding (`enlarge_chi`), Jordan-Wigner signs on a virtual leg,
fermionic permutation signs.
-/
namespace TenpyModel.MPS

universe u
variable {α : Type u} [CommSemiring α]
set_option linter.unusedSectionVars false

/-! ### `MPS.add` -/

/-- concatenation of two vectors, the first of length `n` -/
def vconcat (n : Nat) (u w : Vec α) : Vec α := fun b => if b < n then u b else w (b - n)

theorem vstep_blockRow (x y : α) (v : Vec α) (s t : RSite α) (p : Nat) (h : t.dL = s.dL) :
    vstep v (blockRow x y s t) p
      = vconcat s.dR (fun b => x * vstep v s p b) (fun b => y * vstep v t p b) := by
  funext b
  simp only [vstep, blockRow, vconcat]
  by_cases hb : b < s.dR
  · simp only [hb, if_true]; rw [mul_sumN]; exact sumN_congr (fun a _ => by ring)
  · simp only [hb, if_false]; rw [mul_sumN, h]; exact sumN_congr (fun a _ => by ring)

theorem vstep_blockDiag (u w : Vec α) (s t : RSite α) (p : Nat) :
    vstep (vconcat s.dL u w) (blockDiag s t) p = vconcat s.dR (vstep u s p) (vstep w t p) := by
  funext b
  simp only [vstep, blockDiag]
  rw [sumN_split]
  by_cases hb : b < s.dR
  · have e1 : sumN s.dL (fun a => vconcat s.dL u w a *
        (if a < s.dL then (if b < s.dR then s.M a p b else 0)
         else (if b < s.dR then 0 else t.M (a - s.dL) p (b - s.dR))))
        = sumN s.dL (fun a => u a * s.M a p b) :=
      sumN_congr (fun a ha => by simp [vconcat, ha, hb])
    have e2 : sumN t.dL (fun j => vconcat s.dL u w (s.dL + j) *
        (if s.dL + j < s.dL then (if b < s.dR then s.M (s.dL + j) p b else 0)
         else (if b < s.dR then 0 else t.M (s.dL + j - s.dL) p (b - s.dR)))) = 0 :=
      sumN_eq_zero (fun j _ => by simp [hb])
    rw [e1, e2]; simp [vconcat, hb]; rfl
  · have e1 : sumN s.dL (fun a => vconcat s.dL u w a *
        (if a < s.dL then (if b < s.dR then s.M a p b else 0)
         else (if b < s.dR then 0 else t.M (a - s.dL) p (b - s.dR)))) = 0 :=
      sumN_eq_zero (fun a ha => by simp [ha, hb])
    have e2 : sumN t.dL (fun j => vconcat s.dL u w (s.dL + j) *
        (if s.dL + j < s.dL then (if b < s.dR then s.M (s.dL + j) p b else 0)
         else (if b < s.dR then 0 else t.M (s.dL + j - s.dL) p (b - s.dR))))
        = sumN t.dL (fun j => w j * t.M j p (b - s.dR)) :=
      sumN_congr (fun j _ => by simp [vconcat, hb])
    rw [e1, e2]; simp [vconcat, hb]; rfl

theorem vstep_blockCol (u w : Vec α) (s t : RSite α) (p : Nat) :
    vstep (vconcat s.dL u w) (blockCol s t) p = fun b => vstep u s p b + vstep w t p b := by
  funext b
  simp only [vstep, blockCol]
  rw [sumN_split]
  congr 1
  · exact sumN_congr (fun a ha => by simp [vconcat, ha])
  · exact sumN_congr (fun j _ => by simp [vconcat])

/-- middle and last sites of `add`: block-diagonal tensors act on the two halves independently
and the last (column) block adds the two results. -/
theorem contract_blockDiagList (ss : List (RSite α)) :
    ∀ (ts : List (RSite α)) (n : Nat) (u w : Vec α) (σ : List Nat), ss ≠ [] → ss.length = ts.length →
      ChainOK n ss →
      contract (vconcat n u w) (blockDiagList ss ts) σ
        = fun c => contract u ss σ c + contract w ts σ c := by
  induction ss with
  | nil => intro ts n u w σ h; exact absurd rfl h
  | cons s ss ih =>
    intro ts n u w σ _ hl hc
    cases ts with
    | nil => simp at hl
    | cons t ts =>
      cases ss with
      | nil =>
        cases ts with
        | nil =>
          cases σ with
          | nil => simp [blockDiagList, contract]
          | cons p ps =>
            cases ps with
            | nil =>
              simp only [blockDiagList, contract]
              rw [← hc.1, vstep_blockCol]
            | cons _ _ => simp [blockDiagList, contract]
        | cons _ _ => simp at hl
      | cons s2 ss =>
        cases ts with
        | nil => simp at hl
        | cons t2 ts =>
          cases σ with
          | nil => simp [blockDiagList, contract]
          | cons p ps =>
            have hbd : blockDiagList (s :: s2 :: ss) (t :: t2 :: ts)
                = blockDiag s t :: blockDiagList (s2 :: ss) (t2 :: ts) := by
              simp [blockDiagList]
            rw [hbd]
            simp only [contract]
            rw [← hc.1, vstep_blockDiag]
            exact ih (t2 :: ts) s.dR _ _ ps (by simp) (by simpa using hl) hc.2

/-- **`MPS.add`**: the block tensors built by `add(other, x, y)` denote `x·|self⟩ + y·|other⟩`
(before `canonical_form_finite`, which is a gauge move) — all lengths `L ≥ 2`, all dimensions. -/
theorem contract_addChain (x y : α) (v : Vec α) (s t : RSite α) (ss ts : List (RSite α)) (σ : List Nat)
    (hne : ss ≠ []) (hl : ss.length = ts.length) (hd : t.dL = s.dL) (hc : ChainOK s.dR ss) :
    contract v (addChain x y (s :: ss) (t :: ts)) σ
      = fun c => x * contract v (s :: ss) σ c + y * contract v (t :: ts) σ c := by
  cases σ with
  | nil => funext c; simp [addChain, contract]
  | cons p ps =>
    simp only [addChain, contract]
    rw [vstep_blockRow x y v s t p hd, contract_blockDiagList ss ts s.dR _ _ ps hne hl hc,
      contract_smul, contract_smul]

/-! ### grouping sites -/

theorem vstep_groupPair (v : Vec α) (s t : RSite α) (P : Nat) (h : s.dR = t.dL) :
    vstep v (groupPair s t) P = vstep (vstep v s (P / t.d)) t (P % t.d) := by
  funext b
  simp only [vstep, groupPair]
  rw [← h]
  calc sumN s.dL (fun a => v a * sumN s.dR (fun c => s.M a (P / t.d) c * t.M c (P % t.d) b))
      = sumN s.dL (fun a => sumN s.dR (fun c => v a * s.M a (P / t.d) c * t.M c (P % t.d) b)) :=
        sumN_congr (fun a _ => by rw [mul_sumN]; exact sumN_congr (fun c _ => by ring))
    _ = sumN s.dR (fun c => sumN s.dL (fun a => v a * s.M a (P / t.d) c * t.M c (P % t.d) b)) :=
        sumN_comm _ _ _
    _ = _ := sumN_congr (fun c _ => by rw [sumN_mul])

/-- **`group_sites` / `group_split`**: contracting neighbouring sites into one tensor with the
physical legs combined in C order (and, read backwards, splitting a grouped tensor into an exact
factorization) leaves every amplitude unchanged; `P ↦ (P / d₂, P % d₂)` relabels the basis. -/
theorem contract_groupPairs (ss : List (RSite α)) :
    ∀ (n0 : Nat) (v : Vec α) (τ : List Nat), ChainOK n0 ss → (groupPairs ss).length = τ.length →
      contract v (groupPairs ss) τ = contract v ss (ungroupCfg ss τ) := by
  induction ss using groupPairs.induct with
  | case1 s t rest ih =>
    intro n0 v τ hc hl
    cases τ with
    | nil => simp [groupPairs] at hl
    | cons P Ps =>
      simp only [groupPairs, ungroupCfg, contract]
      rw [vstep_groupPair v s t P hc.2.1.symm]
      exact ih t.dR _ Ps hc.2.2 (by simpa [groupPairs] using hl)
  | case2 ss h =>
    intro n0 v τ _ _
    have h1 : groupPairs ss = ss := by
      unfold groupPairs
      split
      · exact absurd rfl (h _ _ _)
      · rfl
    have h2 : ungroupCfg ss τ = τ := by
      unfold ungroupCfg
      split
      · exact absurd rfl (h _ _ _)
      · rfl
    rw [h1, h2]

/-! ### reversal -/

theorem reverseChain_cons (s : RSite α) (ss : List (RSite α)) :
    reverseChain (s :: ss) = reverseChain ss ++ [transposeSite s] := by
  simp [reverseChain]

theorem reverseChain_length (ss : List (RSite α)) : (reverseChain ss).length = ss.length := by
  simp [reverseChain]

/-- **`spatial_inversion` on tensors**: the chain with reversed order and transposed tensors,
contracted from `w` and closed with `v`, gives the amplitude of the reversed configuration. -/
theorem contract_reverseChain (ss : List (RSite α)) :
    ∀ (n0 : Nat) (v w : Vec α) (σ : List Nat), ChainOK n0 ss → ss.length = σ.length →
      close n0 (contract w (reverseChain ss) σ.reverse) v
        = close (lastDim n0 ss) (contract v ss σ) w := by
  induction ss with
  | nil =>
    intro n0 v w σ _ hl
    cases σ with
    | nil =>
      simp only [reverseChain, List.map_nil, List.reverse_nil, contract, lastDim, close]
      exact sumN_congr (fun a _ => by ring)
    | cons _ _ => simp at hl
  | cons s ss ih =>
    intro n0 v w σ hc hl
    cases σ with
    | nil => simp at hl
    | cons p ps =>
      rw [reverseChain_cons, List.reverse_cons,
        contract_append w (reverseChain ss) [transposeSite s] ps.reverse [p]
          (by rw [reverseChain_length]; simpa using hl)]
      simp only [contract, lastDim]
      rw [← ih s.dR (vstep v s p) w ps hc.2 (by simpa using hl)]
      simp only [close, vstep, transposeSite]
      rw [← hc.1]
      calc sumN s.dL (fun a => sumN s.dR (fun b => contract w (reverseChain ss) ps.reverse b * s.M a p b) * v a)
          = sumN s.dL (fun a => sumN s.dR (fun b =>
              contract w (reverseChain ss) ps.reverse b * (v a * s.M a p b))) :=
            sumN_congr (fun a _ => by rw [sumN_mul]; exact sumN_congr (fun b _ => by ring))
        _ = sumN s.dR (fun b => sumN s.dL (fun a =>
              contract w (reverseChain ss) ps.reverse b * (v a * s.M a p b))) := sumN_comm _ _ _
        _ = _ := sumN_congr (fun b _ => by rw [mul_sumN])

theorem transposeSite_involutive (s : RSite α) : transposeSite (transposeSite s) = s := rfl

theorem reverseChain_involutive (ss : List (RSite α)) : reverseChain (reverseChain ss) = ss := by
  simp only [reverseChain, List.map_reverse, List.reverse_reverse, List.map_map]
  have : (transposeSite ∘ transposeSite : RSite α → RSite α) = id := by
    funext s; rfl
  rw [this, List.map_id]

/-! ### zero padding (`enlarge_chi`) -/

theorem contract_padding (ss : List (RSite α)) :
    ∀ (ss' : List (RSite α)) (n0 : Nat) (v v' : Vec α) (σ : List Nat), IsPadding ss ss' → ChainOK n0 ss →
      (∀ a, a < n0 → v' a = v a) → (∀ a, n0 ≤ a → v' a = 0) → ss.length = σ.length →
      (∀ b, b < lastDim n0 ss → contract v' ss' σ b = contract v ss σ b) ∧
      (∀ b, lastDim n0 ss ≤ b → contract v' ss' σ b = 0) := by
  induction ss with
  | nil =>
    intro ss' n0 v v' σ hp _ hv hz hl
    cases ss' with
    | nil =>
      cases σ with
      | nil => exact ⟨hv, hz⟩
      | cons _ _ => simp at hl
    | cons _ _ => simp [IsPadding] at hp
  | cons s ss ih =>
    intro ss' n0 v v' σ hp hc hv hz hl
    cases ss' with
    | nil => simp [IsPadding] at hp
    | cons s' ss' =>
      obtain ⟨h1, h2, h3, h4, h5, h6⟩ := hp
      obtain ⟨hc1, hc2⟩ := hc
      cases σ with
      | nil => simp at hl
      | cons p ps =>
        obtain ⟨k, hk⟩ : ∃ k, s'.dL = s.dL + k := ⟨s'.dL - s.dL, by omega⟩
        -- one step: the new vector agrees on the old range and vanishes beyond it
        have step1 : ∀ b, b < s.dR → vstep v' s' p b = vstep v s p b := by
          intro b hb
          simp only [vstep]
          rw [hk, sumN_split]
          have e2 : sumN k (fun j => v' (s.dL + j) * s'.M (s.dL + j) p b) = 0 :=
            sumN_eq_zero (fun j _ => by rw [hz (s.dL + j) (by omega)]; ring)
          rw [e2, add_zero]
          exact sumN_congr (fun a ha => by rw [hv a (by omega), h4 a p b ha hb])
        have step2 : ∀ b, s.dR ≤ b → vstep v' s' p b = 0 := by
          intro b hb
          simp only [vstep]
          rw [hk, sumN_split]
          have e1 : sumN s.dL (fun a => v' a * s'.M a p b) = 0 :=
            sumN_eq_zero (fun a ha => by rw [h5 a p b ha hb]; ring)
          have e2 : sumN k (fun j => v' (s.dL + j) * s'.M (s.dL + j) p b) = 0 :=
            sumN_eq_zero (fun j _ => by rw [hz (s.dL + j) (by omega)]; ring)
          rw [e1, e2, add_zero]
        simp only [contract, lastDim]
        exact ih ss' s.dR (vstep v s p) (vstep v' s' p) ps h6 hc2 step1 step2 (by simpa using hl)

end TenpyModel.MPS
